#!/bin/bash
# Offline setup: vendor the reference jsonschema validator (used by C15 and for evidence self-validation),
# and parse the TLA+ model(s).  Idempotent.
set -e
cd "$(dirname "$(readlink -f "$0")")"
if ! PYTHONPATH=vendor /venv/bin/python -c "import jsonschema" 2>/dev/null; then
  PIP_NO_INDEX=1 /venv/bin/pip install -q --no-index --find-links /opt/veriftools/wheels --target vendor jsonschema
fi
for f in models/*.tla; do
  [ -f "$f" ] && (cd models && tla-sany "$(basename "$f")" >/dev/null)
done
mkdir -p evidence replays
echo setup-ok
