"""C04 - the reported optimum is the best point of the recorded history (engine E2, exhaustive).

What is enumerated (every case is a *database written by hand*, no driver is run)
-------------------------------------------------------------------------------
Part D (single objective).  A database is a list of n points; the record of a point is one token per output:
    objective f   : missing | a | b | NaN              (two points carrying the same token are a tie)
    scalar ineq g : missing | -1 | exactly tol | tol+delta | tol+big | NaN
    2-comp ineq g2: missing | [-1, tol] | [-1, tol+big/2] | [tol+2big, tol+big/2] | [NaN, -1]
    scalar eq   h : missing | 0 | s*tol | s*(tol+big)      (s = -1 or +1: the measure uses |h|)
  x problem shape (ordered constraint list): [] | [g] | [h] | [g,h] | [h,g] | [g,g2,h]
  x tolerances (ineq, eq): (0,0) | (tol_i, tol_e)
  x sense: minimize | maximize (the database then holds the standardized objective "-f")
  x reporting: standardized | original objective (OptimizationProblem.use_standardized_objective)
  x gradients: absent | present at every point | present at the even points only
  x representation of scalar outputs: python float | 1-element array.
  "full product" spaces take the whole product of these axes; "selection" spaces (the big ones) take every
  database x tolerances x sense x reporting with gradients at even points and float scalars; the bounds of each
  space are in the evidence (`bounds.spaces`).  Points are stored in the arrival order x = 2, 0, 3, 1 so that
  arrival order != sort order.
Part P (Pareto): every matrix of <= 4 points x 2 objectives over {0,1,2} x every feasibility flag vector given to
  compute_pareto_optimal_points (plus the default flags), and ParetoFront.from_optimization_problem on every
  2-objective database of <= 3 points (objective missing or in {0,1}^2 (quick) / {0,1,2}^2 (thorough), constraint
  missing / satisfied / violated).
Spaces (records per point R, databases per tolerance pair = sum R^n):
  quick    full product: [] n<=4 (R=4) | [g] n<=2 (24) | [h] n<=2 (16) | [g,h], [h,g] n<=2 (96) | [g,g2,h] n=1 (480)
           selection   : [g] n=3 (24) | [h] n=3 (16) | [g,g2,h] n=2 (360, h reduced) | [g,h] n=3 (48) | [g,g2,h] n=3 (36)
  thorough full product: [] n<=4 | [g], [h] n<=3 | [g,h], [h,g] n<=2 | [g,g2,h] n<=2 (480)
           selection   : [g] n=4 (24) | [h] n=4 (16) | [g,h] n=3 (96) | [g,g2,h] n=3 (96) | [g,h] n=4 (32)

Oracle = transcription of the statement, written on plain Python floats (no gemseo code):
    sat(c, v)  = v recorded and every component <= tol_ineq (ineq) / |component| <= tol_eq (eq); NaN is not <=
    F          = points whose every constraint is recorded and satisfied
    W          = points of F whose objective is recorded and not NaN
    m(point)   = sum_g max(g - tol_ineq, 0)^2 + sum_h max(|h| - tol_eq, 0)^2    (the documented measure)
  invariants (ids used in the signatures):
    result-raises / optimum-raises     a non-empty database always has a reported solution
    reported-point-is-recorded         the reported design vector is the x of a recorded point i*
    feasibility-flag                   is_feasible == (F != {})
    reported-point-in-F                F != {}  =>  i* in F
    best-feasible                      F != {}, i* in W  =>  no j in W with s_j < s_i*  (s = standardized objective)
    least-infeasible                   F == {}, i* fully evaluated and NaN-free => m(i*) <= m(j) (1 + SLACK) for every
                                       fully evaluated NaN-free j
    values-of-that-point               objective, constraint values, constraint gradients are the recorded ones of i*
                                       (None where nothing is recorded), bitwise
    result-consistency                 OptimizationResult: x_opt, optimum_index (arrival position), is_feasible,
                                       constraint_values, constraints_grad are those of i*; f_opt == s_i*, or -s_i*
                                       for maximization with original reporting; x_0 is the first point
    feasible-points / last-point       history.feasible_points == F in arrival order; last_point describes point n-1
    measure-documented                 check_design_point_is_feasible on a fully evaluated NaN-free point returns
                                       (i in F, m(i)) up to SLACK
    pareto-dominated                   no point reported Pareto-optimal is dominated by a feasible point

SLACK (derived, not tuned): m is a sum of <= 4 non-negative terms; the code computes each as norm(v - tol)**2
(difference, squares, sum, sqrt, square: <= 6 roundings), the oracle as a sum of squares (<= 3 roundings per term);
the difference v - tol is the same IEEE operation on the same doubles on both sides.  Non-negative terms do not
amplify relative errors, so either side is within 8 * 2^-53 relative of the exact value and two measures are ordered
correctly unless they agree to 32 * 2^-53; SLACK = 64 * 2^-52 covers it with margin and stays below the smallest
relative gap the alphabet can produce (delta^2 against 4 (tol + 2 big)^2; asserted in run()).

Oracle boundaries (cases the statement leaves open: every reading is accepted, the case is counted as an outcome)
---------------------------------------------------------------------------------------------------------------
* Ties (equal standardized objective among W, equal measure): any winner is accepted.
* The violation measure of a point lacking some constraint values is not defined by the statement nor by the
  documentation of check_design_point_is_feasible (the formula is written for the full vectors g(x), h(x)).  The
  code stops summing at the first missing constraint, so a point without its first constraint gets measure 0 and is
  preferred to every fully evaluated infeasible point.  This is an allowed reading ("the measure over what was
  evaluated, constraints being evaluated in order"), hence not flagged; such databases are counted in the outcome
  classes "I/partial-point-reported-although-a-full-one-exists" and the sharper sub-class
  "...-whose-measure-is-below-the-violation-recorded-at-the-reported-point" (first constraint missing, a later one
  recorded and violated by more than the whole measure of a fully evaluated point: no completion of the missing
  values makes the reported point minimal).  Structural invariants (recorded point, flag, values of that very
  point) still apply to them.
* A fully evaluated point with a NaN constraint has no defined measure (the code uses +inf, the formula gives NaN):
  minimality is neither demanded from it nor against it.
* F != {} and the reported point has no usable objective while W != {}: "strictly smaller than no value" is open;
  counted ("F/reported-without-objective-although-W"), not flagged.  (F != {} and W == {} is NOT open: the statement
  wants a recorded feasible point to be reported.)
* Pareto: the statement only forbids dominated reported points (soundness).  Non-dominated points that are not
  reported (the code drops both members of a duplicated objective vector) and the ValueError of ParetoFront on an
  empty front are counted as outcomes, not flagged.  An infeasible reported point is not forbidden either (counted).
* OptimizationResult.objective_name is not part of the statement and is not checked (it stays "-f" under original
  reporting when the reported point has no objective value).
* Vector-valued objectives in `optimum` (the code compares Euclidean norms) are outside the statement.
"""
from __future__ import annotations

import itertools

import numpy as np

from mc.core import pmap

LEVEL = "exploration"
NAN = float("nan")
SLACK = 64 * 2.0**-52
XS = (2.0, 0.0, 3.0, 1.0)  # arrival order != sort order

# value alphabets (rotated by VERIF_SEED; the enumerated structure never changes)
VALUE_ALPHABETS = [
    {"obj": (1.0, 2.0), "tol": (1e-2, 1e-4), "delta": 1e-6, "big": 1.0, "hsign": -1.0},
    {"obj": (0.0, 3.0), "tol": (1e-3, 1e-6), "delta": 1e-5, "big": 2.0, "hsign": 1.0},
    {"obj": (-2.0, -0.5), "tol": (0.5, 0.25), "delta": 1e-3, "big": 4.0, "hsign": -1.0},
    {"obj": (-1.0, 0.0), "tol": (1e-4, 1e-2), "delta": 1e-6, "big": 1.5, "hsign": 1.0},
]

KIND = {"g": "ineq", "g2": "ineq", "h": "eq"}
FULL = {
    "f": ["-", "a", "b", "nan"],
    "g": ["-", "ok", "tol", "tol+", "big", "nan"],
    "g2": ["-", "ok,tol", "ok,mid", "big2,mid", "nan,ok"],
    "h": ["-", "zero", "tol", "big"],
}
# reduced alphabets: the satisfied representative is the on-tolerance value (the sharper one)
RED_A = {"f": FULL["f"], "g": ["-", "tol", "tol+", "big"], "h": ["-", "tol", "big"]}
RED_E = {"f": FULL["f"], "g": FULL["g"], "g2": FULL["g2"], "h": ["-", "tol", "big"]}
RED_B = {"f": FULL["f"], "g": ["-", "tol", "tol+", "big"], "g2": ["-", "ok,tol", "big2,mid"], "h": ["tol", "big"]}
RED_C = {"f": FULL["f"], "g": ["-", "tol", "tol+", "big"], "h": ["tol", "big"]}
RED_D = {"f": ["-", "a", "nan"], "g": ["-", "tol", "big"], "g2": ["ok,tol", "big2,mid"], "h": ["-", "big"]}

ALL_CONFIGS = [(s, g, r) for s in ("min", "max") for g in ("none", "all", "even") for r in ("float", "array")]
SEL_CONFIGS = [("min", "even", "float"), ("max", "even", "float")]


def spaces(thorough: bool) -> list[dict]:
    """The enumerated spaces, simplest first: shape, per-output alphabet, n range, configuration set."""
    sp = [
        {"id": "S0-unconstrained", "shape": [], "alpha": FULL, "n": [1, 2, 3, 4], "configs": "full"},
        {"id": "S1-g", "shape": ["g"], "alpha": FULL, "n": [1, 2, 3] if thorough else [1, 2], "configs": "full"},
        {"id": "S2-h", "shape": ["h"], "alpha": FULL, "n": [1, 2, 3] if thorough else [1, 2], "configs": "full"},
        {"id": "S3-g,h", "shape": ["g", "h"], "alpha": FULL, "n": [1, 2], "configs": "full"},
        {"id": "S3r-h,g", "shape": ["h", "g"], "alpha": FULL, "n": [1, 2], "configs": "full"},
        {"id": "S4-g,g2,h", "shape": ["g", "g2", "h"], "alpha": FULL, "n": [1, 2] if thorough else [1], "configs": "full"},
    ]
    if thorough:
        sp += [
            {"id": "S1-g/n4", "shape": ["g"], "alpha": FULL, "n": [4], "configs": "selection"},
            {"id": "S2-h/n4", "shape": ["h"], "alpha": FULL, "n": [4], "configs": "selection"},
            {"id": "S3-g,h/n3", "shape": ["g", "h"], "alpha": FULL, "n": [3], "configs": "selection"},
            {"id": "S4-g,g2,h/n3-reduced", "shape": ["g", "g2", "h"], "alpha": RED_B, "n": [3], "configs": "selection"},
            {"id": "S3-g,h/n4-reduced", "shape": ["g", "h"], "alpha": RED_C, "n": [4], "configs": "selection"},
        ]
    else:
        sp += [
            {"id": "S1-g/n3", "shape": ["g"], "alpha": FULL, "n": [3], "configs": "selection"},
            {"id": "S2-h/n3", "shape": ["h"], "alpha": FULL, "n": [3], "configs": "selection"},
            {"id": "S4-g,g2,h/n2-reduced", "shape": ["g", "g2", "h"], "alpha": RED_E, "n": [2], "configs": "selection"},
            {"id": "S3-g,h/n3-reduced", "shape": ["g", "h"], "alpha": RED_A, "n": [3], "configs": "selection"},
            {"id": "S4-g,g2,h/n3-reduced", "shape": ["g", "g2", "h"], "alpha": RED_D, "n": [3], "configs": "selection"},
        ]
    return sp


def point_alphabet(space: dict) -> list[tuple]:
    names = ["f", *space["shape"]]
    return list(itertools.product(*(space["alpha"][n] for n in names)))


# ------------------------------------------------------------------------------------------------------------
# tokens -> values
# ------------------------------------------------------------------------------------------------------------
def components(name: str, token: str, ti: float, te: float, va: dict):
    """The recorded value of one output as a tuple of Python floats (None = nothing recorded)."""
    if token == "-":
        return None
    big, delta = va["big"], va["delta"]
    if name == "f":
        return ({"a": va["obj"][0], "b": va["obj"][1], "nan": NAN}[token],)
    if name == "g":
        return ({"ok": -1.0, "tol": ti, "tol+": ti + delta, "big": ti + big, "nan": NAN}[token],)
    if name == "h":
        s = va["hsign"]
        return ({"zero": 0.0, "tol": s * te, "big": s * (te + big)}[token],)
    if name == "g2":
        table = {"ok": -1.0, "tol": ti, "mid": ti + big / 2, "big2": ti + 2 * big, "nan": NAN}
        return tuple(table[t] for t in token.split(","))
    raise ValueError(name)


def tolerances(tol_index: int, va: dict) -> tuple[float, float]:
    return (0.0, 0.0) if tol_index == 0 else tuple(va["tol"])


# ------------------------------------------------------------------------------------------------------------
# the oracle (plain floats)
# ------------------------------------------------------------------------------------------------------------
def sat(kind: str, comps, ti: float, te: float) -> bool:
    if comps is None:
        return False
    if kind == "eq":
        return all(abs(c) <= te for c in comps)
    return all(c <= ti for c in comps)


def measure(shape, rec, ti, te):
    """Documented violation measure of a fully evaluated point; None when undefined (missing or NaN value)."""
    total = 0.0
    for name in shape:
        comps = rec[name]
        if comps is None or any(c != c for c in comps):
            return None
        for c in comps:
            e = (abs(c) - te) if KIND[name] == "eq" else (c - ti)
            if e > 0.0:
                total += e * e
    return total


def analyse(shape, recs, ti, te) -> dict:
    n = len(recs)
    feas = [i for i in range(n) if all(sat(KIND[c], recs[i][c], ti, te) for c in shape)]
    usable = [i for i in feas if recs[i]["f"] is not None and recs[i]["f"][0] == recs[i]["f"][0]]
    full = [i for i in range(n) if all(recs[i][c] is not None for c in shape)]
    meas = {i: measure(shape, recs[i], ti, te) for i in full}
    return {"F": feas, "W": usable, "full": full, "measure": meas}


# ------------------------------------------------------------------------------------------------------------
# the real objects
# ------------------------------------------------------------------------------------------------------------
def _zero(x):  # never called: the databases are written by hand
    return 0.0


def build_problem(shape, ti, te, maximize: bool):
    from gemseo.algos.design_space import DesignSpace
    from gemseo.algos.optimization_problem import OptimizationProblem
    from gemseo.core.mdo_functions.mdo_function import MDOFunction

    ds = DesignSpace()
    ds.add_variable("x", 1, lower_bound=-10.0, upper_bound=10.0, value=0.0)
    p = OptimizationProblem(ds)
    p.objective = MDOFunction(_zero, "f")
    for name in shape:
        p.add_constraint(MDOFunction(_zero, name), constraint_type=KIND[name])
    if maximize:
        p.minimize_objective = False
    p.tolerances.inequality = ti
    p.tolerances.equality = te
    p.preprocess_functions()  # the state in which a driver builds its result (ProblemFunction.n_calls exists)
    return p


_PROBLEMS: dict = {}


def cached_problem(shape, tol_index, va_index, maximize):
    key = (tuple(shape), tol_index, va_index, maximize)
    p = _PROBLEMS.get(key)
    if p is None:
        ti, te = tolerances(tol_index, VALUE_ALPHABETS[va_index])
        p = _PROBLEMS[key] = build_problem(shape, ti, te, maximize)
    return p


def grad_value(i: int, k: int, dim: int):
    return np.array([[100.0 * (i + 1) + 10.0 * k + r] for r in range(dim)])


def materialize(shape, tokens, ti, te, va, grad: str, srepr: str, obj_key: str):
    """Model records (tuples of floats) and the output dictionaries to store (fresh arrays)."""
    recs, outs = [], []
    for i, toks in enumerate(tokens):
        rec, out = {}, {}
        with_grad = grad == "all" or (grad == "even" and i % 2 == 0)
        for k, (name, tok) in enumerate(zip(["f", *shape], toks)):
            comps = components(name, tok, ti, te, va)
            rec[name] = comps
            if comps is None:
                continue
            key = obj_key if name == "f" else name
            if len(comps) == 1 and srepr == "float":
                out[key] = comps[0]
            else:
                out[key] = np.array(comps)
            if with_grad:
                out["@" + key] = np.array([7.0 + i]) if name == "f" else grad_value(i, k, len(comps))
        recs.append(rec)
        outs.append(out)
    return recs, outs


def same(got, exp) -> bool:
    """Bitwise-equal values (None == nothing recorded); shape and NaN sensitive."""
    if got is exp:  # the very object that was stored
        return True
    if got is None or exp is None:
        return False
    a, b = np.asarray(got), np.asarray(exp)
    return a.shape == b.shape and a.dtype.kind == b.dtype.kind and bool(np.array_equal(a, b, equal_nan=True))


def same_scalar(got, exp_float) -> bool:
    """The objective may be reported as a float or as the recorded 1-element array."""
    if got is None or exp_float is None:
        return got is None and exp_float is None
    a = np.asarray(got, dtype=float).ravel()
    return a.size == 1 and (a[0] == exp_float or (a[0] != a[0] and exp_float != exp_float))


def locate(x) -> int | None:
    a = np.asarray(x).ravel()
    if a.size != 1:
        return None
    for i, v in enumerate(XS):
        if a[0] == v:
            return i
    return None


def check_database(problem, cfg: dict, va: dict) -> tuple[str, list[tuple[str, str, str]], dict]:
    """Store the database of ``cfg`` in ``problem`` and compare every report with the oracle.

    Returns (outcome class, [(invariant, api, message)], observations).
    """
    from gemseo.algos.optimization_result import OptimizationResult

    shape, tokens = cfg["shape"], cfg["records"]
    ti, te = cfg["tol"]
    maximize = cfg["sense"] == "max"
    obj_key = "-f" if maximize else "f"
    recs, outs = materialize(shape, tokens, ti, te, va, cfg["grad"], cfg["srepr"], obj_key)
    n = len(recs)
    db = problem.database
    db.clear()
    for i, out in enumerate(outs):
        db.store(np.array([XS[i]]), dict(out))
    info = analyse(shape, recs, ti, te)
    F, W, full, meas = info["F"], info["W"], info["full"], info["measure"]
    bad: list[tuple[str, str, str]] = []
    obs: dict = {"F": F, "W": W, "measure": {str(k): v for k, v in meas.items()}}

    def std(i):  # standardized objective recorded at point i
        f = recs[i]["f"]
        return None if f is None else f[0]

    def recorded(i, name, gradient=False):
        key = obj_key if name == "f" else name
        return outs[i].get(("@" + key) if gradient else key)

    # ---- situation (from the oracle alone)
    if F:
        if not W:
            situation = "F/no-feasible-point-with-usable-objective"
        else:
            best = min(std(j) for j in W)
            situation = "F/tie" if sum(1 for j in W if std(j) == best) > 1 else "F/unique-best"
            if len(W) < len(F):
                situation += "+some-feasible-without-objective"
    else:
        situation = "I/no-feasible-point"

    # ---- history.optimum
    try:
        o = problem.history.optimum
    except Exception as e:  # noqa: BLE001
        bad.append(("optimum-raises", "history.optimum", f"{type(e).__name__}: {e}"))
        return situation + "/optimum-raises", bad, obs
    istar = locate(o.design)
    obs["optimum"] = {"objective": o.objective, "design": o.design, "is_feasible": o.is_feasible, "constraints": o.constraints, "index": istar}
    if istar is None or istar >= n:
        bad.append(("reported-point-is-recorded", "history.optimum", f"reported design {o.design!r} is not the x of a recorded point (objective={o.objective!r}, is_feasible={o.is_feasible})"))
        istar = None
    if bool(o.is_feasible) != bool(F):
        bad.append(("feasibility-flag", "history.optimum", f"is_feasible={o.is_feasible} but the feasible recorded points are {F}"))
    outcome = situation
    if istar is not None:
        if F:
            if istar not in F:
                bad.append(("reported-point-in-F", "history.optimum", f"point {istar} reported, feasible points are {F}"))
            elif istar in W:
                better = [j for j in W if std(j) < std(istar)]
                if better:
                    bad.append(("best-feasible", "history.optimum", f"point {istar} (s={std(istar)}) reported, feasible points {better} have a strictly smaller standardized objective"))
            elif W:
                outcome += "/reported-without-objective-although-W"
        else:
            m_star = meas.get(istar)
            defined = {j: m for j, m in meas.items() if m is not None}
            if istar not in full:
                if not full:
                    outcome = "I/only-partially-evaluated-points"
                else:
                    outcome = "I/partial-point-reported-although-a-full-one-exists"
                    # lower bound of the measure of i* whatever its missing values are: the recorded violations
                    lower = measure([c for c in shape if recs[istar][c] is not None], recs[istar], ti, te)
                    if lower is not None and any(m < lower * (1.0 - SLACK) for m in defined.values()):
                        outcome += "-whose-measure-is-below-the-violation-recorded-at-the-reported-point"
            elif m_star is None:
                outcome = "I/NaN-point-reported" + ("-although-a-measurable-one-exists" if defined else "")
            else:
                outcome = "I/least-infeasible-full-point"
                smaller = [j for j, m in defined.items() if m < m_star * (1.0 - SLACK)]
                if smaller:
                    bad.append(("least-infeasible", "history.optimum", f"point {istar} (measure {m_star}) reported, fully evaluated points {smaller} have smaller measures {[defined[j] for j in smaller]}"))
        # values of that very point
        if not same_scalar(o.objective, std(istar)):
            bad.append(("values-of-that-point", "history.optimum.objective", f"objective {o.objective!r} reported, {recorded(istar, 'f')!r} recorded at point {istar}"))
        for c in shape:
            if c not in o.constraints or not same(o.constraints[c], recorded(istar, c)):
                bad.append(("values-of-that-point", "history.optimum.constraints", f"{c}={o.constraints.get(c)!r} reported, {recorded(istar, c)!r} recorded at point {istar}"))
            if c not in o.constraint_jacobian or not same(o.constraint_jacobian[c], recorded(istar, c, True)):
                bad.append(("values-of-that-point", "history.optimum.constraint_jacobian", f"@{c}={o.constraint_jacobian.get(c)!r} reported, {recorded(istar, c, True)!r} recorded at point {istar}"))

    # ---- OptimizationResult, both reporting modes
    keep = problem.use_standardized_objective
    for reporting in ("standardized", "original"):
        problem.use_standardized_objective = reporting == "standardized"
        try:
            r = OptimizationResult.from_optimization_problem(problem)
        except Exception as e:  # noqa: BLE001
            bad.append(("result-raises", f"OptimizationResult[{reporting}]", f"{type(e).__name__}: {e}"))
            continue
        finally:
            problem.use_standardized_objective = keep
        api = f"OptimizationResult[{reporting}]"
        j = locate(r.x_opt) if r.x_opt is not None else None
        if reporting == "original":
            obs["result"] = {"x_opt": r.x_opt, "f_opt": r.f_opt, "is_feasible": r.is_feasible, "optimum_index": r.optimum_index, "constraint_values": r.constraint_values}
        if j is None or j >= n:
            bad.append(("reported-point-is-recorded", api, f"x_opt={r.x_opt!r} is not a recorded point"))
            continue
        if istar is not None and j != istar:
            bad.append(("result-consistency", api, f"x_opt is point {j}, history.optimum reported point {istar}"))
        if r.optimum_index != j:
            bad.append(("result-consistency", api + ".optimum_index", f"optimum_index={r.optimum_index}, x_opt is the point stored at position {j}"))
        if bool(r.is_feasible) != bool(F):
            bad.append(("feasibility-flag", api, f"is_feasible={r.is_feasible}, feasible points {F}"))
        s = std(j)
        expected = s if (s is None or not maximize or reporting == "standardized") else -s
        if not same_scalar(r.f_opt, expected):
            bad.append(("result-consistency", api + ".f_opt", f"f_opt={r.f_opt!r}, expected {expected!r} (standardized value recorded at point {j}: {s!r}, sense={cfg['sense']})"))
        for c in shape:
            if not same((r.constraint_values or {}).get(c), recorded(j, c)):
                bad.append(("values-of-that-point", api + ".constraint_values", f"{c}={(r.constraint_values or {}).get(c)!r}, recorded at point {j}: {recorded(j, c)!r}"))
            if not same((r.constraints_grad or {}).get(c), recorded(j, c, True)):
                bad.append(("values-of-that-point", api + ".constraints_grad", f"@{c}={(r.constraints_grad or {}).get(c)!r}, recorded at point {j}: {recorded(j, c, True)!r}"))
        if locate(r.x_0) != 0:
            bad.append(("result-consistency", api + ".x_0", f"x_0={r.x_0!r}, first recorded point is {XS[0]}"))
        if locate(r.x_opt_as_dict.get("x")) != j:
            bad.append(("result-consistency", api + ".x_opt_as_dict", f"{r.x_opt_as_dict!r}"))

    # ---- feasible_points, last_point, documented measure
    try:
        fx, fo = problem.history.feasible_points
        if [locate(x) for x in fx] != F:
            bad.append(("feasible-points", "history.feasible_points", f"{[locate(x) for x in fx]} returned, feasible points are {F}"))
        lp = problem.history.last_point
        if locate(lp.design) != n - 1 or bool(lp.is_feasible) != ((n - 1) in F) or not same_scalar(lp.objective, std(n - 1)):
            bad.append(("last-point", "history.last_point", f"design={lp.design!r} is_feasible={lp.is_feasible} objective={lp.objective!r}; last point is {n - 1}, feasible points {F}, recorded objective {std(n - 1)!r}"))
        for c in shape:
            if not same(lp.constraints.get(c), recorded(n - 1, c)) or not same(lp.constraint_jacobian.get(c), recorded(n - 1, c, True)):
                bad.append(("last-point", "history.last_point.constraints", f"{c}: {lp.constraints.get(c)!r} / {lp.constraint_jacobian.get(c)!r}"))
        for i, m in meas.items():
            if m is None:
                continue
            ok, got = problem.history.check_design_point_is_feasible(np.array([XS[i]]))
            if bool(ok) != (i in F) or not (abs(float(got) - m) <= SLACK * m):
                bad.append(("measure-documented", "history.check_design_point_is_feasible", f"point {i}: ({ok}, {got!r}) returned, expected ({i in F}, {m!r})"))
    except Exception as e:  # noqa: BLE001
        bad.append(("history-query-raises", "history", f"{type(e).__name__}: {e}"))
    return outcome, bad, obs


def nontrivial_db(tokens) -> bool:
    """>= 2 points and a special feature: missing value, NaN, on-tolerance value, or two equal objective tokens."""
    if len(tokens) < 2:
        return False
    flat = [t for rec in tokens for t in rec]
    objs = [rec[0] for rec in tokens if rec[0] in ("a", "b")]
    return any(t == "-" or "nan" in t or "tol" in t.replace("tol+", "") for t in flat) or len(set(objs)) < len(objs)


def situation_of(outcome: str) -> str:
    return outcome.split("/reported")[0].split("/optimum-raises")[0]


def run_db_case(cfg: dict, tally) -> None:
    va_index = cfg["alphabet"]
    va = VALUE_ALPHABETS[va_index]
    problem = cached_problem(cfg["shape"], cfg["tol_index"], va_index, cfg["sense"] == "max")
    try:
        outcome, bad, _ = check_database(problem, cfg, va)
    except Exception as e:  # noqa: BLE001  (never a silent pass)
        import traceback

        tally.violation({"invariant": "harness-error", "where": f"{type(e).__name__}: {str(e)[:80]}"}, cfg, traceback.format_exc())
        return
    key = (cfg["shape"], cfg["tol_index"], cfg["sense"], cfg["grad"], cfg["srepr"], cfg["records"])
    tally.case(key, nontrivial=nontrivial_db(cfg["records"]), outcome=outcome, sample=cfg if (len(cfg["records"]) > 1 and len(cfg["shape"]) > 1 and cfg["sense"] == "max" and cfg["grad"] == "even" and cfg["srepr"] == "float" and outcome.startswith(("F/tie", "I/least"))) else None)
    tally.count("results_checked", 2)
    if not bad:
        return
    # a failure is believed only when a freshly built problem shows it too (the workers reuse problems); a
    # (situation, invariant, api) class confirmed 3 times on fresh problems in this worker is then trusted
    situation = situation_of(outcome)
    classes = {(situation, *b[:2]) for b in bad}
    if any(_CONFIRMED.get(c, 0) < 3 for c in classes):
        fresh = build_problem(cfg["shape"], *cfg["tol"], cfg["sense"] == "max")
        _, bad2, _ = check_database(fresh, cfg, va)
        if {b[:2] for b in bad} != {b[:2] for b in bad2}:
            tally.violation({"invariant": "harness-error", "where": "reused problem and fresh problem disagree"}, cfg, f"reused: {bad}\nfresh: {bad2}")
        for c in classes:
            _CONFIRMED[c] = _CONFIRMED.get(c, 0) + 1
        tally.count("failures_reexecuted_on_fresh_problem")
    else:
        bad2 = bad
    for inv, api, msg in bad2:
        tally.violation(
            {"invariant": inv, "situation": situation, "api": "history.optimum" if api.startswith("history.optimum") else api.split("[")[0]},
            {"part": "db", **cfg, "reporting_api": api},
            f"{inv} [{api}] {msg}\n  shape={cfg['shape']} tol={cfg['tol']} sense={cfg['sense']} grad={cfg['grad']} srepr={cfg['srepr']}\n  records (f, {', '.join(cfg['shape'])}) in arrival order: {cfg['records']}",
        )


_SPACES: dict = {}
_VA_INDEX = 0
_CONFIRMED: dict = {}


def run_db_unit(unit: dict, tally) -> None:
    """One work unit: every database of a space with the given number of points and record prefix."""
    space = _SPACES[unit["space"]]
    alpha = point_alphabet(space)
    n, prefix = unit["n"], [alpha[i] for i in unit["prefix"]]
    va = VALUE_ALPHABETS[_VA_INDEX]
    ti, te = tolerances(unit["tol_index"], va)
    configs = ALL_CONFIGS if space["configs"] == "full" else SEL_CONFIGS
    for rest in itertools.product(alpha, repeat=n - len(prefix)):
        records = [list(r) for r in (*prefix, *rest)]
        for sense, grad, srepr in configs:
            run_db_case(
                {"space": space["id"], "shape": space["shape"], "tol_index": unit["tol_index"], "tol": [ti, te], "alphabet": _VA_INDEX,
                 "sense": sense, "grad": grad, "srepr": srepr, "records": records},
                tally,
            )


def db_units(space_list):
    for space in space_list:
        size = len(point_alphabet(space))
        for n in space["n"]:
            plen = 0 if n == 1 else (1 if n == 2 else 2)
            for tol_index in (0, 1):
                for prefix in itertools.product(range(size), repeat=plen):
                    yield {"part": "db", "space": space["id"], "n": n, "tol_index": tol_index, "prefix": list(prefix)}


# ------------------------------------------------------------------------------------------------------------
# Pareto
# ------------------------------------------------------------------------------------------------------------
PAIRS = [(a, b) for a in (0.0, 1.0, 2.0) for b in (0.0, 1.0, 2.0)]


def dominates(u, v) -> bool:
    return all(a <= b for a, b in zip(u, v)) and any(a < b for a, b in zip(u, v))


def check_pareto_matrix(rows, flags, default_flags: bool) -> tuple[str, list[tuple[str, str]]]:
    from gemseo.algos.pareto.utils import compute_pareto_optimal_points

    obj = np.array(rows, dtype=float)
    if default_flags:
        mask = compute_pareto_optimal_points(obj)
    else:
        mask = compute_pareto_optimal_points(obj, np.array(flags, dtype=bool))
    mask = [bool(b) for b in mask]
    n = len(rows)
    bad = []
    if len(mask) != n:
        bad.append(("pareto-mask-shape", f"{len(mask)} flags for {n} points"))
        return "bad-shape", bad
    feas = [i for i in range(n) if flags[i]]
    for i in range(n):
        if mask[i]:
            dom = [j for j in feas if j != i and dominates(rows[j], rows[i])]
            if dom:
                bad.append(("pareto-dominated", f"point {i} {rows[i]} reported Pareto-optimal, dominated by feasible point(s) {dom}"))
    nondominated = [i for i in feas if not any(j != i and dominates(rows[j], rows[i]) for j in feas)]
    outcome = "front-complete" if [i for i in range(n) if mask[i]] == nondominated else "front-misses-non-dominated-points"
    if any(mask[i] and not flags[i] for i in range(n)):
        outcome += "+infeasible-point-reported"
    if not any(mask):
        outcome += "+empty"
    return outcome, bad


def run_pareto_unit(unit: dict, tally) -> None:
    n, prefix = unit["n"], [PAIRS[i] for i in unit["prefix"]]
    for rest in itertools.product(PAIRS, repeat=n - len(prefix)):
        rows = [list(r) for r in (*prefix, *rest)]
        for flags in itertools.product((True, False), repeat=n):
            variants = [False, True] if all(flags) else [False]
            for default_flags in variants:
                case = {"part": "pareto", "rows": rows, "flags": list(flags), "default_flags": default_flags}
                try:
                    outcome, bad = check_pareto_matrix(rows, flags, default_flags)
                except Exception as e:  # noqa: BLE001
                    outcome, bad = "raises", [("pareto-raises", f"{type(e).__name__}: {e}")]
                nontrivial = n >= 2 and (len({tuple(r) for r in rows}) < n or not all(flags))
                tally.case(("pareto", rows, flags, default_flags), nontrivial=nontrivial, outcome="pareto/" + outcome, sample=case if (n == 3 and nontrivial) else None)
                for inv, msg in bad:
                    tally.violation({"invariant": inv, "api": "compute_pareto_optimal_points"}, case, f"{inv}: {msg}\n  objectives={rows} feasible={list(flags)} default_flags={default_flags}")


FRONT_G = ["-", "ok", "big"]


def build_front_problem():
    from gemseo.algos.design_space import DesignSpace
    from gemseo.algos.optimization_problem import OptimizationProblem
    from gemseo.core.mdo_functions.mdo_function import MDOFunction

    ds = DesignSpace()
    ds.add_variable("x", 1, lower_bound=-10.0, upper_bound=10.0, value=0.0)
    p = OptimizationProblem(ds)
    f = MDOFunction(_zero, "f")
    f.dim = 2
    p.objective = f
    p.add_constraint(MDOFunction(_zero, "g"), constraint_type="ineq")
    return p


_FRONT_PROBLEM = None


def check_front(problem, records) -> tuple[str, list[tuple[str, str]], dict]:
    """records: [[objective pair or None, g token], ...] -> ParetoFront.from_optimization_problem vs brute force."""
    from gemseo.algos.pareto.pareto_front import ParetoFront

    db = problem.database
    db.clear()
    n = len(records)
    for i, (pair, gtok) in enumerate(records):
        out = {}
        if pair is not None:
            out["f"] = np.array(pair, dtype=float)
        if gtok != "-":
            out["g"] = np.array([-1.0 if gtok == "ok" else 1.0])
        db.store(np.array([XS[i]]), out)
    feas = [i for i in range(n) if records[i][1] == "ok"]
    withf = [i for i in feas if records[i][0] is not None]
    bad = []
    try:
        front = ParetoFront.from_optimization_problem(problem)
    except Exception as e:  # noqa: BLE001
        nondominated = [i for i in withf if not any(j != i and dominates(records[j][0], records[i][0]) for j in withf)]
        return f"front/raises-{type(e).__name__}" + ("-although-non-dominated-feasible-points-exist" if nondominated else "-no-candidate"), bad, {"exception": repr(e)}
    obs = {"f_optima": front.f_optima, "x_optima": front.x_optima}
    if len(front.f_optima) != len(front.x_optima):
        bad.append(("pareto-front-shape", f"{len(front.f_optima)} objective rows, {len(front.x_optima)} design rows"))
    reported = []
    for fo, xo in zip(front.f_optima, front.x_optima):
        i = locate(xo)
        if i is None or i >= n:
            bad.append(("reported-point-is-recorded", f"x_optima row {xo!r} is not a recorded point"))
            continue
        reported.append(i)
        if records[i][0] is None or not same(fo, np.array(records[i][0], dtype=float)):
            bad.append(("values-of-that-point", f"f_optima row {fo!r} reported for point {i}, recorded {records[i][0]!r}"))
            continue
        dom = [j for j in withf if j != i and dominates(records[j][0], records[i][0])]
        if dom:
            bad.append(("pareto-dominated", f"point {i} {records[i][0]} on the front, dominated by feasible point(s) {dom}"))
    nondominated = [i for i in withf if not any(j != i and dominates(records[j][0], records[i][0]) for j in withf)]
    outcome = "front/complete" if reported == nondominated else "front/misses-non-dominated-points"
    if any(i not in feas for i in reported):
        outcome += "+infeasible-point-reported"
    return outcome, bad, obs


def run_front_unit(unit: dict, tally) -> None:
    global _FRONT_PROBLEM
    if _FRONT_PROBLEM is None:
        _FRONT_PROBLEM = build_front_problem()
    alpha = [(pair, g) for pair in [None, *unit["pairs"]] for g in FRONT_G]
    n = unit["n"]
    prefix = [alpha[i] for i in unit["prefix"]]
    for rest in itertools.product(alpha, repeat=n - len(prefix)):
        records = [[None if p is None else list(p), g] for p, g in (*prefix, *rest)]
        case = {"part": "front", "records": records}
        try:
            outcome, bad, _ = check_front(_FRONT_PROBLEM, records)
            if bad:
                _, bad, _ = check_front(build_front_problem(), records)
        except Exception as e:  # noqa: BLE001
            import traceback

            tally.violation({"invariant": "harness-error", "where": f"front: {type(e).__name__}"}, case, traceback.format_exc())
            continue
        pairs = [tuple(r[0]) for r in records if r[0] is not None]
        nontrivial = n >= 2 and (len(set(pairs)) < len(pairs) or any(r[0] is None or r[1] != "ok" for r in records))
        tally.case(("front", records), nontrivial=nontrivial, outcome=outcome, sample=case if (n == 2 and nontrivial) else None)
        for inv, msg in bad:
            tally.violation({"invariant": inv, "api": "ParetoFront.from_optimization_problem"}, case, f"{inv}: {msg}\n  records (objective, g)={records}")


def run_unit(unit: dict, tally) -> None:
    {"db": run_db_unit, "pareto": run_pareto_unit, "front": run_front_unit}[unit["part"]](unit, tally)


# ------------------------------------------------------------------------------------------------------------
def run(ctx):
    global _SPACES, _VA_INDEX
    _VA_INDEX = ctx.seed % len(VALUE_ALPHABETS)
    va = VALUE_ALPHABETS[_VA_INDEX]
    assert va["big"] > va["delta"] > 0 and va["delta"] ** 2 > SLACK * (4 * (va["tol"][0] + 2 * va["big"]) ** 2)
    space_list = spaces(ctx.thorough)
    _SPACES = {s["id"]: s for s in space_list}
    only = getattr(ctx, "only", None)
    units = []
    if not only or "db" in only:
        units += list(db_units([s for s in space_list if not (only and "small" in only and s["configs"] != "full")]))
    pareto_n = [1, 2, 3, 4]
    front_n = [1, 2, 3]
    front_pairs = PAIRS if ctx.thorough else [(0.0, 0.0), (0.0, 1.0), (1.0, 0.0), (1.0, 1.0)]
    if not only or "pareto" in only:
        units += [{"part": "pareto", "n": n, "prefix": list(pre)} for n in pareto_n for pre in itertools.product(range(len(PAIRS)), repeat=min(n, 2))]
    if not only or "front" in only:
        n_alpha = (len(front_pairs) + 1) * len(FRONT_G)
        units += [{"part": "front", "n": n, "prefix": list(pre), "pairs": [list(p) for p in front_pairs]} for n in front_n for pre in itertools.product(range(n_alpha), repeat=min(n, 2))]
    pmap(run_unit, units, ctx.tally, jobs=ctx.jobs, chunk=1, timeout=1800)

    bounds_spaces = {}
    for s in space_list:
        size = len(point_alphabet(s))
        bounds_spaces[s["id"]] = {
            "constraints": s["shape"], "records_per_point": size, "points": s["n"],
            "databases_per_tolerance_pair": sum(size**n for n in s["n"]),
            "configurations": "sense x gradients x scalar representation (12), each with both reporting modes" if s["configs"] == "full" else "sense (2) with gradients at even points and float scalars, each with both reporting modes",
            "alphabet": {k: v for k, v in s["alpha"].items() if k in ["f", *s["shape"]]},
        }
    ctx.tally.notes["work_units"] = len(units)
    return {
        "level": LEVEL,
        "rule": "every database (list of <= n per-point records over the token alphabet) x tolerance pair x sense x gradient "
        "mode x scalar representation of each space, each checked in both reporting modes; Pareto: every <= 4 x 2 matrix over "
        "{0,1,2} x feasibility flags and every small 2-objective database.  A database is non-trivial when it has >= 2 points "
        "and a special feature (missing value, NaN, on-tolerance value or two points with the same objective token); a Pareto "
        "case when it has >= 2 points and a duplicated objective vector or a non-feasible/unevaluated point",
        "exhaustive": True,
        "bounds": {
            "tier": ctx.tier,
            "tolerance_pairs": [[0.0, 0.0], list(va["tol"])],
            "value_alphabet": va,
            "spaces": bounds_spaces,
            "pareto_matrices": {"points": pareto_n, "objectives": 2, "values": [0, 1, 2], "flags": "all vectors + default"},
            "pareto_front_databases": {"points": front_n, "objective_pairs": [list(p) for p in front_pairs], "g": FRONT_G},
        },
        "assumptions": [
            "databases are written with Database.store (no driver run); x is one float per point, arrival order 2,0,3,1",
            "value alphabet: 2 objective values, NaN, on-tolerance / barely violated / clearly violated constraint values (4 alphabets rotated by VERIF_SEED)",
            "oracle boundaries: tie winners free; no minimality demanded from or against partially evaluated or NaN-constraint points; Pareto completeness not demanded",
            "problems are reused inside a worker (database cleared between cases); every failure is re-executed on a freshly built problem before it is reported",
            "the large spaces (ids ending in /n.. ) are enumerated with gradients at even points and float scalars only; the full configuration product is taken on the small spaces",
        ],
    }


def replay(case, ctx):
    part = case.get("part", "db")
    if part == "db":
        va = VALUE_ALPHABETS[case["alphabet"]]
        problem = build_problem(case["shape"], *case["tol"], case["sense"] == "max")
        outcome, bad, obs = check_database(problem, case, va)
        recs, _ = materialize(case["shape"], case["records"], *case["tol"], va, case["grad"], case["srepr"], "f")
        return {
            "records_values": [{k: v for k, v in r.items()} for r in recs],
            "outcome": outcome,
            "observed": _plain(obs),
            "violations": [{"invariant": i, "api": a, "message": m} for i, a, m in bad],
        }
    if part == "pareto":
        outcome, bad = check_pareto_matrix(case["rows"], case["flags"], case["default_flags"])
        return {"outcome": outcome, "violations": [{"invariant": i, "message": m} for i, m in bad]}
    if part == "front":
        outcome, bad, obs = check_front(build_front_problem(), case["records"])
        return {"outcome": outcome, "observed": _plain(obs), "violations": [{"invariant": i, "message": m} for i, m in bad]}
    raise ValueError(part)


def _plain(obj):
    from mc.core import jsonable

    return jsonable(obj)
