"""C09 - composite processes differentiate by the exact chain rule (engine E2, level "exploration").

Bounded-exhaustive enumeration of *compositions*: k in {2, 3} harness disciplines in a fixed listing order,
each reading a non-empty subset and writing a non-empty subset of a pool of four names.  Enumerating every
(reads, writes) assignment over the pool is closed under renaming, so **every sort order of the names is
covered by the enumeration itself** (a renamed composition is another member of the family): the
"permuted sort order" axis of DESIGN.md is discharged by the product, exactly as the listing-order axis of
C08.  Each composition is realised as every process kind that gives it a meaning (sequential chain,
parallel chain, additive chain, MDA chain, nested combinations), with every Jacobian representation
(dense, csr, JacobianOperator), name sizes in {1, 2}, and linearized through request histories (all
Jacobians; every (inputs subset, outputs subset); two and three successive requests on the same process,
at the same point, at a moved point and after moving ONE chain input, so that the sub-disciplines that do not
read it are served by their caches; the process with its own full cache linearized at a former point).

Sharing axes (parts P7-P9).  The statement quantifies over the histories of requests *on the process* and says
nothing of who else uses its disciplines, so the uses below are inside the quantifier: linearize(x) must
return the Jacobian at x whatever the local data / caches of the sub-discipline instances hold by then.
  P7  a second process B built on the SAME discipline instances (twin, reversed chain, parallel chain, chain of
      one of them) executes / linearizes at another point between two steps of the process A; both are checked.
  P8  a sub-discipline is executed / linearized on its own between two steps of the process.
  P9  one instance at several positions of an MDOChain ([d, e, d], [d, d, e], [d, e, e], [d, e, d, f], ...,
      chain[chain[d, e], d]): the chain computes the composition of its positions
      (tests/disciplines/scenario_adapters/test_scenario_adapter.py::test_chain uses MDOChain([mda, adapter, mda])).
Oracle boundaries of these axes: only *elementary* disciplines are shared / used on their own (a shared
sub-PROCESS linearized by its parent without re-execution after having run elsewhere is the mechanism of the
registered own-full-cache finding); an instance is repeated only inside MDOChain (under MDOParallelChain /
MDOAdditiveChain it would run in two threads at once; for MDAChain the coupling graph of the instances is
cyclic, i.e. an MDA: C06/C07); nothing is asserted on the results of a sub-discipline used on its own (an
exception there is reported as 'sub-discipline-use-raises': the history cannot go on, never a silent pass).

Oracle: *forward* accumulation in the harness (gemseo accumulates in reverse): d(value)/d(process inputs)
is propagated through the execution order, replaced on overwrite.  The harness disciplines are polynomial
with small integer coefficients and are evaluated at integer points, so every partial, every product and
every sum is an integer far below 2**53: the reference and any correct accumulation order are *exact* in
binary64; the comparison tolerance (TOL_REL x sum of absolute path products) only absorbs what a
LinearOperator applied to an identity may round and is 10+ orders below the smallest possible genuine
error (1.0).
"""
from __future__ import annotations

import itertools

import numpy as np

from mc import product
from mc.core import digest, pmap

LEVEL = "exploration"
POOL = ["a", "b", "c", "d"]
TOL_REL = 1e-12

# --------------------------------------------------------------------------------------------------
# value alphabets (rotated by VERIF_SEED; the enumerated structure never changes)
# --------------------------------------------------------------------------------------------------
# points[p][name] (truncated to the size of the name); integer, non-zero, not all equal
POINT_TABLES = [
    [{"a": [1.0, 2.0], "b": [2.0, -1.0], "c": [-1.0, 1.0], "d": [2.0, 3.0]},
     {"a": [2.0, -1.0], "b": [1.0, 1.0], "c": [3.0, -2.0], "d": [-1.0, 2.0]}],
    [{"a": [2.0, 1.0], "b": [-1.0, 3.0], "c": [1.0, -2.0], "d": [1.0, 2.0]},
     {"a": [-1.0, 2.0], "b": [2.0, 2.0], "c": [-2.0, 1.0], "d": [3.0, -1.0]}],
    [{"a": [-2.0, 1.0], "b": [1.0, 2.0], "c": [2.0, 1.0], "d": [-1.0, -2.0]},
     {"a": [1.0, 1.0], "b": [-2.0, 1.0], "c": [1.0, 3.0], "d": [2.0, -1.0]}],
]


def _coef(table: int, k: int, o: str, i: str, so: int, si: int):
    """Integer coefficient blocks of discipline k for d o / d i: linear part M (non-zero entries) and a
    quadratic part Q in {-1, 0, 1} (y_o += Q @ x_i**2), a pure function of its arguments."""
    oo, ii = ord(o) - 96, ord(i) - 96
    m = np.empty((so, si))
    q = np.empty((so, si))
    for r in range(so):
        for c in range(si):
            v = (7 * k + 3 * oo + 5 * ii + 2 * r + 3 * c + 11 * table + oo * ii) % 6 - 2  # -2..3
            m[r, c] = v if v != 0 else (3 if (r + c + k) % 2 else -3)
            q[r, c] = (k + oo + 2 * ii + r + 2 * c + table) % 3 - 1
    return m, q


def _const(table: int, k: int, o: str, so: int):
    return np.array([float((k + (ord(o) - 96) + r + table) % 3 - 1) for r in range(so)])


class Body:
    """The mathematical content of harness discipline k (shared by the real discipline and the oracle)."""

    def __init__(self, k, ins, outs, sizes, table, linear=False):
        self.k, self.ins, self.outs, self.sizes = k, list(ins), list(outs), sizes
        self.M, self.Q = {}, {}
        for o in self.outs:
            for i in self.ins:
                self.M[o, i], self.Q[o, i] = _coef(table, k, o, i, sizes[o], sizes[i])
                if linear:
                    self.Q[o, i] = 0.0 * self.Q[o, i]
        self.c = {o: _const(table, k, o, sizes[o]) for o in self.outs}

    def f(self, data):
        return {o: self.c[o] + sum(self.M[o, i] @ data[i] + self.Q[o, i] @ (data[i] * data[i]) for i in self.ins) for o in self.outs}

    def partial(self, o, i, data):
        return self.M[o, i] + 2.0 * self.Q[o, i] * data[i][None, :]


_CLS = {}


def _gemseo():
    """Import gemseo lazily (the runner has put the tree under test on sys.path) and build the harness class."""
    if _CLS:
        return _CLS
    from gemseo.core.chains.additive_chain import MDOAdditiveChain
    from gemseo.core.chains.chain import MDOChain
    from gemseo.core.chains.parallel_chain import MDOParallelChain
    from gemseo.core.derivatives.jacobian_operator import JacobianOperator
    from gemseo.core.discipline import Discipline
    from gemseo.mda.mda_chain import MDAChain
    from scipy.sparse import csr_array

    class Harness(Discipline):
        def __init__(self, body: Body, rep: str):
            super().__init__(name=f"D{body.k}")
            self.body, self.rep = body, rep
            self.input_grammar.update_from_names(body.ins)
            self.output_grammar.update_from_names(body.outs)
            self.n_run = 0
            self.n_lin = 0

        def _run(self, input_data):
            self.n_run += 1
            return self.body.f({i: np.asarray(input_data[i], dtype=float) for i in self.body.ins})

        def _compute_jacobian(self, input_names=(), output_names=()):
            self.n_lin += 1
            b = self.body
            data = {i: np.asarray(self.io.data[i], dtype=float) for i in b.ins}
            jac = {}
            for o in b.outs:
                row = jac[o] = {}
                for i in b.ins:
                    mat = b.partial(o, i, data)
                    if self.rep == "csr":
                        mat = csr_array(mat)
                    elif self.rep == "op":
                        op = JacobianOperator(dtype=mat.dtype, shape=mat.shape)
                        op._matvec = lambda x, m=mat: m @ x
                        op._rmatvec = lambda x, m=mat: m.T @ x
                        mat = op
                    row[i] = mat
            self.jac = jac

    _CLS.update(
        Harness=Harness, MDOChain=MDOChain, MDOParallelChain=MDOParallelChain, MDOAdditiveChain=MDOAdditiveChain,
        MDAChain=MDAChain, JacobianOperator=JacobianOperator,
    )
    return _CLS


# --------------------------------------------------------------------------------------------------
# process trees:  int = harness discipline | ["chain", [t..]] | ["par", [t..]] | ["add", [t..], [names]]
#                 | ["mda", [ints], {"chain_linearize": bool}]   (top level only)
# --------------------------------------------------------------------------------------------------
def tree_io(node, specs):
    """Input and output names of a node, from the documented grammar rules (independent of gemseo objects)."""
    if isinstance(node, int):
        return list(specs[node][0]), list(specs[node][1])
    kind = node[0]
    ins, outs = [], []
    if kind == "mda":
        order = topo_order(node[1], specs)
        return tree_io(["chain", order], specs)
    for ch in node[1]:
        ci, co = tree_io(ch, specs)
        if kind == "chain":
            ins += [n for n in ci if n not in outs and n not in ins]
        else:
            ins += [n for n in ci if n not in ins]
        outs += [n for n in co if n not in outs]
    return ins, outs


def is_dag_single_writer(idx, specs):
    """MDAChain boundary: no name written twice, no discipline reading its own output, no cycle."""
    written = [n for k in idx for n in specs[k][1]]
    if len(written) != len(set(written)):
        return False
    return topo_order(idx, specs) is not None


def topo_order(idx, specs):
    """Producer-before-consumer order, ties by listing order (None when there is a cycle / self-loop)."""
    left, done, order = list(idx), set(), []
    produced_by_any = {n for k in idx for n in specs[k][1]}
    while left:
        for k in left:
            if set(specs[k][0]) & set(specs[k][1]):
                return None
            if all((n not in produced_by_any) or (n in done) for n in specs[k][0]):
                order.append(k)
                left.remove(k)
                done |= set(specs[k][1])
                break
        else:
            return None
    return order


def ref_eval(node, specs, bodies, val, der, absder):
    """Forward accumulation.  val: name -> value; der/absder: name -> {u: d name / d u} for the top inputs u
    (absder accumulates absolute values: the bound used by the tolerance).  Returns the node's outputs."""
    if isinstance(node, int):
        b = bodies[node]
        data = {i: val[i] for i in b.ins}
        ov = b.f(data)
        od, oa = {}, {}
        for o in b.outs:
            od[o], oa[o] = {}, {}
            for i in b.ins:
                p = b.partial(o, i, data)
                pa = np.abs(b.M[o, i]) + 2.0 * np.abs(b.Q[o, i]) * np.abs(data[i])[None, :]  # >= |p|, > 0 entrywise
                for u, m in der[i].items():
                    od[o][u] = od[o].get(u, 0.0) + p @ m
                    oa[o][u] = oa[o].get(u, 0.0) + pa @ absder[i][u]
        return ov, od, oa
    kind = node[0]
    if kind == "mda":
        return ref_eval(["chain", topo_order(node[1], specs)], specs, bodies, val, der, absder)
    ov, od, oa = {}, {}, {}
    if kind == "chain":
        sv, sd, sa = dict(val), dict(der), dict(absder)
        for ch in node[1]:
            cv, cd, ca = ref_eval(ch, specs, bodies, sv, sd, sa)
            for t, c in ((sv, cv), (sd, cd), (sa, ca), (ov, cv), (od, cd), (oa, ca)):
                t.update(c)
        return ov, od, oa
    parts = [ref_eval(ch, specs, bodies, val, der, absder) for ch in node[1]]
    for cv, cd, ca in parts:  # later children have priority
        ov.update(cv)
        od.update(cd)
        oa.update(ca)
    if kind == "add":
        for name in node[2]:
            having = [p for p in parts if name in p[0]]
            if not having:
                continue
            ov[name] = sum(p[0][name] for p in having)
            for tgt, j in ((od, 1), (oa, 2)):
                row = {}
                for p in having:
                    for u, m in p[j][name].items():
                        row[u] = row.get(u, 0.0) + m
                tgt[name] = row
    return ov, od, oa


def reference(tree, specs, bodies, sizes, x):
    ins, outs = tree_io(tree, specs)
    eye = {u: {w: (np.eye(sizes[u]) if w == u else np.zeros((sizes[u], sizes[w]))) for w in ins} for u in ins}
    ov, od, oa = ref_eval(tree, specs, bodies, dict(x), eye, eye)
    zero = lambda o, u: np.zeros((sizes[o], sizes[u]))  # noqa: E731
    jac = {o: {u: np.asarray(od[o].get(u, zero(o, u)), dtype=float) + zero(o, u) for u in ins} for o in outs}
    bound = {o: {u: float(np.max(np.asarray(oa[o].get(u, 0.0)) + zero(o, u))) for u in ins} for o in outs}
    return ins, outs, ov, jac, bound


def build(node, discs):
    g = _gemseo()
    if isinstance(node, int):
        return discs[node]
    kind = node[0]
    if kind == "mda":
        return g["MDAChain"]([discs[k] for k in node[1]], chain_linearize=bool(node[2].get("chain_linearize", True)))
    children = [build(ch, discs) for ch in node[1]]
    if kind == "chain":
        return g["MDOChain"](children)
    if kind == "par":
        return g["MDOParallelChain"](children)
    if kind == "add":
        return g["MDOAdditiveChain"](children, list(node[2]))
    raise ValueError(node)


def leaves(node):
    if isinstance(node, int):
        return [node]
    return [k for ch in node[1] for k in leaves(ch)]


# --------------------------------------------------------------------------------------------------
# structural shape classes (part of the violation signature)
# --------------------------------------------------------------------------------------------------
PRIORITY = [
    "two-overwritten-and-read", "overwritten-sorts-after-sibling-output", "overwritten-not-read", "overwritten-and-read",
    "several-writers", "coupled",
]


def shape_features(tree, specs):
    """Structural features of the composition, computed on the flattened listing order."""
    feats = set()
    live = set()
    writers = {}
    for k in leaves(tree):
        ins, outs = set(specs[k][0]), set(specs[k][1])
        both = ins & outs
        if both:
            feats.add("overwritten-and-read")  # a discipline reads a name and writes it
            if len(both) > 1:
                feats.add("two-overwritten-and-read")
            if any(y < z for z in both for y in outs if y != z):
                feats.add("overwritten-sorts-after-sibling-output")
        if (outs - ins) & live:
            feats.add("overwritten-not-read")  # a live name is written by a discipline that does not read it
        for n in outs:
            writers.setdefault(n, []).append(k)
        live |= ins | outs
    if any(len(w) > 1 for w in writers.values()):
        feats.add("several-writers")
    if {n for k in leaves(tree) for n in specs[k][0]} & set(writers):
        feats.add("coupled")  # some name is written by one discipline and read by one
    return feats


def shape_class(tree, specs):
    """(top-level kind, primary shape label).  The label is the most specific feature present; for the parallel
    kinds 'several-writers' comes first (their only way of overwriting)."""
    top = tree[0] if not isinstance(tree, int) else "disc"
    feats = shape_features(tree, specs)
    order = (["several-writers"] + PRIORITY) if top in ("par", "add") else PRIORITY
    for f in order:
        if f in feats:
            return top, f
    return top, "plain"


# --------------------------------------------------------------------------------------------------
# one case = (composition, tree, representations, sizes, request history [, grammar, linear harness])
# --------------------------------------------------------------------------------------------------
def materialize(block):
    g = _gemseo()
    if isinstance(block, g["JacobianOperator"]):
        return np.asarray(block.get_matrix_representation(), dtype=float), "op"
    if hasattr(block, "toarray"):
        return np.asarray(block.toarray(), dtype=float), "sparse"
    return np.asarray(block, dtype=float), "dense"


def tree_kind(tree):
    """Process kind including the nesting pattern, e.g. 'chain', 'mda-adjoint', 'chain[par,D]'."""
    if isinstance(tree, int):
        return "D"
    if tree[0] == "mda":
        return "mda" if tree[2].get("chain_linearize", True) else "mda-adjoint"
    inner = [tree_kind(ch) for ch in tree[1]]
    flat = leaves(tree)
    if len(set(flat)) < len(flat):
        # one instance at several positions: the positions are part of the kind, e.g. 'chain[D0,D1,D0]',
        # 'chain[chain[D0,D1],D0]'
        return _kind_with_positions(tree)
    if all(x == "D" for x in inner):
        return tree[0]
    return f"{tree[0]}[{','.join(inner)}]"


def _kind_with_positions(node):
    if isinstance(node, int):
        return f"D{node}"
    return f"{node[0]}[{','.join(_kind_with_positions(ch) for ch in node[1])}]"


def point(points, pt, ins, sizes):
    """pt = 0 | 1: one of the two points of the table; {"move": name}: point 0 with only that input moved to
    its value at point 1 (the disciplines that do not depend on it see unchanged inputs: their caches hit)."""
    if isinstance(pt, dict):
        return {n: np.array(points[1 if n == pt["move"] else 0][n][: sizes[n]]) for n in ins}
    return {n: np.array(points[pt][n][: sizes[n]]) for n in ins}


def execute_case(case):
    """Run one case on the real code.  Returns (list of (invariant, detail-dict, message), observations)."""
    g = _gemseo()
    from gemseo.core.discipline import Discipline

    previous = Discipline.default_grammar_type
    Discipline.default_grammar_type = (
        Discipline.GrammarType.JSON if case.get("grammar", "simple") == "json" else Discipline.GrammarType.SIMPLE
    )
    try:
        return _execute_case(case, g)
    finally:
        Discipline.default_grammar_type = previous


def _execute_case(case, g):
    specs = [(list(i), list(o)) for i, o in case["specs"]]
    tree, reps, sizes, table = case["tree"], case["reps"], case["sizes"], case.get("table", 0)
    bodies = [Body(k, ins, outs, sizes, table, linear=bool(case.get("linear"))) for k, (ins, outs) in enumerate(specs)]
    discs = [g["Harness"](b, reps[k]) for k, b in enumerate(bodies)]
    points = POINT_TABLES[table % len(POINT_TABLES)]
    ins, outs = tree_io(tree, specs)
    bad, obs = [], {"inputs": ins, "outputs": outs, "steps": []}
    # the processes of the case: "a" (the one of the existing parts) and, optionally, "b": a second process built
    # on the SAME discipline instances (part P7)
    procs = {}
    for tag, tr in (("a", tree), ("b", case.get("tree_b"))):
        if tr is None:
            continue
        p_ins, p_outs = tree_io(tr, specs)
        try:
            proc = build(tr, discs)
        except Exception as e:  # construction refused: an oracle boundary should have excluded the case
            return [("construction-raises", {"error": type(e).__name__}, f"{type(e).__name__}: {str(e)[:200]}")], obs
        got_in = list(proc.io.input_grammar)
        got_out = [n for n in proc.io.output_grammar if n != "MDA residuals norm"]
        if sorted(got_in) != sorted(p_ins) or sorted(got_out) != sorted(p_outs):
            return [("grammar", {}, f"process {tag} inputs/outputs {got_in}/{got_out}, harness expects {p_ins}/{p_outs}")], obs
        procs[tag] = {"proc": proc, "tree": tr, "ins": p_ins, "outs": p_outs, "req_in": [], "req_out": []}
    if case.get("cache") == "full":
        # the PROCESS gets its own full cache (as in a DOE / an optimization): a former point is served by it
        procs["a"]["proc"].set_cache(procs["a"]["proc"].CacheType.MEMORY_FULL, is_memory_shared=False)
    for step in case["history"]:
        if "sub" in step:
            # a sub-discipline is used on its own (part P8), outside any process: nothing of it is checked (an
            # elementary discipline is not the subject of C09), it only moves the local data / cache of the instance
            d = discs[step["sub"]]
            xk = point(points, step.get("pt", 0), specs[step["sub"]][0], sizes)
            try:
                if step.get("exec"):
                    d.execute({n: v.copy() for n, v in xk.items()})
                else:
                    d.linearize({n: v.copy() for n, v in xk.items()}, compute_all_jacobians=True)
            except Exception as e:
                bad.append(("sub-discipline-use-raises", {"error": type(e).__name__}, f"step {step}: {type(e).__name__}: {str(e)[:300]}"))
                break
            obs["steps"].append("sub-discipline used")
            continue
        rec = procs[step.get("on", "a")]
        n_bad = len(bad)
        go_on = _process_step(step, rec, specs, bodies, sizes, points, bad, obs)
        if step.get("on", "a") == "b":  # the wrong result is the one of the second process
            bad[n_bad:] = [(inv, {**detail, "failing": "second-process"}, msg) for inv, detail, msg in bad[n_bad:]]
        if not go_on:
            break
    return bad, obs


def _process_step(step, rec, specs, bodies, sizes, points, bad, obs):
    """One execution / linearization request on a process, compared with the reference at the requested point.
    Returns False when the history cannot go on (the call raised)."""
    proc, tree, ins, outs = rec["proc"], rec["tree"], rec["ins"], rec["outs"]
    req_in, req_out = rec["req_in"], rec["req_out"]
    x = point(points, step.get("pt", 0), ins, sizes)
    _, _, ref_val, ref_jac, bound = reference(tree, specs, bodies, sizes, x)
    if step.get("exec"):  # execution only: the values must be the ones of the function
        try:
            data = proc.execute({n: v.copy() for n, v in x.items()})
        except Exception as e:
            bad.append(("execute-raises", {"error": type(e).__name__}, f"step {step}: {type(e).__name__}: {str(e)[:300]}"))
            return False
        for o in outs:
            v = data.get(o)
            if v is None or np.shape(v) != ref_val[o].shape or not np.array_equal(np.asarray(v, dtype=float), ref_val[o]):
                bad.append(("value", {}, f"step {step}: output {o} = {None if v is None else np.asarray(v).tolist()} expected {ref_val[o].tolist()}"))
        obs["steps"].append("executed")
        return True
    try:
        if step.get("all"):
            jac = proc.linearize({n: v.copy() for n, v in x.items()}, compute_all_jacobians=True)
            want_in, want_out = ins, outs
        else:
            proc.add_differentiated_inputs(list(step["in"]))
            proc.add_differentiated_outputs(list(step["out"]))
            req_in += [n for n in step["in"] if n not in req_in]
            req_out += [n for n in step["out"] if n not in req_out]
            jac = proc.linearize({n: v.copy() for n, v in x.items()})
            want_in, want_out = req_in, req_out
    except Exception as e:
        bad.append(("linearize-raises", {"error": type(e).__name__}, f"step {step}: {type(e).__name__}: {str(e)[:300]}"))
        obs["steps"].append("raised " + type(e).__name__)
        return False
    sobs = {}
    for o in want_out:
        for u in want_in:
            blk = jac[o].get(u) if o in jac else None
            if blk is None:
                bad.append(("missing-block", {}, f"step {step}: no block d{o}/d{u}"))
                continue
            try:
                arr, _form = materialize(blk)
            except Exception as e:
                bad.append(("block-unusable", {"error": type(e).__name__}, f"step {step}: d{o}/d{u}: {type(e).__name__}: {str(e)[:200]}"))
                continue
            exp = ref_jac[o][u]
            sobs[f"d{o}/d{u}"] = arr.tolist()
            if arr.shape != exp.shape:
                bad.append(("block-shape", {"structural_zero": bound[o][u] == 0.0}, f"step {step}: d{o}/d{u} has shape {arr.shape}, expected {exp.shape}"))
            elif not np.all(np.abs(arr - exp) <= TOL_REL * max(1.0, bound[o][u])):
                bad.append((
                    "jacobian-block",
                    {"structural_zero": bound[o][u] == 0.0},
                    f"step {step}: d{o}/d{u} = {arr.tolist()} expected {exp.tolist()} at x={ {n: v.tolist() for n, v in x.items()} }",
                ))
    # Values (harness sanity: a mismatch means the reference semantics differ from the process, so the
    # Jacobian verdict would be meaningless).  linearize() restores the *input* value of a name that is
    # both an input and an output, so only pure outputs are compared.
    for o in outs:
        if o in ins:
            continue
        v = proc.io.data.get(o)
        if v is None or np.shape(v) != ref_val[o].shape or not np.array_equal(np.asarray(v, dtype=float), ref_val[o]):
            bad.append(("value", {}, f"step {step}: output {o} = {None if v is None else np.asarray(v).tolist()} expected {ref_val[o].tolist()}"))
    obs["steps"].append(sobs)
    return True


def _step_token(step):
    pt = step.get("pt", 0)
    at = "" if pt == 0 else "@1" if pt == 1 else "@move"
    if "sub" in step:
        return ("sub.exec" if step.get("exec") else "sub.lin") + at
    who = "B" if step.get("on") == "b" else "A"
    what = "exec" if step.get("exec") else "lin(all)" if step.get("all") else "lin(subset)"
    return f"{who}.{what}{at}"


def history_class(case):
    history = case["history"]
    if case.get("cache") == "full":
        return "own-full-cache"
    if any("sub" in st or st.get("on") == "b" for st in history):
        # steps of the process A interleaved with uses of its sub-disciplines by a second process B / on their own
        return "interleaved: " + " ".join(_step_token(st) for st in history)
    n = sum(1 for st in history if not st.get("exec"))
    if n == 1 and len(history) == 1:
        return "all" if history[0].get("all") else "one-request"
    return {1: "execute-then-request", 2: "two-requests"}.get(n, "three-requests")


def run_case(case, tally):
    specs = case["specs"]
    _top, shape = shape_class(case["tree"], specs)
    kind = tree_kind(case["tree"])
    bad, _obs = execute_case(case)
    hclass = history_class(case)
    # non-trivial: a name is overwritten (read or not) or written by several disciplines, or data flows between
    # disciplines and the request is not "all Jacobians" (graph pruning, request histories)
    # ... or a sub-discipline instance is used outside the process between two of its steps (its local data and
    # cache no longer are what the process left), or one instance occupies several positions of the process
    flat = leaves(case["tree"])
    repeated = len(set(flat)) < len(flat)
    nontrivial = (
        shape not in ("plain", "coupled") or (shape == "coupled" and hclass != "all") or hclass.startswith("interleaved") or repeated
    )
    key = (specs, case["tree"], case["reps"], sorted(case["sizes"].items()), case["history"], case.get("grammar"), case.get("cache"),
           case.get("tree_b"))
    outcome = "ok" if not bad else "bad:" + ",".join(sorted({b[0] for b in bad}))
    interesting = nontrivial and digest(key)[0] % 128 == 0  # a sparse, deterministic selection for the evidence samples
    tally.case(key, nontrivial=nontrivial, outcome=f"{kind}|{outcome}", sample=case if interesting else None)
    tally.count(f"process:{kind}")
    tally.count("history:interleaved" if hclass.startswith("interleaved") else f"history:{hclass}")
    tally.count(f"part:{case.get('part', '?')}")
    if not bad:
        return
    rep = "+".join(sorted(set(case["reps"])))
    nonlinear_only = None
    if any(b[0] == "jacobian-block" for b in bad) and not case.get("linear"):
        # attribution: does the same case fail with the quadratic terms removed?  (accumulation defect)
        # or only with them (a discipline linearized at the wrong point)
        lin_bad, _ = execute_case({**case, "linear": True})
        nonlinear_only = not any(b[0] == "jacobian-block" for b in lin_bad)
    for inv, detail, msg in bad:
        # own full cache: the defect site is the process kind, whatever the composition
        sig = {"invariant": inv, "process": kind, "shape": "any" if hclass == "own-full-cache" else shape, "history": hclass, **detail}
        if inv == "jacobian-block" and nonlinear_only is not None:
            sig["harness"] = "nonlinear-only" if nonlinear_only else "linear-too"
        if inv in ("linearize-raises", "block-unusable", "construction-raises") or "op" in rep:
            sig["rep"] = rep
        if case.get("tree_b"):
            sig["second_process"] = tree_kind(case["tree_b"])
        if repeated:
            sig["instance"] = "at-several-positions"
        tally.violation(
            sig, case,
            f"{inv}: {msg}\n  specs={specs} tree={case['tree']} reps={case['reps']} sizes={case['sizes']}\n  history={case['history']}"
            + (f" process cache={case['cache']}" if case.get("cache") else "")
            + (f" second process on the same instances={case['tree_b']}" if case.get("tree_b") else ""),
        )


# --------------------------------------------------------------------------------------------------
# enumeration
# --------------------------------------------------------------------------------------------------
S0 = {"a": 1, "b": 2, "c": 1, "d": 2}  # default sizes: both sizes present, m != n blocks everywhere
SIZES_QUICK = [{"a": 1, "b": 1, "c": 1, "d": 1}, {"a": 2, "b": 2, "c": 2, "d": 2}, {"a": 2, "b": 1, "c": 2, "d": 1}]
REP3 = ["dense", "csr", "op"]


def subsets(pool, max_len):
    return [list(s) for r in range(1, max_len + 1) for s in itertools.combinations(pool, r)]


def compositions(k, max_in, max_out, pool=POOL):
    """Every k-tuple of (reads, writes), simplest (fewest names) first."""
    sides = [(i, o) for i in subsets(pool, max_in) for o in subsets(pool, max_out)]
    sides.sort(key=lambda s: (len(s[0]) + len(s[1]), s))
    out = [[list(s) for s in combo] for combo in itertools.product(sides, repeat=k)]
    out.sort(key=lambda c: sum(len(s[0]) + len(s[1]) for s in c))
    return out


def is_canonical(specs):
    """One (or a few) representative(s) per renaming class: new names appear in the order a, b, c, d."""
    nxt = 0
    for ins, outs in specs:
        for side in (ins, outs):
            new = sorted(n for n in side if ord(n) - 97 >= nxt)
            for n in new:
                if ord(n) - 97 != nxt:
                    return False
                nxt += 1
    return True


def trees_for(specs, tier_thorough, nested=True):
    """Every process kind that gives the composition a meaning (oracle boundaries in the comments)."""
    k = len(specs)
    idx = list(range(k))
    out = [["chain", idx], ["par", idx]]
    outs_sets = [set(o) for _, o in specs]
    common = sorted(set.intersection(*outs_sets))
    union = sorted(set.union(*outs_sets))
    # MDOAdditiveChain: the names to sum are the names every discipline writes (its documented use) and,
    # thorough, all the outputs (a name missing in some discipline is skipped by its _execute)
    if common:
        out.append(["add", idx, common])
    # oracle boundary: MDOAdditiveChain._execute also adds the *input* value of a discipline that reads a summed name
    # without writing it (it tests `name in discipline.io.data`), so what the process computes is not the sum of the
    # writers; such unions are left out of the alphabet (reported, see notes/fixes/c09_additive_chain_sums_inputs.*)
    reads_without_writing = any(n in specs[k][0] and n not in specs[k][1] for k in idx for n in union)
    if tier_thorough and union != common and not reads_without_writing:
        out.append(["add", idx, union])
    # MDAChain: only compositions whose data graph is acyclic with a single writer per name; anything else is
    # an MDA (C06/C07) or is refused by its consistency check
    if is_dag_single_writer(idx, specs):
        out.append(["mda", idx, {"chain_linearize": True}])
        if tier_thorough:
            out.append(["mda", idx, {"chain_linearize": False}])
    if nested:
        if k == 2:
            out += [["chain", [["chain", [0]], 1]], ["chain", [["par", [0, 1]]]], ["par", [["chain", [0, 1]]]]]
            if tier_thorough:
                out += [["chain", [0, ["chain", [1]]]], ["chain", [["chain", [0, 1]]]]]
        else:
            out += [
                ["chain", [["chain", [0, 1]], 2]], ["chain", [0, ["chain", [1, 2]]]],
                ["chain", [["par", [0, 1]], 2]], ["chain", [0, ["par", [1, 2]]]],
                ["par", [["chain", [0, 1]], 2]], ["par", [0, ["chain", [1, 2]]]],
            ]
    return out


def uses_op(reps):
    return "op" in reps


def tree_supports(tree, reps):
    """Oracle boundary: MDOAdditiveChain sums blocks with the builtin sum(), which no LinearOperator supports;
    operator Jacobians are only claimed for the chains (MDOChain handles them explicitly)."""
    if not uses_op(reps):
        return True
    def has_add(t):
        return (not isinstance(t, int)) and (t[0] == "add" or any(has_add(c) for c in t[1] if not isinstance(c, int)))
    return not has_add(tree)


def requests(ins, outs, all_subsets):
    """(inputs subset, outputs subset) requests, singletons first."""
    if all_subsets:
        return [(list(i), list(o)) for i in product.nonempty_subsets(ins) for o in product.nonempty_subsets(outs)]
    reqs = [([u], [o]) for u in ins for o in outs]
    if len(ins) > 1 or len(outs) > 1:
        reqs.append((list(ins), list(outs)))
    return reqs


def histories(ins, outs, level, all_subsets=False, pairs="all"):
    """Request histories: one request (level 0), plus two successive requests on the same process
    (level 1: the quick set, level 2: the thorough set)."""
    hs = [[{"all": True}]]
    reqs = requests(ins, outs, all_subsets=all_subsets)
    hs += [[{"in": i, "out": o}] for i, o in reqs]
    if level == 0:
        return hs
    single = [([u], [o]) for u in ins for o in outs]
    full = (list(ins), list(outs))
    if len(ins) > 1:
        for u in ins:  # re-execution in which only the disciplines depending on u see new inputs
            hs.append([{"all": True}, {"all": True, "pt": {"move": u}}])
            hs.append([{"in": single[0][0], "out": single[0][1]}, {"all": True, "pt": {"move": u}}])
            if level > 1:
                hs.append([{"all": True}, {"in": single[-1][0], "out": single[-1][1], "pt": {"move": u}}])
    for i, o in single:
        # subset -> everything and everything -> subset, at the same point (cache paths) or a moved point (staleness)
        hs.append([{"in": i, "out": o}, {"all": True}])
        hs.append([{"all": True}, {"in": i, "out": o, "pt": 1}])
        if level > 1:
            hs.append([{"in": i, "out": o}, {"all": True, "pt": 1}])
            hs.append([{"all": True}, {"in": i, "out": o}])
            if full != (i, o):
                hs.append([{"in": i, "out": o}, {"in": full[0], "out": full[1]}])
    for (i1, o1), (i2, o2) in itertools.permutations(single, 2):
        # same input / same output: only one side of the request grows; disjoint: the union contains two blocks
        # nobody asked for explicitly
        disjoint = i1 != i2 and o1 != o2
        forward = single.index((i1, o1)) < single.index((i2, o2))
        # "half": the pairs growing one side only (same input or same output) in one order, the disjoint ones in both
        if pairs == "all" or (pairs == "disjoint" and disjoint) or (pairs == "half" and (disjoint or forward)):
            hs.append([{"in": i1, "out": o1}, {"in": i2, "out": o2}])
        if level > 1 and i1 != i2 and o1 != o2:
            hs.append([{"in": i1, "out": o1}, {"in": i2, "out": o2, "pt": 1}])
    return hs


def three_calls(ins, outs):
    """Three successive calls: all outputs wrt the first input; the other inputs are added at the same point (the
    disciplines not reading them are served by their caches); then only the last input moves."""
    if len(ins) < 2:
        return []
    return [[{"in": ins[:1], "out": list(outs)}, {"in": list(ins), "out": list(outs)}, {"all": True, "pt": {"move": ins[-1]}}]]


def thread_histories(ins, outs, rich):
    """Successive requests for the thread-based kinds (MDOParallelChain, MDOAdditiveChain and the nestings
    containing them): what is returned must not depend on Jacobians that the sub-disciplines (and their caches)
    kept from the previous call.  Every chain input is moved alone in turn, so the disciplines that do not read it
    - in particular the last writer of an output - are served by their caches."""
    single = [([u], [o]) for u in ins for o in outs]
    first, last = single[0], single[-1]
    hs = three_calls(ins, outs)
    if len(ins) > 1:
        hs += [[{"all": True}, {"all": True, "pt": {"move": u}}] for u in ins]
    if rich:
        hs.append([{"in": first[0], "out": first[1]}, {"all": True}])  # subset -> all, same point
        hs.append([{"all": True}, {"in": last[0], "out": last[1], "pt": 1}])  # all -> subset, moved point
        if first != last:  # singleton pairs, same point: an input and/or an output is added
            hs.append([{"in": first[0], "out": first[1]}, {"in": last[0], "out": last[1]}])
            hs.append([{"in": last[0], "out": last[1]}, {"in": first[0], "out": first[1]}])
        if len(ins) > 1 and len(outs) > 1:
            hs.append([{"in": ins[:1], "out": outs[:1]}, {"in": ins[-1:], "out": outs[:1]}])  # same output, new input
    return hs


def full_cache_histories(ins, outs):
    """The process has its own full cache: a former point is served by it and then linearized."""
    hs = [[{"exec": True, "pt": 0}, {"exec": True, "pt": 1}, {"all": True, "pt": 0}]]
    # the Jacobian cached at point 0 lacks the blocks requested later: recomputed after a visit to point 1
    hs.append([{"in": ins[:1], "out": outs[-1:], "pt": 0}, {"exec": True, "pt": 1}, {"all": True, "pt": 0}])
    return hs


# Sub-axes that expose two defects of the unmodified tree, reported with patches (notes/fixes/c09_<key>.diff/.msg,
# alternative known_findings entries in notes/fixes/c09_known_findings_sharing.json).  As for the additive chain
# summing inputs, the exposing cases are left out of the alphabet as long as the patch is not applied: set the flag
# to True once it is (all the cases below are silent on a tree with both patches).
#   linearize_without_execution_stale_jacobian: foreign uses in which an instance is used twice in a row at one
#       point (the second use is served by its cache and leaves Discipline._has_jacobian set: the process then
#       composes the Jacobian loaded for that other point)
#   chain_repeated_discipline_pruning: requests for a strict subset of inputs/outputs on an MDOChain with one
#       instance at several positions (the graph of the disciplines has no edge from a discipline to itself)
ASSUME_FIXED = {"linearize_without_execution_stale_jacobian": True, "chain_repeated_discipline_pruning": True}  # fixes 174931c, 5d4a6d8


def interleaved_histories(ins, outs, foreign, rich, foreign_ins=()):
    """Steps of the process A (at point 0 unless stated) interleaved with *foreign* uses of its sub-discipline
    instances: foreign(what, pt) is one step of the second process / of a sub-discipline on its own, what in
    {"exec", "lin"}.  Every history ends with a linearization request on A, whose blocks are checked at the
    requested point."""
    single = [([u], [o]) for u in ins for o in outs]
    a_exec, a_all = {"exec": True}, {"all": True}
    a_first = {"in": single[0][0], "out": single[0][1]}
    a_last = {"in": single[-1][0], "out": single[-1][1]}
    two = single[0] != single[-1]
    f_exec, f_lin = foreign("exec", 1), foreign("lin", 1)
    twice = ASSUME_FIXED["linearize_without_execution_stale_jacobian"]
    if not rich:
        return [h for h in [
            # executed, instance moved elsewhere, linearized at the executed point (A is served by its cache and
            # composes the derivatives without re-executing its disciplines)
            [a_exec, f_exec, a_all],
            # one more block asked at the same point after the foreign use (the Jacobian kept by A lacks it)
            [a_first, f_lin, a_last] if two else [a_exec, f_lin, a_all],
            # the foreign use ends with a cache hit of the instance (its Jacobian at the foreign point is at hand)
            [a_first if two else a_exec, f_lin, f_exec, a_all] if twice else None,
            # A moves to the point of the foreign use (the instance may be served by what the foreign use cached)
            [a_exec, f_lin, {"all": True, "pt": 1}],
        ] if h]
    firsts = [a_exec, a_all] + ([a_first] if two else [])
    lasts = [a_all, {"all": True, "pt": 1}] + ([a_last] if two else [])
    f_seqs = [[f_exec], [f_lin], [f_exec, f_exec], [f_exec, f_lin], [f_lin, f_exec], [f_lin, f_lin],
              [foreign("exec", 0)], [foreign("lin", 0)]]
    # the second use moves every input but one: the instances reading only that one are served by their caches
    f_seqs += [[foreign("lin", {"move": u}), foreign("exec", 0)] for u in foreign_ins if len(foreign_ins) > 1]
    if not twice:
        f_seqs = [f for f in f_seqs if len(f) == 1]
    return [[a, *f, z] for a in firsts for f in f_seqs for z in lasts]


def foreign_sub(k):
    return lambda what, pt: {"sub": k, what: True, "pt": pt}


def foreign_process(what, pt):
    return {"on": "b", "exec": True, "pt": pt} if what == "exec" else {"on": "b", "all": True, "pt": pt}


REPEATED2 = [["chain", [0, 1, 0]], ["chain", [0, 0, 1]], ["chain", [0, 1, 1]]]
REPEATED2_NESTED = [["chain", [["chain", [0, 1]], 0]], ["chain", [0, ["chain", [1, 0]]]]]
REPEATED3 = [["chain", [0, 1, 0, 2]], ["chain", [0, 1, 2, 0]], ["chain", [0, 1, 2, 1]]]

CHAINLIKE = ("chain", "mda")
PRUNING_KINDS = ("chain", "mda", "chain[chain,D]")


def gen_cases(ctx, table):
    thorough = ctx.thorough
    only = getattr(ctx, "only", None)

    def mk(part, specs, tree, history, reps=None, sizes=S0, grammar="simple", cache=None, tree_b=None):
        case = {"part": part, "specs": specs, "tree": tree, "reps": reps or ["dense"] * len(specs), "sizes": sizes,
                "history": history, "table": table, "grammar": grammar}
        if cache:
            case["cache"] = cache
        if tree_b:
            case["tree_b"] = tree_b
        return case

    def threaded(tree):
        kind = tree_kind(tree)
        return "par" in kind or "add" in kind

    def want(part):
        return not only or part in only.split(",")

    def single_write(specs):
        return all(len(o) == 1 for _, o in specs)

    m2 = 4 if thorough else 2
    comp2 = compositions(2, m2, m2)
    canon2_small = [c for c in compositions(2, 2, 2) if is_canonical(c)]

    # P1  sort-order layer: every 2-discipline composition (closed under renaming) x every process kind, all Jacobians
    if want("P1"):
        for specs in comp2:
            trees = trees_for(specs, thorough)
            if not is_canonical(specs) and (not thorough or max(len(x) for sp in specs for x in sp) > 2):
                # the thread-based kinds (nothing in them sorts names) on the representatives only: quick, and
                # thorough beyond 2 names per side
                trees = [t for t in trees if not threaded(t) and (thorough or tree_kind(t) in CHAINLIKE)]
            for tree in trees:
                yield mk("P1", specs, tree, [{"all": True}])
                if thorough:
                    ins, outs = tree_io(tree, specs)
                    yield mk("P1", specs, tree, [{"in": ins, "out": outs}])
    # P2  request layer: representatives of the renaming classes x every kind x requests and 2-request histories
    if want("P2"):
        for specs in canon2_small:
            for tree in trees_for(specs, thorough):
                ins, outs = tree_io(tree, specs)
                kind = tree_kind(tree)
                if kind in CHAINLIKE or (thorough and kind in PRUNING_KINDS):  # the kinds that prune by graph traversal
                    level = 2 if thorough else 1
                else:
                    level = 1 if thorough and kind in ("par", "add", "chain[par]") else 0
                if kind in CHAINLIKE or (thorough and kind in PRUNING_KINDS):
                    pairs = "all" if thorough else "half"
                else:
                    pairs = "disjoint" if thorough else "none"
                hs = histories(ins, outs, level, all_subsets=thorough and level == 2, pairs=pairs)
                if threaded(tree) and not thorough:
                    # quick: every other singleton request (checkerboard over inputs x outputs) for the thread-based kinds
                    hs = [h for h in hs if len(h[0].get("in", "..")) > 1 or len(h[0].get("out", "..")) > 1
                          or (ins.index(h[0]["in"][0]) + outs.index(h[0]["out"][0])) % 2 == 0]
                if level > 0:
                    hs += three_calls(ins, outs)
                if threaded(tree):
                    hs += [h for h in thread_histories(ins, outs, rich=thorough or kind in ("par", "add")) if h not in hs]
                for h in hs:
                    if h != [{"all": True}]:  # done in P1
                        yield mk("P2", specs, tree, h)
        if thorough:  # up to 4 names per side: single requests
            for specs in comp2:
                if is_canonical(specs) and max(len(x) for s in specs for x in s) > 2:
                    for tree in [t for t in trees_for(specs, False, nested=False) if t[0] in CHAINLIKE] + [["chain", [["chain", [0]], 1]]]:
                        ins, outs = tree_io(tree, specs)
                        for h in histories(ins, outs, 0)[1:]:
                            yield mk("P2", specs, tree, h)
    # P3  three disciplines, all Jacobians
    if want("P3"):
        for specs in compositions(3, 2, 2 if thorough else 1):
            canonical = is_canonical(specs)
            if not thorough and not canonical:
                continue
            yield mk("P3", specs, ["chain", [0, 1, 2]], [{"all": True}])
            if canonical and (not thorough or all(len(o) == 1 for _, o in specs)):
                for tree in trees_for(specs, thorough)[1:]:
                    if thorough or tree_kind(tree) not in ("chain[D,par]", "par[chain,D]", "par[D,chain]", "chain[D,chain]"):
                        yield mk("P3", specs, tree, [{"all": True}])
    # P3r three single-output disciplines (representatives), requests on the chain kinds
    if want("P3r"):
        for specs in compositions(3, 2, 1):
            if not is_canonical(specs):
                continue
            trees = [["chain", [0, 1, 2]]]
            if is_dag_single_writer([0, 1, 2], specs):
                trees.append(["mda", [0, 1, 2], {"chain_linearize": True}])
            if thorough:
                trees += [["chain", [["chain", [0, 1]], 2]], ["chain", [0, ["par", [1, 2]]]]]
            for tree in trees:
                ins, outs = tree_io(tree, specs)
                reqs = requests(ins, outs, all_subsets=False)
                if not thorough:  # quick: every other singleton request (checkerboard over inputs x outputs), the full one
                    reqs = [r for r in reqs if len(r[0]) > 1 or len(r[1]) > 1 or (ins.index(r[0][0]) + outs.index(r[1][0])) % 2 == 0]
                for i, o in reqs:
                    yield mk("P3r", specs, tree, [{"in": i, "out": o}])
                if len(ins) > 1 and (thorough or tree[0] == "chain"):
                    for u in ins:  # only the disciplines depending on u are re-executed with new inputs
                        yield mk("P3r", specs, tree, [{"all": True}, {"all": True, "pt": {"move": u}}])
                if thorough:
                    for i, o in reqs[:-1]:
                        yield mk("P3r", specs, tree, [{"in": i, "out": o}, {"all": True, "pt": 1}])
    # P4  Jacobian representations and sizes (deviations from dense / S0) on the representatives
    if want("P4"):
        rep_sets = [list(r) for r in itertools.product(REP3, repeat=2) if list(r) != ["dense", "dense"]]
        if not thorough:
            rep_sets = [["csr", "csr"], ["op", "op"], ["dense", "op"], ["op", "dense"], ["csr", "op"]]
        size_sets = SIZES_QUICK if not thorough else [
            dict(zip(POOL, s)) for s in itertools.product((1, 2), repeat=4) if dict(zip(POOL, s)) != S0
        ]
        for specs in canon2_small:
            for tree in trees_for(specs, thorough):
                if not thorough and tree_kind(tree) in ("chain[chain,D]", "chain[par]"):
                    continue
                ins, outs = tree_io(tree, specs)
                hs = [[{"all": True}]]
                if tree[0] in CHAINLIKE:
                    hs.append([{"in": ins[:1], "out": outs[-1:]}, {"all": True, "pt": 1}])
                if thorough:
                    hs.append([{"in": ins, "out": outs}])
                threads = "par" in tree_kind(tree) or "add" in tree_kind(tree)
                for reps in rep_sets:
                    if not tree_supports(tree, reps) or (threads and not thorough and len(set(reps)) > 1):
                        continue
                    for h in hs:
                        yield mk("P4", specs, tree, h, reps=reps)
                    if thorough:
                        yield mk("P4", specs, tree, hs[0], reps=reps, sizes=SIZES_QUICK[2])
                for sizes in size_sets[2:] if threads and not thorough else size_sets[::3] if threads else size_sets:
                    for h in hs[:2] if thorough else hs[:1]:
                        yield mk("P4", specs, tree, h, sizes=sizes)
        # three disciplines, mixed representations along a chain
        for specs in compositions(3, 1, 1) if not thorough else compositions(3, 2, 1):
            if not is_canonical(specs):
                continue
            for reps in (["op", "csr", "dense"], ["dense", "op", "csr"], ["csr", "dense", "op"], ["op", "op", "op"], ["csr", "csr", "csr"]):
                yield mk("P4", specs, ["chain", [0, 1, 2]], [{"all": True}], reps=reps)
    # P5  default (JSON) grammars: a slice, the bulk runs on SimpleGrammar for speed
    if want("P5"):
        for specs in canon2_small:
            for tree in trees_for(specs, False, nested=False):
                yield mk("P5", specs, tree, [{"all": True}], grammar="json")


    # P6  the process has its own full cache: execute(x1); execute(x2); linearize(x1)
    if want("P6"):
        for specs in canon2_small:
            for tree in trees_for(specs, thorough):
                ins, outs = tree_io(tree, specs)
                hs = full_cache_histories(ins, outs)
                for h in hs if thorough or not threaded(tree) or tree_kind(tree) in ("par", "add") else hs[:1]:
                    yield mk("P6", specs, tree, h, cache="full")

    # P7  a second process B built on the SAME discipline instances works between two steps of the process A
    if want("P7"):
        for specs in canon2_small:
            for tree in trees_for(specs, thorough):
                ins, outs = tree_io(tree, specs)
                kind = tree_kind(tree)
                if not thorough and kind not in CHAINLIKE and not single_write(specs):
                    continue  # quick: the nested and thread-based kinds on the single-write representatives
                partners = [tree]  # the twin: same kind, same instances (and its own sub-processes)
                if tree[0] in CHAINLIKE:
                    partners.append(["chain", [1, 0]])  # the instances in the other order
                if thorough and kind in CHAINLIKE:
                    partners += [["par", [0, 1]], ["chain", [0]], ["chain", [1]]]
                for tree_b in partners:
                    # thorough: the full product of histories for MDOChain/MDAChain and the reversed chain
                    rich = thorough and kind in CHAINLIKE and tree_b == ["chain", [1, 0]]
                    hs = interleaved_histories(ins, outs, foreign_process, rich, tree_io(tree_b, specs)[0])
                    if not thorough:
                        hs = hs[:2] if kind == "chain" else hs[:1]
                    for h in hs:
                        yield mk("P7", specs, tree, h, tree_b=tree_b)
    # P8  a sub-discipline is used on its own between two steps of the process
    if want("P8"):
        for specs in canon2_small:
            for tree in trees_for(specs, thorough):
                ins, outs = tree_io(tree, specs)
                kind = tree_kind(tree)
                if not thorough and kind not in CHAINLIKE and not single_write(specs):
                    continue  # quick: the nested and thread-based kinds on the single-write representatives
                for k in (0, 1):
                    # thorough: the full product of histories for MDOChain/MDAChain, the quick set for the others
                    hs = interleaved_histories(ins, outs, foreign_sub(k), thorough and kind in CHAINLIKE)
                    if not thorough and kind != "chain":
                        if threaded(tree):  # the thread-based kinds re-execute their disciplines when they linearize
                            hs = hs[:1] if k == 0 else []
                        else:  # the 1st history and, for D0, the one ending with a cache hit of the instance
                            hs = hs[:1] + ([h for h in hs if len(h) == 4] if k == 0 else [])
                    for h in hs:
                        yield mk("P8", specs, tree, h)
    # P9  one instance at several positions of an MDOChain (oracle boundary: not under MDOParallelChain /
    # MDOAdditiveChain - the same instance would run in two threads at once - nor MDAChain: the coupling graph
    # of the instances is cyclic, which makes it an MDA, C06/C07)
    if want("P9"):
        for specs in canon2_small:
            for tree in REPEATED2 + REPEATED2_NESTED:
                ins, outs = tree_io(tree, specs)
                moved = [{"in": ins[:1], "out": outs[-1:]}, {"all": True, "pt": 1}]
                if not ASSUME_FIXED["chain_repeated_discipline_pruning"] and tree in REPEATED2:
                    # all Jacobians, the full request, the same at a moved point
                    hs = [[{"all": True}], [{"in": ins, "out": outs}], [{"all": True}, {"in": ins, "out": outs, "pt": 1}]]
                    if not thorough and tree != REPEATED2[0]:
                        hs = hs[1:2]
                elif tree == REPEATED2[0]:
                    if thorough:
                        hs = histories(ins, outs, 1, pairs="half") + three_calls(ins, outs)
                    else:  # every other singleton request (checkerboard over inputs x outputs), all, the full one
                        hs = [h for h in histories(ins, outs, 0) if len(h[0].get("in", "..")) > 1 or len(h[0].get("out", "..")) > 1
                              or (ins.index(h[0]["in"][0]) + outs.index(h[0]["out"][0])) % 2 == 0] + [moved]
                elif thorough:
                    hs = histories(ins, outs, 0) + [moved]
                else:  # quick: the full request (flat chains) / all Jacobians (nested ones)
                    hs = [[{"in": ins, "out": outs}]] if tree in REPEATED2 else [[{"all": True}]]
                for h in hs:
                    yield mk("P9", specs, tree, h)
        for specs in compositions(3, 2 if thorough else 1, 1):
            if is_canonical(specs):
                for tree in REPEATED3:
                    ins, outs = tree_io(tree, specs)
                    pruned = thorough and ASSUME_FIXED["chain_repeated_discipline_pruning"]
                    for h in histories(ins, outs, 0) if pruned else [[{"all": True}], [{"in": ins, "out": outs}]]:
                        yield mk("P9", specs, tree, h)

def run(ctx):
    table = ctx.pick([0, 1, 2])
    _gemseo()
    n = 0

    def counted():
        nonlocal n
        for c in gen_cases(ctx, table):
            n += 1
            yield c

    pmap(run_case, counted(), ctx.tally, jobs=ctx.jobs, chunk=200, timeout=120)
    th = ctx.thorough
    m2 = 4 if th else 2
    bounds = {
        "P1": f"every two-discipline composition with <= {m2} names per side over 4 names ({len(subsets(POOL, m2)) ** 4} compositions, "
        "closed under renaming = every sort order of the names) as MDOChain and MDAChain"
        + (" (with and without chain_linearize), chain[chain,D], chain[D,chain], chain[chain]" if th else "")
        + "; the representatives of the renaming classes" + (" (every composition up to 2 names per side)" if th else "")
        + " as every other kind (MDOParallelChain, MDOAdditiveChain, chain[chain,D], chain[par], par[chain]); all Jacobians"
        + (" and the full explicit request" if th else ""),
        "P2": "representatives of the renaming classes, <= 2 names per side x every kind x "
        + ("every (inputs subset, outputs subset) request" if th else "every singleton request (every other one for the thread-based kinds) and the full request")
        + "; histories of successive requests on the same process. MDOChain/MDAChain" + ("/chain[chain,D]" if th else "")
        + ": all->all and subset->all after moving one chain input (each in turn), subset->all (same" + ("/moved" if th else "") + " point), all->subset ("
        + ("same/" if th else "") + "moved point), " + ("subset->full, every ordered pair of singleton requests (disjoint ones also at a moved point)" if th
           else "singleton pairs (disjoint: both orders; same input or same output: one order)")
        + ", three calls (first input -> all inputs at the same point -> all Jacobians after moving the last input). "
        "Thread-based kinds (par, add, chain[par], par[chain]): all->all after moving one chain input (each in turn), the three calls"
        + (", subset->all, all->subset, singleton pairs, same output + new input" if th else "; for par and add also subset->all, all->subset, singleton pairs in both orders, same output + new input")
        + ("; representatives with 3-4 names on a side as chain/mda/chain[chain,D]: singleton and full requests" if th else ""),
        "P3": "three disciplines, <= 2 reads, " + ("<= 2 writes: every composition (10^6, every sort order) as MDOChain; single-write representatives as every other kind incl. 6 nestings" if th else "1 write: representatives x {chain, par, add, mda, chain[chain,D], chain[par,D]}") + ", all Jacobians",
        "P3r": "three single-write disciplines (representatives) as MDOChain/MDAChain" + ("/chain[chain,D]/chain[D,par]: singleton" if th else ": every other singleton") + " and full requests; all Jacobians, then all Jacobians after moving one chain input (each in turn)" + (", singleton request then all Jacobians at a moved point" if th else ""),
        "P4": "representatives with <= 2 names per side x " + ("every kind" if th else "every kind but chain[chain,D], chain[par]") + ": " + ("all 8" if th else "5") + " non-dense representation pairs over {dense, csr, JacobianOperator}, "
        + ("all 15 (5 for the thread-based kinds)" if th else "3 (1 for the thread-based kinds)") + " other size assignments in {1,2}^4; 5 representation mixes along 3-discipline chains",
        "P5": "JSON grammars (the default) on the representatives with <= 2 names per side x {chain, par, add, mda}",
        "P7": "a second process B on the SAME discipline instances works between two steps of the process A (representatives with <= 2 names per side "
        "x every kind of A" + ("" if th else " - the nested and thread-based kinds on the single-write representatives only") + "; B = the twin of A, for chain-rooted kinds and MDAChain also the reversed chain"
        + (", for MDOChain/MDAChain also par[D0,D1], chain[D0], chain[D1]" if th else "") + "): "
        + ("for MDOChain/MDAChain x reversed chain the product {A.exec, A.lin(all), A.lin(first singleton)} x {B.exec, B.lin, their 4 pairs at the other point, "
           "B.exec / B.lin at the same point, B.lin after moving one input then B.exec} x {A.lin(all), A.lin(all) at B's point, A.lin(last singleton)}; otherwise the 4 histories "
           "A.exec B.exec A.lin(all) | A.lin(first) B.lin A.lin(last) | A.lin(first) B.lin B.exec A.lin(all) | A.exec B.lin A.lin(all) at B's point"
           if th else "A.exec B.exec@x1 A.lin(all)@x0 and, for MDOChain, A.lin(first singleton) B.lin(all)@x1 A.lin(last singleton)@x0")
        + "; the Jacobians of both processes are checked",
        "P8": "a sub-discipline (each in turn) is executed / linearized on its own between two steps of the process, same compositions and kinds: "
        + ("for MDOChain/MDAChain the same product of histories as P7, for the others the 4 histories"
           if th else "MDOChain: A.exec sub.exec@x1 A.lin(all) | A.lin(first) sub.lin@x1 A.lin(last) | A.lin(first) sub.lin@x1 sub.exec@x1 (served by its cache) A.lin(all) | "
           "A.exec sub.lin@x1 A.lin(all)@x1; other chain-rooted kinds and MDAChain: the 1st and 3rd for D0, the 1st for D1; thread-based kinds: the 1st for D0"),
        "P9": "one instance at several positions of an MDOChain: representatives with <= 2 names per side as chain[D0,D1,D0] ("
        + ("singleton/full requests, all Jacobians, the two-request histories of P2 (quick set), three calls" if th else "every other singleton request, the full one, all Jacobians, singleton then all at a moved point")
        + "), chain[D0,D0,D1], chain[D0,D1,D1], chain[chain[D0,D1],D0], chain[D0,chain[D1,D0]] ("
        + ("singleton/full requests, all Jacobians, singleton then all at a moved point" if th else "the full request for the flat chains, all Jacobians for the nested ones")
        + "); three single-write disciplines with " + ("<= 2 reads" if th else "1 read") + " (representatives) as chain[D0,D1,D0,D2], chain[D0,D1,D2,D0], chain[D0,D1,D2,D1] ("
        + ("singleton/full requests, all Jacobians" if th else "all Jacobians, the full request") + ")",
        "P6": "the PROCESS has its own MemoryFullCache (is_memory_shared=False): representatives with <= 2 names per side x every kind x "
        "{execute(x1); execute(x2); linearize(x1) | linearize a singleton at x1; execute(x2); linearize all at x1}; signature history='own-full-cache', "
        "shape='any' (every process whose outer process is an MDOChain is wrong there: C05/C09 known finding)",
        "cases_generated": n,
        "value_table": table,
    }
    return {
        "level": LEVEL,
        "rule": "one case = (composition of 2-3 harness disciplines over 4 names, process tree (an instance may occupy several positions), Jacobian representations, sizes, "
        "history of 1-3 linearization requests / executions interleaved with 0-2 uses of its discipline instances by a second process or on their own, process cache), "
        "run on fresh real processes and compared block by block with forward accumulation; non-trivial = a name is "
        "overwritten (read or not by the writer) or written by several disciplines, or data flows between disciplines and the request "
        "is not 'all Jacobians', or a discipline instance is used outside the process between two of its steps, or occupies several positions; distinct = distinct case records",
        "exhaustive": True,
        "bounds": bounds,
        "assumptions": [
            "harness disciplines are polynomial (linear + diagonal quadratic, integer coefficients) evaluated at integer points: comparisons are exact",
            "value alphabet: 3 (coefficients, points) tables rotated by VERIF_SEED; 2 points per table",
            "MDOParallelChain/MDOAdditiveChain with threads, free-running (their schedules are C13's subject)",
            "oracle boundaries: MDAChain only on acyclic single-writer compositions; no JacobianOperator blocks under MDOAdditiveChain (builtin sum); "
            "no MDOAdditiveChain summing a name that a discipline reads without writing it (its _execute adds that input value)",
            "oracle boundaries of the sharing axes: only elementary disciplines are shared between processes / used on their own (not sub-processes); "
            "an instance is repeated only inside MDOChain (not under the thread-based chains nor MDAChain); the sub-discipline's own results are not checked",
            "left out of the alphabet until the reported patches are applied (module flags ASSUME_FIXED, currently " + repr(ASSUME_FIXED) + "): foreign uses "
            "in which an instance is used twice in a row at one point (the second one is served by its cache; the bounds of P7/P8 describe the enumeration with the flag on), "
            "strict-subset requests on an MDOChain with a repeated instance (the bounds of P9 describe the enumeration with the flag on)",
            "SimpleGrammar for the bulk (speed), JSON grammars on slice P5",
            "representatives = compositions whose names first appear in the order a,b,c,d (>= 1 per renaming class)",
        ],
    }


def replay(case, ctx):
    bad, obs = execute_case(case)
    top, shape = shape_class(case["tree"], case["specs"])
    return {
        "case": case, "process": tree_kind(case["tree"]), "shape": shape, "observed": obs,
        "violations": [{"invariant": i, **d, "message": m} for i, d, m in bad],
    }
