"""C20 - parts F (MDOFunction trees), P (DesignSpace, ParameterSpace, OptimizationProblem) and S (scenarios).

Same engine as part D (props/c20.py): a word over {E1, E2, L1, RP, RF} (scenarios: {X, RP, RF}); a round-trip adds a
restored twin, later operations run on every twin with private copies of the arguments and are compared with the
original; then the end-of-history oracles (same observable state, probes, aliasing walk, mutation of the restored twin).
An *adapter* says what the operations and the observables of a kind of object are.
"""
from __future__ import annotations

import numpy as np

from props import _c20_recipes as R

RTS = ("RP", "RF")


# ======================================================================================================
# module-level user callables (picklable by reference)
# ======================================================================================================
def fun_f(x):
    return np.array([float(x[0] ** 2 + 2.0 * x[1] * x[2] + x[0])])


def fun_f_jac(x):
    return np.array([2.0 * x[0] + 1.0, 2.0 * x[2], 2.0 * x[1]])


def fun_g(x):
    return np.array([float(np.exp(0.5 * x[0]) + x[1] - x[2] ** 2 + 2.0)])


def fun_g_jac(x):
    return np.array([0.5 * np.exp(0.5 * x[0]), 1.0, -2.0 * x[2]])


def fun_h(x):
    return np.array([x[0] * x[1], x[1] + x[2] ** 2 + 1.0])


def fun_h_jac(x):
    return np.array([[x[1], x[0], 0.0], [0.0, 1.0, 2.0 * x[2]]])


def fun_k(x):
    return np.array([x[0] - x[2] + 2.0, x[0] * x[2] + 3.0])


def fun_k_jac(x):
    return np.array([[1.0, 0.0, -1.0], [x[2], 0.0, x[0]]])


def p_obj(x):
    return np.array([float(x[0] ** 2 + x[1] ** 2 + x[2] ** 2 + x[0] * x[1] - x[2])])


def p_obj_jac(x):
    return np.array([2 * x[0] + x[1], 2 * x[1] + x[0], 2 * x[2] - 1.0])


def p_eq(x):
    return np.array([float(x[0] + x[1] + x[2] - 1.0)])


def p_eq_jac(x):
    return np.array([1.0, 1.0, 1.0])


def p_obs(x):
    return np.array([float(x[0] * x[2])])


N = 3
XSETS = [
    [[0.3, 0.8, 0.5], [0.9, 0.1, 0.6], [0.25, 0.5, 0.75]],
    [[0.6, 0.2, 0.7], [0.1, 0.9, 0.4], [0.5, 0.35, 0.2]],
    [[0.45, 0.55, 0.15], [0.8, 0.7, 0.3], [0.05, 0.6, 0.95]],
]


# ======================================================================================================
# part F: function trees
# ======================================================================================================
def _leaf(which="f"):
    from gemseo.core.mdo_functions.mdo_function import MDOFunction

    fn, jac = {"f": (fun_f, fun_f_jac), "g": (fun_g, fun_g_jac), "h": (fun_h, fun_h_jac), "k": (fun_k, fun_k_jac)}[which]
    return MDOFunction(fn, which, jac=jac, input_names=["x"], expr=f"{which}(x)", f_type="obj" if which == "f" else "ineq")


def _restriction(which="f"):
    from gemseo.core.mdo_functions.function_restriction import FunctionRestriction

    return FunctionRestriction(np.array([1], dtype=int), np.array([0.4]), N, _leaf(which), name="r" + which)


def _lin_composite():
    from gemseo.core.mdo_functions.linear_composite_function import LinearCompositeFunction

    return LinearCompositeFunction(_leaf("h"), np.array([[1.0, 0.5, 0.0], [0.0, 2.0, -1.0], [0.3, 0.0, 1.0]]))


def _concat():
    from gemseo.core.mdo_functions.concatenate import Concatenate

    return Concatenate([_leaf("f"), _leaf("h"), _leaf("g")], "c")


def _lin_approx():
    from gemseo.core.mdo_functions.taylor_polynomials import compute_linear_approximation

    return compute_linear_approximation(_leaf("h"), np.array([0.2, 0.4, 0.6]))


def _quad_approx():
    from gemseo.core.mdo_functions.taylor_polynomials import compute_quadratic_approximation

    return compute_quadratic_approximation(_leaf("f"), np.array([0.2, 0.4, 0.6]), np.array([[2.0, 0.0, 0.0], [0.0, 0.0, 2.0], [0.0, 2.0, 0.0]]))


def _cvx_approx():
    from gemseo.core.mdo_functions.convex_linear_approx import ConvexLinearApprox

    return ConvexLinearApprox(np.array([0.2, 0.4, 0.6]), _leaf("g"))


def _linear():
    from gemseo.core.mdo_functions.mdo_linear_function import MDOLinearFunction

    return MDOLinearFunction(np.array([[1.0, -2.0, 0.5], [0.0, 3.0, 1.0]]), "lin", value_at_zero=np.array([0.5, -1.0]))


def _quadratic():
    from gemseo.core.mdo_functions.mdo_quadratic_function import MDOQuadraticFunction

    return MDOQuadraticFunction(np.array([[2.0, 0.5, 0.0], [0.5, 1.0, 0.0], [0.0, 0.0, 3.0]]), "quad", linear_coeffs=np.array([1.0, 0.0, -1.0]), value_at_zero=0.5)


FUNCS = {
    "leaf": lambda: _leaf("f"),
    "leaf-vector": lambda: _leaf("h"),
    "f+g": lambda: _leaf("f") + _leaf("g"),
    "f-g": lambda: _leaf("f") - _leaf("g"),
    "f*g": lambda: _leaf("f") * _leaf("g"),
    "f/g": lambda: _leaf("f") / _leaf("g"),
    "-f": lambda: -_leaf("f"),
    "f+2.5": lambda: _leaf("f") + 2.5,
    "f*3": lambda: _leaf("f") * 3.0,
    "h*k": lambda: _leaf("h") * _leaf("k"),
    "h/k": lambda: _leaf("h") / _leaf("k"),
    "offset": lambda: _leaf("h").offset(np.array([1.5, -0.5])),
    "(f+g)*g": lambda: (_leaf("f") + _leaf("g")) * _leaf("g"),
    "-(f*g)+f": lambda: -(_leaf("f") * _leaf("g")) + _leaf("f"),
    "(h-k)/k+h": lambda: (_leaf("h") - _leaf("k")) / _leaf("k") + _leaf("h"),
    "restriction": _restriction,
    "restriction-vector": lambda: _restriction("h"),
    "restriction+restriction": lambda: _restriction("f") + _restriction("g"),
    "linear-composite": _lin_composite,
    "concatenate": _concat,
    "linear-approximation": _lin_approx,
    "quadratic-approximation": _quad_approx,
    "convex-linear-approximation": _cvx_approx,
    "MDOLinearFunction": _linear,
    "MDOLinearFunction+h": lambda: _linear() + _leaf("h"),
    "MDOQuadraticFunction": _quadratic,
    "MDOQuadraticFunction*f": lambda: _quadratic() * _leaf("f"),
}


def _xdim(name):
    return 2 if name.startswith("restrict") else N


class FunctionAdapter:
    part = "F"
    ops = ("E1", "E2", "L1")
    probes = ("E3", "L1")

    def __init__(self, val, observe_helpers):
        self.val = val

    def cls(self, case):
        return "MDOFunction:" + case["subject"]

    def config(self, case):
        return {}

    def build(self, case):
        return FUNCS[case["subject"]]()

    def x(self, case, k):
        return np.array(case["X"][k][: _xdim(case["subject"])], dtype=float)

    def do(self, f, op, case):
        k = int(op[1]) - 1
        return f.evaluate(self.x(case, k)) if op[0] == "E" else f.jac(self.x(case, k))

    def position(self, prev):
        return "fresh" if prev is None else ("after-linearize" if prev[0] == "L" else "after-execute")

    def observe(self, f, with_state=True, with_duration=True):
        v = self.val
        o = {"class": type(f).__name__, "settings": {k: v(getattr(f, k, None)) for k in ("name", "f_type", "expr", "input_names", "output_names", "special_repr", "original_name", "force_real", "expects_normalized_inputs", "has_default_name")}}
        o["settings"]["has_jac"] = bool(f.has_jac)
        if with_state:
            o["state"] = {"dim": f.dim, "last_eval": v(f.last_eval)}
        return o

    def mutate(self, r, case):
        if isinstance(r.last_eval, np.ndarray) and r.last_eval.flags.writeable:
            r.last_eval += 5.0
        r.name = "renamed"
        try:
            r.input_names.append("extra")
            r.output_names.append("extra")
        except Exception:  # noqa: BLE001
            pass
        r.f_type = "eq"
        r.special_repr = "changed"


# ======================================================================================================
# part P: design spaces and problems
# ======================================================================================================
def _design_space(kind):
    from gemseo.algos.design_space import DesignSpace

    ds = DesignSpace()
    if kind == "float":
        ds.add_variable("x", 3, lower_bound=-2.0, upper_bound=3.0, value=np.array([1.0, 2.0, 0.5]))
    elif kind == "mixed":
        ds.add_variable("x", 1, lower_bound=-2.0, upper_bound=3.0, value=1.0)
        ds.add_variable("n", 1, "integer", lower_bound=-1, upper_bound=4, value=2)
        ds.add_variable("z", 1, lower_bound=0.0, upper_bound=np.inf, value=0.5)
    elif kind == "novalue":
        ds.add_variable("x", 2, lower_bound=np.array([-2.0, 0.5]), upper_bound=np.array([3.0, 0.5]))
        ds.add_variable("z", 1, lower_bound=-np.inf, upper_bound=4.0)
    return ds


def _parameter_space():
    from gemseo.algos.parameter_space import ParameterSpace

    ps = ParameterSpace()
    ps.add_variable("x", 1, lower_bound=-2.0, upper_bound=3.0, value=1.0)
    ps.add_random_variable("u", "SPUniformDistribution", minimum=-1.0, maximum=2.0)
    ps.add_random_variable("w", "SPNormalDistribution", mu=0.5, sigma=2.0)
    return ps


class DesignSpaceAdapter:
    part = "P"
    ops = ("E1", "E2", "L1")
    probes = ("E3", "L1")

    def __init__(self, val, helpers):
        self.val = val
        self.observe_design_space = helpers["observe_design_space"]

    def cls(self, case):
        return case["subject"]

    def config(self, case):
        return {}

    def build(self, case):
        kind = case["subject"].split("/")[1]
        return _parameter_space() if kind == "ParameterSpace" else _design_space(kind)

    def x(self, ds, case, k):
        u = np.array(case["X"][k], dtype=float)[: ds.dimension]
        lb, ub = ds.get_lower_bounds(), ds.get_upper_bounds()
        lo = np.where(np.isfinite(lb), lb, -3.0)
        hi = np.where(np.isfinite(ub), ub, 5.0)
        x = lo + u * (hi - lo)
        return ds.round_vect(x) if hasattr(ds, "round_vect") else x

    def do(self, ds, op, case):
        if op[0] == "E" and op != "E2":  # queries that fill the hidden normalization caches
            x = self.x(ds, case, int(op[1]) - 1)
            out = {"dict": ds.convert_array_to_dict(x), "membership": None}
            try:
                ds.check_membership(x)
            except Exception as e:  # noqa: BLE001
                out["membership"] = type(e).__name__
            try:
                n = ds.normalize_vect(x)
                out["normalized"], out["back"] = n, ds.unnormalize_vect(n)
            except Exception as e:  # noqa: BLE001
                out["normalized"] = type(e).__name__
            if hasattr(ds, "transform_vect"):
                out["transformed"] = ds.transform_vect(x)
            return out
        if op == "E2":  # a mutator
            ds.set_current_value(self.x(ds, case, 1))
            return {"current": ds.get_current_value(), "normalized": ds.get_current_value(normalize=True) if not hasattr(ds, "transform_vect") else None}
        x = self.x(ds, case, int(op[1]) - 1) * 1.7  # L: projection / gradient scaling
        return {"projected": ds.project_into_bounds(x), "grad": ds.normalize_grad(np.array(case["X"][0][: ds.dimension])) if not hasattr(ds, "transform_vect") else None}

    def position(self, prev):
        return "fresh" if prev is None else ("after-query" if prev != "E2" else "after-set-current-value")

    def observe(self, ds, with_state=True, with_duration=True):
        return {"settings": self.observe_design_space(ds)}

    def mutate(self, r, case):
        name = r.variable_names[0]
        r.set_lower_bound(name, np.full(r.get_size(name), -50.0))
        for nm in r.variable_names:
            lb = r.get_lower_bound(nm)
            if isinstance(lb, np.ndarray) and lb.flags.writeable and lb.dtype.kind == "f":
                lb -= 1.0
        if r.has_current_value:
            cv = r.get_current_value(as_dict=True)
            for v in cv.values():
                if isinstance(v, np.ndarray) and v.flags.writeable and v.dtype.kind == "f":
                    v += 0.125
        r.rename_variable(name, name + "_renamed")
        r.add_variable("added", 1, lower_bound=0.0, upper_bound=1.0, value=0.5)


PROBLEM_KINDS = {
    # name: (normalize at preprocessing, differentiation method, equality constraint, observable, maximize, design space kind)
    "base": dict(),
    "unnormalized": dict(normalize=False),
    "finite-differences": dict(diff="finite_differences"),
    "equality+observable": dict(eq=True, obs=True),
    "maximize": dict(maximize=True),
    "mixed-design-space": dict(ds="mixed"),
}
STAGES = ("fresh", "preprocessed", "evaluated", "executed")


def _problem(kind, stage, X):
    from gemseo.algos.optimization_problem import OptimizationProblem
    from gemseo.core.mdo_functions.mdo_function import MDOFunction

    cfg = PROBLEM_KINDS[kind]
    p = OptimizationProblem(_design_space(cfg.get("ds", "float")))
    if cfg.get("diff"):
        p.differentiation_method = cfg["diff"]
    p.objective = MDOFunction(p_obj, "f", jac=p_obj_jac, input_names=["x"], f_type="obj")
    p.add_constraint(MDOFunction(R.cstr, "g", jac=R.cstr_jac, input_names=["x"]), constraint_type="ineq", value=2.0)
    if cfg.get("eq"):
        p.add_constraint(MDOFunction(p_eq, "h", jac=p_eq_jac, input_names=["x"]), constraint_type="eq")
    if cfg.get("obs"):
        p.add_observable(MDOFunction(p_obs, "o", input_names=["x"]))
    if cfg.get("maximize"):
        p.minimize_objective = False
    if stage in ("preprocessed", "evaluated"):
        p.preprocess_functions(is_function_input_normalized=cfg.get("normalize", True))
    if stage == "evaluated":
        for x in X[:2]:
            for f in p.functions:
                f.evaluate(np.array(x))
            try:
                p.objective.jac(np.array(x))
            except Exception:  # noqa: BLE001
                pass
    if stage == "executed":
        _drive(p, cfg)
    return p


def _drive(p, cfg=None):
    from gemseo.algos.opt.factory import OptimizationLibraryFactory

    return OptimizationLibraryFactory().execute(p, algo_name="SLSQP", max_iter=6, normalize_design_space=(cfg or {}).get("normalize", True), skip_int_check=True)


class ProblemAdapter:
    part = "P"
    ops = ("E1", "E2", "L1")
    probes = ("E3", "L1", "X")

    def __init__(self, val, helpers):
        self.val = val
        self.observe_problem = helpers["observe_problem"]

    def cls(self, case):
        return case["subject"]

    def config(self, case):
        return {"stage": case["stage"]}

    def build(self, case):
        return _problem(case["subject"].split("/")[1], case["stage"], case["X"])

    def do(self, p, op, case):
        if op == "X":
            res = _drive(p, PROBLEM_KINDS[case["subject"].split("/")[1]])
            return {"x_opt": res.x_opt, "f_opt": res.f_opt, "n_obj_call": res.n_obj_call, "is_feasible": res.is_feasible, "status": res.status,
                    "database": [[np.asarray(k.unwrap()), dict(d)] for k, d in p.database.items()]}
        x = np.array(case["X"][int(op[1]) - 1], dtype=float)
        if op[0] == "E":
            return {f.name: f.evaluate(x.copy()) for f in p.functions}
        return {f.name: f.jac(x.copy()) for f in [p.objective, *p.constraints]}

    def position(self, prev):
        return "fresh" if prev is None else ("after-linearize" if prev[0] == "L" else "after-execute")

    def observe(self, p, with_state=True, with_duration=True):
        return self.observe_problem(p, with_state)

    def mutate(self, r, case):
        r.database.clear()
        ds = r.design_space
        name = ds.variable_names[0]
        ds.set_upper_bound(name, np.full(ds.get_size(name), 77.0))
        if ds.has_current_value:
            for v in ds.get_current_value(as_dict=True).values():
                if isinstance(v, np.ndarray) and v.flags.writeable and v.dtype.kind == "f":
                    v += 0.125
        r.objective.name = "renamed"
        r.tolerances.equality = 0.5
        try:
            r.evaluation_counter.current += 17
        except Exception:  # noqa: BLE001
            pass
        for f in r.functions:
            if hasattr(f, "n_calls"):
                try:
                    f.n_calls = 99
                except Exception:  # noqa: BLE001
                    pass


# ======================================================================================================
# part S: scenarios
# ======================================================================================================
SCENARIOS = {
    # name: (class, formulation, disciplines, algo settings)
    "MDOScenario/DisciplinaryOpt/SLSQP": ("MDO", "DisciplinaryOpt", "analytic", dict(algo_name="SLSQP", max_iter=8)),
    "MDOScenario/MDF/SLSQP": ("MDO", "MDF", "sellar", dict(algo_name="SLSQP", max_iter=6)),
    "MDOScenario/IDF/SLSQP": ("MDO", "IDF", "sellar", dict(algo_name="SLSQP", max_iter=6)),
    "MDOScenario/MDF/L-BFGS-B": ("MDO", "MDF", "sellar-unconstrained", dict(algo_name="L-BFGS-B", max_iter=5)),
    "DOEScenario/DisciplinaryOpt/PYDOE_FULLFACT": ("DOE", "DisciplinaryOpt", "analytic", dict(algo_name="PYDOE_FULLFACT", n_samples=9)),
    "DOEScenario/MDF/OT_LHS": ("DOE", "MDF", "sellar", dict(algo_name="OT_LHS", n_samples=4)),
    "DOEScenario/IDF/LHS": ("DOE", "IDF", "sellar", dict(algo_name="LHS", n_samples=4)),
}
ITERATIVE_SCENARIOS = {k for k, v in SCENARIOS.items() if v[1] == "MDF"}


def _scenario(name, cache, h5):
    from gemseo.scenarios.doe_scenario import DOEScenario
    from gemseo.scenarios.mdo_scenario import MDOScenario

    kind, form, discs, _ = SCENARIOS[name]
    cls = MDOScenario if kind == "MDO" else DOEScenario
    if discs == "analytic":
        from gemseo.algos.design_space import DesignSpace
        from gemseo.disciplines.analytic import AnalyticDiscipline

        d = [AnalyticDiscipline({"obj": "(x-1)**2+(z+0.5)**2+x*z", "c_1": "x+z-1.5"}, name="ana")]
        ds = DesignSpace()
        ds.add_variable("x", 1, lower_bound=-2.0, upper_bound=3.0, value=0.25)
        ds.add_variable("z", 1, lower_bound=-1.0, upper_bound=2.0, value=1.0)
        sc = cls(d, "obj", ds, formulation_name=form)
        sc.add_constraint("c_1", "ineq")
    else:
        from gemseo.problems.mdo.sellar.sellar_design_space import SellarDesignSpace

        d = R._sellar()
        ds = SellarDesignSpace()
        kw = {}
        if form != "IDF":
            ds.filter(["x_1", "x_2", "x_shared"])
            kw = {"main_mda_settings": {"tolerance": R.MDA_TOL, "max_mda_iter": 40}}
        sc = cls(d, "obj", ds, formulation_name=form, **kw)
        if discs == "sellar":
            sc.add_constraint("c_1", "ineq")
            sc.add_constraint("c_2", "ineq")
    if cache == "memF":
        for x in d:
            x.set_cache(x.CacheType.MEMORY_FULL, is_memory_shared=False)
    return sc


class ScenarioAdapter:
    part = "S"
    ops = ("X",)
    probes = ("X",)

    def __init__(self, val, helpers):
        self.val = val
        self.observe_scenario = helpers["observe_scenario"]
        self.observe = self._observe
        self.observe_disc = helpers["observe"]

    def cls(self, case):
        return case["subject"]

    def config(self, case):
        return {"grammar": case["grammar"], "cache": case["cache"]}

    def build(self, case):
        return _scenario(case["subject"], case["cache"], None)

    def do(self, sc, op, case):
        sc.execute(**SCENARIOS[case["subject"]][3])
        p = sc.formulation.optimization_problem
        s = p.solution
        return {"x_opt": s.x_opt, "f_opt": s.f_opt, "is_feasible": s.is_feasible, "constraint_values": dict(s.constraint_values or {}), "n_points": len(p.database),
                "database": [[np.asarray(k.unwrap()), dict(d)] for k, d in p.database.items()]}

    def position(self, prev):
        return "fresh" if prev is None else "after-execute"

    def _observe(self, sc, with_state=True, with_duration=True):
        o = self.observe_scenario(sc, with_state)
        o["disciplines"] = {f"{i}:{type(d).__name__}": self.observe_disc(d, None, with_state, with_duration) for i, d in enumerate(sc.disciplines)}
        return o

    def mutate(self, r, case):
        p = r.formulation.optimization_problem
        p.database.clear()
        ds = r.design_space
        name = ds.variable_names[0]
        ds.set_upper_bound(name, np.full(ds.get_size(name), 77.0))
        for v in ds.get_current_value(as_dict=True).values():
            if isinstance(v, np.ndarray) and v.flags.writeable and v.dtype.kind == "f":
                v += 0.125
        for d in r.disciplines:
            for v in d.io.data.values():
                if isinstance(v, np.ndarray) and v.flags.writeable and v.dtype.kind == "f" and v.size:
                    v += 1.25
            for v in d.io.input_grammar.defaults.values():
                if isinstance(v, np.ndarray) and v.flags.writeable and v.dtype.kind == "f" and v.size:
                    v *= 3.0
            if d.cache is not None:
                d.cache.clear()
