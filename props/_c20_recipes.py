"""C20 - constructor recipes for every class of the discipline and MDA factories (helper of props/c20.py).

A recipe is a module-level function ``f(env) -> Discipline``; ``env`` carries the scratch directory.  Leaf
disciplines are created while ``BaseDiscipline.default_grammar_type`` is set by the caller, so the grammar axis
reaches every class that builds its grammars programmatically.  Everything a recipe hands to gemseo (python
functions, datasets) lives at module level, so that *the harness* never is the reason for a pickling failure.
"""
from __future__ import annotations

import numpy as np

# classes that need something the sandbox does not have: listed in the evidence, never silently dropped
NOT_BUILT = {
    "XLSDiscipline": "needs Excel (xlwings + a workbook)",
    "DiscFromExe": "wraps an external executable exchanging files",
    "JobSchedulerDisciplineWrapper": "needs a job scheduler",
    "LSF": "needs the LSF job scheduler (bsub)",
    "SLURM": "needs the SLURM job scheduler (sbatch)",
}


# ---- module-level user callables (picklable by reference) --------------------------------------------
def py_f(x=0.5, z=2.0):
    y = x**2 + 3.0 * z
    w = x * z
    return y, w


def py_f_jac(x=0.5, z=2.0):
    x, z = float(np.asarray(x).ravel()[0]), float(np.asarray(z).ravel()[0])
    return np.array([[2.0 * x, 3.0], [z, x]])


def arr_f(x):
    return np.array([x[0] * x[1], x[1] + x[2] ** 2, 3.0 * x[0]])


def arr_f_jac(x):
    return np.array([[x[1], x[0], 0.0], [0.0, 1.0, 2.0 * x[2]], [3.0, 0.0, 0.0]])


def rhs(time=0.0, position=1.0, velocity=0.5):
    position_dot = velocity
    velocity_dot = -4.0 * position
    return position_dot, velocity_dot


def cstr(x=np.array([1.0, 2.0, 0.5])):
    g = np.array([x[0] ** 2 - x[1], x[1] * x[2] - 1.0, x[0] + x[2]])
    return g


def cstr_jac(x=np.array([1.0, 2.0, 0.5])):
    return np.array([[2 * x[0], -1.0, 0.0], [0.0, x[2], x[1]], [1.0, 0.0, 1.0]])


# ---- leaf recipes ------------------------------------------------------------------------------------
def _factory():
    from gemseo.disciplines.factory import DisciplineFactory

    return DisciplineFactory()


def _analytic(env=None):
    from gemseo.disciplines.analytic import AnalyticDiscipline

    return AnalyticDiscipline({"y": "x**2+3*z", "w": "x*z+sin(z)"}, name="ana")


def _lincomb(env=None, name_in=("a", "b"), out="s"):
    from gemseo.disciplines.linear_combination import LinearCombination

    d = LinearCombination(list(name_in), out, {name_in[0]: 2.0, name_in[1]: -0.5}, offset=1.5, input_size=2)
    return d


def r_AnalyticDiscipline(env):
    return _analytic()


def r_AutoPyDiscipline(env):
    from gemseo.disciplines.auto_py import AutoPyDiscipline

    return AutoPyDiscipline(py_f, py_f_jac)


def r_AutoPyDiscipline_fd(env):
    """Without a Jacobian function: the discipline owns a finite-difference approximator that refers back to it."""
    from gemseo.disciplines.auto_py import AutoPyDiscipline

    return AutoPyDiscipline(py_f)


def r_AnalyticDiscipline_4(env):
    """Expressions with 4 inputs, not symmetric in them (the order in which a restored object feeds its compiled
    expressions matters), with non-zero defaults."""
    from gemseo.disciplines.analytic import AnalyticDiscipline

    d = AnalyticDiscipline({"y": "a - 2*b + 3*c**2 + 5*d*a", "z": "b/(1+c**2) - d", "w": "exp(a/4) - b*c + d**3"}, name="ana4")
    d.default_input_data.update({"a": np.array([1.5]), "b": np.array([-2.0]), "c": np.array([0.75]), "d": np.array([4.0])})
    return d


def r_AnalyticDiscipline_ns(env):
    """With namespaces on an input and an output."""
    d = _analytic()
    d.add_namespace_to_input("x", "ns_in")
    d.add_namespace_to_output("y", "ns_out")
    return d


def r_ArrayBasedFunctionDiscipline(env):
    from gemseo.disciplines.array_based_function import ArrayBasedFunctionDiscipline

    d = ArrayBasedFunctionDiscipline(arr_f, {"x1": 1, "x2": 2}, {"y1": 2, "y2": 1}, arr_f_jac)
    d.default_input_data.update({"x1": np.array([0.5]), "x2": np.array([2.0, -1.0])})
    return d


def r_Concatenater(env):
    from gemseo.disciplines.concatenater import Concatenater

    d = Concatenater(["a", "b"], "c", {"a": 2.0, "b": -1.0})
    d.default_input_data.update({"a": np.array([1.0, 2.0]), "b": np.array([3.0])})
    return d


def r_Splitter(env):
    from gemseo.disciplines.splitter import Splitter

    d = Splitter("c", {"a": [0, 1], "b": 2})
    d.default_input_data.update({"c": np.array([1.0, 2.0, 3.0])})
    return d


def r_LinearCombination(env):
    d = _lincomb()
    d.default_input_data.update({"a": np.array([1.0, 2.0]), "b": np.array([3.0, -1.0])})
    return d


def r_LinearDiscipline(env):
    from gemseo.problems.mdo.scalable.linear.linear_discipline import LinearDiscipline

    return LinearDiscipline("L", ["i1", "i2"], ["o1", "o2"], inputs_size=2, outputs_size=3)


def r_LinearDiscipline_sparse(env):
    from gemseo.problems.mdo.scalable.linear.linear_discipline import LinearDiscipline

    return LinearDiscipline("Ls", ["i1", "i2"], ["o1"], inputs_size=3, outputs_size=2, matrix_format=LinearDiscipline.MatrixFormat.CSR, matrix_density=0.6)


def r_ConstraintAggregation(env):
    from gemseo.disciplines.constraint_aggregation import ConstraintAggregation

    d = ConstraintAggregation(["g"], "lower_bound_KS", rho=5.0)
    d.default_input_data.update({"g": np.array([0.3, -1.0, 0.5])})
    return d


def r_FilteringDiscipline(env):
    from gemseo.disciplines.wrappers.filtering_discipline import FilteringDiscipline

    return FilteringDiscipline(_analytic(), input_names=["x"], output_names=["y"])


def r_RemappingDiscipline(env):
    from gemseo.disciplines.remapping import RemappingDiscipline

    # (wrapped class chosen so that linearize works: RemappingDiscipline hands the *new* names to the wrapped
    # discipline's _compute_jacobian, which most classes reject - unrelated to serialization)
    return RemappingDiscipline(r_ArrayBasedFunctionDiscipline(env), {"X1": "x1", "X2": "x2"}, {"Y1": "y1", "Y2": "y2"})


def r_TaylorDiscipline(env):
    from gemseo.disciplines.taylor import TaylorDiscipline

    return TaylorDiscipline(_analytic(), input_data={"x": np.array([0.7]), "z": np.array([1.2])})


def _dataset():
    from gemseo.datasets.io_dataset import IODataset

    x_1 = np.array([[0, 0, 0, 0.5, 0.5, 0.5, 1, 1, 1]]).T
    x_2 = np.array([[0, 0.5, 1, 0, 0.5, 1, 0, 0.5, 1]]).T
    ds = IODataset(dataset_name="func")
    ds.add_input_variable("x_1", x_1)
    ds.add_input_variable("x_2", x_2)
    ds.add_output_variable("y_1", 1 + 2 * x_1 + 3 * x_2 + x_1 * x_2)
    ds.add_output_variable("y_2", -1 - 2 * x_1 - 3 * x_2**2)
    return ds


def r_SurrogateDiscipline(env):
    from gemseo.disciplines.surrogate import SurrogateDiscipline

    return SurrogateDiscipline("LinearRegressor", _dataset())


def r_SurrogateDiscipline_rbf(env):
    from gemseo.disciplines.surrogate import SurrogateDiscipline

    return SurrogateDiscipline("RBFRegressor", _dataset())


def r_SurrogateDiscipline_poly(env):
    from gemseo.disciplines.surrogate import SurrogateDiscipline

    return SurrogateDiscipline("PolynomialRegressor", _dataset(), degree=2)


def r_OscillatorDiscipline(env):
    from gemseo.problems.ode.oscillator_discipline import OscillatorDiscipline

    return OscillatorDiscipline(omega=2.0, times=np.linspace(0.0, 1.0, 5))


def r_ODEDiscipline(env):
    from gemseo.disciplines.auto_py import AutoPyDiscipline
    from gemseo.disciplines.ode.ode_discipline import ODEDiscipline

    return ODEDiscipline(AutoPyDiscipline(rhs), times=np.linspace(0.0, 1.0, 5))


def r_MaterialModelInterpolation(env):
    from gemseo.problems.topology_optimization.material_model_interpolation_disc import MaterialModelInterpolation

    return MaterialModelInterpolation(e0=1, penalty=3.0, n_x=4, n_y=3, empty_elements=[], full_elements=[])


def r_DensityFilter(env):
    from gemseo.problems.topology_optimization.density_filter_disc import DensityFilter

    return DensityFilter(n_x=4, n_y=3)


def r_VolumeFraction(env):
    from gemseo.problems.topology_optimization.volume_fraction_disc import VolumeFraction

    return VolumeFraction(n_x=4, n_y=3)


def r_FiniteElementAnalysis(env):
    from gemseo.problems.topology_optimization.fea_disc import FiniteElementAnalysis

    return FiniteElementAnalysis(n_x=4, n_y=3, f_node=19, fixed_nodes=[0, 1, 2, 3], fixed_dir=[0, 1, 0, 1])


def _scalable_parts():
    from gemseo.problems.mdo.scalable.parametric.scalable_problem import ScalableProblem

    return ScalableProblem()


def r_MainDiscipline(env):
    return _scalable_parts().main_discipline


def r_ScalableDiscipline(env):
    return _scalable_parts().scalable_disciplines[0]


def _sellar():
    from gemseo.problems.mdo.sellar.sellar_1 import Sellar1
    from gemseo.problems.mdo.sellar.sellar_2 import Sellar2
    from gemseo.problems.mdo.sellar.sellar_system import SellarSystem

    return [Sellar1(), Sellar2(), SellarSystem()]


# ---- chains ------------------------------------------------------------------------------------------
def r_MDOChain(env):
    from gemseo.core.chains.chain import MDOChain

    return MDOChain([_analytic(), _lincomb(name_in=("y", "w"), out="s")], name="chain")


def r_MDOParallelChain(env):
    from gemseo.core.chains.parallel_chain import MDOParallelChain

    from gemseo.disciplines.analytic import AnalyticDiscipline

    return MDOParallelChain([_analytic(), AnalyticDiscipline({"s": "2*x-z**2"}, name="ana2")], name="pchain", n_processes=2)


def r_MDOAdditiveChain(env):
    from gemseo.core.chains.additive_chain import MDOAdditiveChain
    from gemseo.disciplines.analytic import AnalyticDiscipline

    return MDOAdditiveChain([_analytic(), AnalyticDiscipline({"y": "x-z**2"}, name="ana2")], ["y"], name="achain", n_processes=2)


def r_MDOWarmStartedChain(env):
    from gemseo.core.chains.warm_started_chain import MDOWarmStartedChain

    s1, s2, _ = _sellar()
    return MDOWarmStartedChain([s1, s2], variable_names_to_warm_start=["y_2"], name="wchain")


def r_MDOInitializationChain(env):
    from gemseo.core.chains.initialization_chain import MDOInitializationChain
    from gemseo.disciplines.analytic import AnalyticDiscipline

    a = AnalyticDiscipline({"b": "2*a+1"}, name="A")
    b = AnalyticDiscipline({"c": "b**2"}, name="B")
    for d in (a, b):
        d.default_input_data.clear()
    a.default_input_data["a"] = np.array([0.5])
    return MDOInitializationChain([b, a], available_data_names=["a"])


# ---- MDAs on Sellar ----------------------------------------------------------------------------------
MDA_TOL = 1e-12


def _mda(cls_name, strongly_coupled_only=False, **kw):
    from gemseo.mda.factory import MDAFactory

    kw.setdefault("tolerance", MDA_TOL)
    kw.setdefault("max_mda_iter", 60)
    return MDAFactory().create(cls_name, _sellar()[:2] if strongly_coupled_only else _sellar(), **kw)


def r_MDAJacobi(env):
    return _mda("MDAJacobi", n_processes=2)  # (the disciplines are executed by a thread pool, as by default)


def r_MDAGaussSeidel(env):
    return _mda("MDAGaussSeidel")


def r_MDAGaussSeidel_ws(env):
    """Warm-started from the last accessed cache entry (the number of iterations depends on the carried-over state)."""
    return _mda("MDAGaussSeidel", warm_start=True)


def r_MDAJacobi_ws(env):
    return _mda("MDAJacobi", n_processes=1, warm_start=True)


def r_MDANewtonRaphson(env):
    return _mda("MDANewtonRaphson", True)  # (Newton MDAs refuse weakly coupled disciplines)


def r_MDAQuasiNewton(env):
    return _mda("MDAQuasiNewton")


def r_MDAGSNewton(env):
    return _mda("MDAGSNewton", True)


def r_MDAChain(env):
    return _mda("MDAChain")


def r_MDASequential(env):
    from gemseo.mda.gauss_seidel import MDAGaussSeidel
    from gemseo.mda.newton_raphson import MDANewtonRaphson
    from gemseo.mda.sequential_mda import MDASequential

    discs = _sellar()[:2]
    return MDASequential(discs, [MDAGaussSeidel(discs, max_mda_iter=2), MDANewtonRaphson(discs, tolerance=MDA_TOL)], tolerance=MDA_TOL, max_mda_iter=60)


# ---- scenario adapters -------------------------------------------------------------------------------
def _sub_scenario():
    from gemseo.algos.design_space import DesignSpace
    from gemseo.disciplines.analytic import AnalyticDiscipline
    from gemseo.scenarios.mdo_scenario import MDOScenario

    d = AnalyticDiscipline({"f": "(x-p)**2+p*x+1", "g": "p-x"}, name="inner")
    ds = DesignSpace()
    ds.add_variable("x", 1, lower_bound=-2.0, upper_bound=3.0, value=0.25)
    sc = MDOScenario([d], "f", ds, formulation_name="DisciplinaryOpt", name="sub")
    sc.set_algorithm(algo_name="SLSQP", max_iter=30)
    return sc


def r_MDOScenarioAdapter(env):
    from gemseo.disciplines.scenario_adapters.mdo_scenario_adapter import MDOScenarioAdapter

    return MDOScenarioAdapter(_sub_scenario(), ["p"], ["f", "x"], reset_x0_before_opt=True)


def r_MDOObjectiveScenarioAdapter(env):
    from gemseo.disciplines.scenario_adapters.mdo_objective_scenario_adapter import MDOObjectiveScenarioAdapter

    return MDOObjectiveScenarioAdapter(_sub_scenario(), ["p"], ["f"], reset_x0_before_opt=True)


# name -> (recipe, flags).  flags: "iter" = an iterative process is involved (oracle: within its tolerance),
# "nolin_all" = linearize on declared inputs/outputs only (an MDA cannot differentiate its couplings as inputs),
# "diff": (inputs, outputs) to declare.
EXTRA = {
    "AnalyticDiscipline": r_AnalyticDiscipline,
    "AnalyticDiscipline/namespaces": r_AnalyticDiscipline_ns,
    "AnalyticDiscipline/4inputs": r_AnalyticDiscipline_4,
    "AutoPyDiscipline": r_AutoPyDiscipline,
    "AutoPyDiscipline/fd": r_AutoPyDiscipline_fd,
    "ArrayBasedFunctionDiscipline": r_ArrayBasedFunctionDiscipline,
    "Concatenater": r_Concatenater,
    "Splitter": r_Splitter,
    "LinearCombination": r_LinearCombination,
    "LinearDiscipline": r_LinearDiscipline,
    "LinearDiscipline/csr": r_LinearDiscipline_sparse,
    "ConstraintAggregation": r_ConstraintAggregation,
    "FilteringDiscipline": r_FilteringDiscipline,
    "RemappingDiscipline": r_RemappingDiscipline,
    "TaylorDiscipline": r_TaylorDiscipline,
    "SurrogateDiscipline": r_SurrogateDiscipline,
    "SurrogateDiscipline/rbf": r_SurrogateDiscipline_rbf,
    "SurrogateDiscipline/poly": r_SurrogateDiscipline_poly,
    "OscillatorDiscipline": r_OscillatorDiscipline,
    "ODEDiscipline": r_ODEDiscipline,
    "MaterialModelInterpolation": r_MaterialModelInterpolation,
    "DensityFilter": r_DensityFilter,
    "VolumeFraction": r_VolumeFraction,
    "FiniteElementAnalysis": r_FiniteElementAnalysis,
    "MainDiscipline": r_MainDiscipline,
    "ScalableDiscipline": r_ScalableDiscipline,
    "MDOChain": r_MDOChain,
    "MDOParallelChain": r_MDOParallelChain,
    "MDOAdditiveChain": r_MDOAdditiveChain,
    "MDOWarmStartedChain": r_MDOWarmStartedChain,
    "MDOInitializationChain": r_MDOInitializationChain,
    "MDOScenarioAdapter": r_MDOScenarioAdapter,
    "MDOObjectiveScenarioAdapter": r_MDOObjectiveScenarioAdapter,
    "MDAJacobi": r_MDAJacobi,
    "MDAGaussSeidel": r_MDAGaussSeidel,
    "MDAGaussSeidel/warm_start": r_MDAGaussSeidel_ws,
    "MDAJacobi/warm_start": r_MDAJacobi_ws,
    "MDANewtonRaphson": r_MDANewtonRaphson,
    "MDAQuasiNewton": r_MDAQuasiNewton,
    "MDAGSNewton": r_MDAGSNewton,
    "MDAChain": r_MDAChain,
    "MDASequential": r_MDASequential,
}

# an iterative process is involved: outputs are compared within the tolerance of that process (see c20.py)
ITERATIVE = {
    "MDAJacobi", "MDAGaussSeidel", "MDANewtonRaphson", "MDAQuasiNewton", "MDAGSNewton", "MDAChain", "MDASequential",
    "SobieskiMDAGaussSeidel", "SobieskiMDAJacobi", "MDOScenarioAdapter", "MDOObjectiveScenarioAdapter",
    "OscillatorDiscipline", "ODEDiscipline",
}


# ---- one-at-a-time deviations of the constructor settings -----------------------------------------------
# A setting kept as an attribute may act through a member that is not serialized but re-created at restore; the
# default value hides a re-creation that forgets it.  "Class@param=value" is a subject built with that one deviation.
def _alt(value):
    """A small alternative to a default value (None: no alternative is derived automatically)."""
    import enum

    if isinstance(value, bool):
        return not value
    if isinstance(value, enum.Enum):
        members = list(type(value))
        return members[(members.index(value) + 1) % len(members)] if len(members) > 1 else None
    if isinstance(value, int):
        return value + 1
    if isinstance(value, float):
        return value * 1.5 + 0.25
    return None


_SKIP_PARAMS = ("delay", "name", "log", "n_processes", "use_threading")


def auto_deviations(class_name):
    """(label, kwargs) for every constructor parameter of a class built without arguments that has a derivable alternative."""
    import enum
    import inspect

    cls = _factory().get_class(class_name)
    out = []
    try:
        params = inspect.signature(cls.__init__).parameters
    except (TypeError, ValueError):
        return out
    for pname, prm in params.items():
        if pname == "self" or prm.default is inspect.Parameter.empty or prm.kind in (prm.VAR_KEYWORD, prm.VAR_POSITIONAL) or any(k in pname for k in _SKIP_PARAMS):
            continue
        alt = _alt(prm.default)
        if alt is None:
            continue
        shown = alt.value if isinstance(alt, enum.Enum) else alt
        out.append((f"{class_name}@{pname}={shown}", {pname: alt}))
    return out


def _mk(f, *a, **kw):
    return lambda env: f(*a, **kw)


def _fea(**kw):
    from gemseo.problems.topology_optimization.fea_disc import FiniteElementAnalysis

    return FiniteElementAnalysis(**{**dict(n_x=4, n_y=3, f_node=19, fixed_nodes=[0, 1, 2, 3], fixed_dir=[0, 1, 0, 1]), **kw})


def _mmi(**kw):
    from gemseo.problems.topology_optimization.material_model_interpolation_disc import MaterialModelInterpolation

    return MaterialModelInterpolation(**{**dict(e0=1, penalty=3.0, n_x=4, n_y=3, empty_elements=[], full_elements=[]), **kw})


def _adapter(cls_name, **kw):
    import importlib

    mod = {"MDOScenarioAdapter": "mdo_scenario_adapter", "MDOObjectiveScenarioAdapter": "mdo_objective_scenario_adapter"}[cls_name]
    cls = getattr(importlib.import_module(f"gemseo.disciplines.scenario_adapters.{mod}"), cls_name)
    return cls(_sub_scenario(), ["p"], ["f", "x"] if cls_name == "MDOScenarioAdapter" else ["f"], **{"reset_x0_before_opt": True, **kw})


def _dev_misc(which):
    if which == "LinearDiscipline@matrix_free_jacobian=True":
        from gemseo.problems.mdo.scalable.linear.linear_discipline import LinearDiscipline

        return LinearDiscipline("Lf", ["i1", "i2"], ["o1", "o2"], inputs_size=2, outputs_size=3, matrix_free_jacobian=True)
    if which == "AutoPyDiscipline@use_arrays=True":
        from gemseo.disciplines.auto_py import AutoPyDiscipline

        return AutoPyDiscipline(cstr, cstr_jac, use_arrays=True)
    if which.startswith("FilteringDiscipline@"):
        from gemseo.disciplines.wrappers.filtering_discipline import FilteringDiscipline

        return FilteringDiscipline(_analytic(), input_names=["x"], output_names=["y"], keep_in="keep_in" not in which, keep_out="keep_out" not in which)
    if which.startswith("ConstraintAggregation@"):
        from gemseo.disciplines.constraint_aggregation import ConstraintAggregation

        fn = which.split("=")[1]
        d = ConstraintAggregation(["g"], fn, **({"rho": 5.0} if "KS" in fn else {}))
        d.default_input_data.update({"g": np.array([0.3, -1.0, 0.5])})
        return d
    if which == "SurrogateDiscipline@transformer={}":
        from gemseo.disciplines.surrogate import SurrogateDiscipline

        return SurrogateDiscipline("LinearRegressor", _dataset(), transformer={})
    if which == "DensityFilter@min_member_size=2.5":
        from gemseo.problems.topology_optimization.density_filter_disc import DensityFilter

        return DensityFilter(n_x=4, n_y=3, min_member_size=2.5)
    if which == "VolumeFraction@empty_elements=[0]":
        from gemseo.problems.topology_optimization.volume_fraction_disc import VolumeFraction

        return VolumeFraction(n_x=4, n_y=3, empty_elements=[0], full_elements=[5])
    if which.startswith("OscillatorDiscipline@"):
        from gemseo.problems.ode.oscillator_discipline import OscillatorDiscipline

        return OscillatorDiscipline(omega=2.0, times=np.linspace(0.0, 1.0, 5), return_trajectories=True)
    if which.startswith("ODEDiscipline@"):
        from gemseo.disciplines.auto_py import AutoPyDiscipline
        from gemseo.disciplines.ode.ode_discipline import ODEDiscipline

        return ODEDiscipline(AutoPyDiscipline(rhs), times=np.linspace(0.0, 1.0, 5), ode_solver_name="RK23")
    if which == "MDOParallelChain@use_deep_copy=True":
        from gemseo.core.chains.parallel_chain import MDOParallelChain
        from gemseo.disciplines.analytic import AnalyticDiscipline

        return MDOParallelChain([_analytic(), AnalyticDiscipline({"s": "2*x-z**2"}, name="ana2")], name="pchain", n_processes=2, use_deep_copy=True)
    if which == "RemappingDiscipline@components":
        from gemseo.disciplines.remapping import RemappingDiscipline

        return RemappingDiscipline(r_ArrayBasedFunctionDiscipline(None), {"X1": "x1", "X2a": ("x2", 0), "X2b": ("x2", 1)}, {"Y1a": ("y1", 0), "Y1b": ("y1", 1), "Y2": "y2"})
    raise KeyError(which)


MANUAL_DEVIATIONS = {
    "MDAGaussSeidel@over_relaxation_factor=0.9": _mk(_mda, "MDAGaussSeidel", over_relaxation_factor=0.9),
    "MDAGaussSeidel@acceleration_method=Secant": _mk(_mda, "MDAGaussSeidel", acceleration_method="Secant"),
    "MDAGaussSeidel@use_lu_fact=True": _mk(_mda, "MDAGaussSeidel", use_lu_fact=True),
    "MDAGaussSeidel@linear_solver=LGMRES": _mk(_mda, "MDAGaussSeidel", linear_solver="LGMRES"),
    "MDAJacobi@acceleration_method=NoTransformation": _mk(_mda, "MDAJacobi", n_processes=1, acceleration_method="NoTransformation"),
    "MDANewtonRaphson@over_relaxation_factor=0.95": _mk(_mda, "MDANewtonRaphson", True, over_relaxation_factor=0.95),
    "MDAChain@inner_mda_name=MDAGaussSeidel": _mk(_mda, "MDAChain", inner_mda_name="MDAGaussSeidel"),
    "MDOScenarioAdapter@set_x0_before_opt=True": _mk(_adapter, "MDOScenarioAdapter", reset_x0_before_opt=False, set_x0_before_opt=True),
    "MDOScenarioAdapter@output_multipliers=True": _mk(_adapter, "MDOScenarioAdapter", output_multipliers=True),
    "MDOScenarioAdapter@keep_opt_history=True": _mk(_adapter, "MDOScenarioAdapter", keep_opt_history=True),
    "MDOObjectiveScenarioAdapter@set_bounds_before_opt=True": _mk(_adapter, "MDOObjectiveScenarioAdapter", set_bounds_before_opt=True),
    "FiniteElementAnalysis@nu=0.4": _mk(_fea, nu=0.4),
    "MaterialModelInterpolation@penalty=2.0": _mk(_mmi, penalty=2.0),
    "MaterialModelInterpolation@contrast=1000.0": _mk(_mmi, contrast=1e3),
}
for _w in ("LinearDiscipline@matrix_free_jacobian=True", "AutoPyDiscipline@use_arrays=True", "FilteringDiscipline@keep_in=False", "FilteringDiscipline@keep_out=False",
           "ConstraintAggregation@aggregation_function=upper_bound_KS", "ConstraintAggregation@aggregation_function=IKS", "ConstraintAggregation@aggregation_function=POS_SUM",
           "SurrogateDiscipline@transformer={}", "DensityFilter@min_member_size=2.5", "VolumeFraction@empty_elements=[0]", "OscillatorDiscipline@return_trajectories=True",
           "ODEDiscipline@ode_solver_name=RK23", "MDOParallelChain@use_deep_copy=True", "RemappingDiscipline@components"):
    MANUAL_DEVIATIONS[_w] = _mk(_dev_misc, _w)


def deviation_names():
    """Every "Class@param=value" subject: automatic ones for the classes built without arguments + the manual table."""
    out = []
    for c in sorted(_factory().class_names):
        if c in NOT_BUILT or any(k == c or k.startswith(c + "/") for k in EXTRA):
            continue
        out += [label for label, _ in auto_deviations(c)]
    return out + list(MANUAL_DEVIATIONS)


def subject_names():
    """Every class of the two factories -> list of subject names (a class may have several recipes)."""
    from gemseo.mda.factory import MDAFactory

    names, not_built = [], dict(NOT_BUILT)
    classes = sorted(set(_factory().class_names) | set(MDAFactory().class_names))
    for c in classes:
        if c in NOT_BUILT:
            continue
        variants = [k for k in EXTRA if k == c or k.startswith(c + "/")]
        names += variants or [c]
    return classes, names, not_built


def build(name, env=None):
    """Build the subject ``name`` under the current default grammar type (deterministically: some constructors draw
    their coefficients from numpy's global generator)."""
    np.random.seed(20)
    if name in EXTRA:
        return EXTRA[name](env)
    if name in MANUAL_DEVIATIONS:
        return MANUAL_DEVIATIONS[name](env)
    if "@" in name:
        cls = name.split("@")[0]
        return _factory().create(cls, **dict(auto_deviations(cls))[name])
    return _factory().create(name)
