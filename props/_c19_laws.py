"""C19 helper: reference laws (closed forms) and the parameter alphabets.

Nothing here imports gemseo, scipy.stats or openturns: the reference of a law is written with ``math`` and
``scipy.special`` (erf-type, incomplete beta and gamma functions only), so it shares no parameter mapping with
the wrappers under test.

A *law spec* is a JSON list ``[kind, params, *modifiers]``:
    kind/params      uniform {a,b} | normal {mu,sigma} | triangular {a,c,b} (c = mode) | exponential {rate,loc} |
                     beta {alpha,beta,a,b} | weibull {loc,scale,shape,min} | lognormal {m,s,loc} (m, s = mean and
                     standard deviation of log(X - loc)) | gumbel {loc,scale} | logistic {loc,scale} | dirac {v}
    modifiers        ["affine", k, a]  : Y = k X + a (k != 0)
                     ["trunc", lo, hi] : X | lo <= X <= hi   (None = no truncation on that side)
"""
from __future__ import annotations

import math

import numpy as np
from scipy import special as sc

INF = math.inf
EULER = 0.57721566490153286061


class Law:
    """Reference of a continuous (or Dirac) law on the real line."""

    discrete = False
    moments_err = 0.0  # absolute error estimate of the tabulated moments (0 = closed form)
    std_cond = 1.0  # condition number of the closed form of the standard deviation (cancellation)
    unbounded_pdf = False  # the density has an integrable singularity

    @property
    def mean_mag(self):
        """Sum of the magnitudes of the terms the mean is made of (scale of its rounding error)."""
        return abs(self.mean) + self.std

    def cdf(self, x):
        raise NotImplementedError

    def quantile(self, p):
        raise NotImplementedError


class Uniform(Law):
    def __init__(self, a, b):
        self.a, self.b = a, b
        self.mean, self.std = (a + b) / 2, (b - a) / math.sqrt(12)
        self.support = (a, b)

    def cdf(self, x):
        return min(1.0, max(0.0, (x - self.a) / (self.b - self.a)))

    def quantile(self, p):
        return self.a + p * (self.b - self.a)


class Normal(Law):
    def __init__(self, mu, sigma):
        self.mu, self.sigma = mu, sigma
        self.mean, self.std = mu, sigma
        self.support = (-INF, INF)

    def cdf(self, x):
        return float(sc.ndtr((x - self.mu) / self.sigma))

    def quantile(self, p):
        return self.mu + self.sigma * float(sc.ndtri(p))


class Triangular(Law):
    def __init__(self, a, c, b):
        self.a, self.c, self.b = a, c, b
        self.mean = (a + b + c) / 3
        self.std = math.sqrt((a * a + b * b + c * c - a * b - a * c - b * c) / 18)
        self.support = (a, b)

    def cdf(self, x):
        a, c, b = self.a, self.c, self.b
        if x <= a:
            return 0.0
        if x >= b:
            return 1.0
        if x <= c:
            return (x - a) ** 2 / ((b - a) * (c - a))
        return 1 - (b - x) ** 2 / ((b - a) * (b - c))

    def quantile(self, p):
        a, c, b = self.a, self.c, self.b
        if p <= (c - a) / (b - a):
            return a + math.sqrt(p * (b - a) * (c - a))
        return b - math.sqrt((1 - p) * (b - a) * (b - c))


class Exponential(Law):
    def __init__(self, rate, loc):
        self.rate, self.loc = rate, loc
        self.mean, self.std = loc + 1 / rate, 1 / rate
        self.support = (loc, INF)

    def cdf(self, x):
        return -math.expm1(-self.rate * (x - self.loc)) if x > self.loc else 0.0

    def quantile(self, p):
        return self.loc - math.log1p(-p) / self.rate


class Beta(Law):
    def __init__(self, alpha, beta, a, b):
        self.al, self.be, self.a, self.b = alpha, beta, a, b
        s = alpha + beta
        self.mean = a + (b - a) * alpha / s
        self.std = (b - a) * math.sqrt(alpha * beta / (s * s * (s + 1)))
        self.support = (a, b)
        self.unbounded_pdf = alpha < 1 or beta < 1

    def cdf(self, x):
        z = min(1.0, max(0.0, (x - self.a) / (self.b - self.a)))
        return float(sc.betainc(self.al, self.be, z))

    def quantile(self, p):
        return self.a + (self.b - self.a) * float(sc.betaincinv(self.al, self.be, p))


class Weibull(Law):
    """min=True: loc + scale W, W ~ Weibull(shape); min=False: loc - scale W."""

    def __init__(self, loc, scale, shape, min=True):  # noqa: A002
        self.loc, self.scale, self.k, self.min = loc, scale, shape, bool(min)
        g1, g2 = math.gamma(1 + 1 / shape), math.gamma(1 + 2 / shape)
        sgn = 1 if self.min else -1
        self.mean = loc + sgn * scale * g1
        self.std = scale * math.sqrt(g2 - g1 * g1)
        self.std_cond = g2 / (g2 - g1 * g1)
        self._mean_mag = abs(loc) + scale * g1
        self.unbounded_pdf = shape < 1
        self.support = (loc, INF) if self.min else (-INF, loc)

    @property
    def mean_mag(self):
        return self._mean_mag + self.std

    def cdf(self, x):
        if self.min:
            z = (x - self.loc) / self.scale
            return -math.expm1(-(z**self.k)) if z > 0 else 0.0
        z = (self.loc - x) / self.scale
        return math.exp(-(z**self.k)) if z > 0 else 1.0

    def quantile(self, p):
        if self.min:
            return self.loc + self.scale * (-math.log1p(-p)) ** (1 / self.k)
        return self.loc - self.scale * (-math.log(p)) ** (1 / self.k)


class LogNormal(Law):
    def __init__(self, m, s, loc):
        self.m, self.s, self.loc = m, s, loc
        self.mean = loc + math.exp(m + s * s / 2)
        self.std = math.sqrt(math.expm1(s * s)) * math.exp(m + s * s / 2)
        self.support = (loc, INF)

    @property
    def mean_mag(self):
        return abs(self.loc) + math.exp(self.m + self.s * self.s / 2) + self.std

    def cdf(self, x):
        if x <= self.loc:
            return 0.0
        return float(sc.ndtr((math.log(x - self.loc) - self.m) / self.s))

    def quantile(self, p):
        return self.loc + math.exp(self.m + self.s * float(sc.ndtri(p)))


class Gumbel(Law):
    def __init__(self, loc, scale):
        self.loc, self.scale = loc, scale
        self.mean, self.std = loc + EULER * scale, math.pi * scale / math.sqrt(6)
        self.support = (-INF, INF)

    def cdf(self, x):
        return math.exp(-math.exp(-(x - self.loc) / self.scale))

    def quantile(self, p):
        return self.loc - self.scale * math.log(-math.log(p))


class Logistic(Law):
    def __init__(self, loc, scale):
        self.loc, self.scale = loc, scale
        self.mean, self.std = loc, scale * math.pi / math.sqrt(3)
        self.support = (-INF, INF)

    def cdf(self, x):
        return float(sc.expit((x - self.loc) / self.scale))

    def quantile(self, p):
        return self.loc + self.scale * float(sc.logit(p))


class Dirac(Law):
    discrete = True

    def __init__(self, v):
        self.v = v
        self.mean, self.std = v, 0.0
        self.support = (v, v)

    def cdf(self, x):
        return 1.0 if x >= self.v else 0.0

    def quantile(self, p):
        return self.v


class Affine(Law):
    def __init__(self, base, k, a):
        self.base, self.k, self.a0 = base, k, a
        self.discrete = base.discrete
        self.mean, self.std = k * base.mean + a, abs(k) * base.std
        self.moments_err = abs(k) * base.moments_err
        lo, hi = (k * base.support[0] + a, k * base.support[1] + a)
        self.support = (lo, hi) if k > 0 else (hi, lo)

    def cdf(self, x):
        z = (x - self.a0) / self.k
        return self.base.cdf(z) if self.k > 0 else 1 - self.base.cdf(z)

    def quantile(self, p):
        return self.a0 + self.k * (self.base.quantile(p) if self.k > 0 else self.base.quantile(1 - p))


class Trunc(Law):
    """X | lo <= X <= hi.  Moments: closed forms for normal / uniform / exponential bases, otherwise the
    integrals of Q_t(p) and Q_t(p)^2 over (0, 1) by adaptive quadrature with its own error estimate."""

    def __init__(self, base, lo, hi):
        self.base = base
        slo, shi = base.support
        self.lo = slo if lo is None else max(lo, slo)
        self.hi = shi if hi is None else min(hi, shi)
        self.flo = base.cdf(self.lo) if self.lo > -INF else 0.0
        self.fhi = base.cdf(self.hi) if self.hi < INF else 1.0
        self.z = self.fhi - self.flo
        self.support = (self.lo, self.hi)
        self._moments()

    def cdf(self, x):
        if x <= self.lo:
            return 0.0
        if x >= self.hi:
            return 1.0
        return (self.base.cdf(x) - self.flo) / self.z

    def quantile(self, p):
        q = min(max(self.flo + p * self.z, 1e-300), 1 - 2.0**-53)  # never ask the base for Q(0) or Q(1)
        return min(self.hi, max(self.lo, self.base.quantile(q)))

    def _moments(self):
        b = self.base
        if isinstance(b, Normal):
            al = (self.lo - b.mu) / b.sigma if self.lo > -INF else -INF
            be = (self.hi - b.mu) / b.sigma if self.hi < INF else INF
            phi = lambda t: math.exp(-t * t / 2) / math.sqrt(2 * math.pi) if abs(t) < INF else 0.0  # noqa: E731
            tphi = lambda t: t * phi(t) if abs(t) < INF else 0.0  # noqa: E731
            r = (phi(al) - phi(be)) / self.z
            self.mean = b.mu + b.sigma * r
            self.std = b.sigma * math.sqrt(1 + (tphi(al) - tphi(be)) / self.z - r * r)
            return
        if isinstance(b, Uniform):
            u = Uniform(self.lo, self.hi)
            self.mean, self.std = u.mean, u.std
            return
        if isinstance(b, Exponential) and self.hi == INF:
            e = Exponential(b.rate, self.lo)
            self.mean, self.std = e.mean, e.std
            return
        from scipy.integrate import quad

        # substitution p = sin^2(t) removes the end-point singularities of Q at p = 0, 1
        qt = lambda t: self.quantile(min(max(math.sin(t) ** 2, 1e-300), 1 - 2.0**-53))  # noqa: E731
        f1 = lambda t: qt(t) * math.sin(2 * t)  # noqa: E731
        m1, e1 = quad(f1, 0, math.pi / 2, epsabs=1e-14, epsrel=1e-14, limit=400)
        f2 = lambda t: (qt(t) - m1) ** 2 * math.sin(2 * t)  # noqa: E731
        v, e2 = quad(f2, 0, math.pi / 2, epsabs=1e-14, epsrel=1e-14, limit=400)
        self.mean, self.std = m1, math.sqrt(v)
        self.moments_err = 10 * (e1 + e2 / (2 * self.std))


KINDS = {
    "uniform": Uniform,
    "normal": Normal,
    "triangular": Triangular,
    "exponential": Exponential,
    "beta": Beta,
    "weibull": Weibull,
    "lognormal": LogNormal,
    "gumbel": Gumbel,
    "logistic": Logistic,
    "dirac": Dirac,
}


def make_law(spec) -> Law:
    kind, params, *mods = spec
    law = KINDS[kind](**params)
    for m in mods:
        if m[0] == "affine":
            law = Affine(law, m[1], m[2])
        elif m[0] == "trunc":
            law = Trunc(law, m[1], m[2])
        else:
            raise ValueError(m)
    return law


def lognormal_from_moments(mu, sigma, loc):
    """(m, s) of log(X - loc) such that E X = mu and sd X = sigma (harness' own formulas)."""
    d = mu - loc
    s2 = math.log1p((sigma / d) ** 2)
    return math.log(d) - s2 / 2, math.sqrt(s2)


# ------------------------------------------------------------------------------------------------------------
# alphabets.  VERIF_SEED rotates an affine image x -> A + K x of every law (K a power of two, A dyadic, so the
# images of the parameters are exact); the structure (families, number of vectors, which are shifted /
# truncated / degenerate shapes) never changes.
# ------------------------------------------------------------------------------------------------------------
IMAGES = [(0.0, 1.0), (1.5, 2.0), (-3.0, 0.5)]

# family -> list of base parameter vectors (first = the wrapper's defaults, then shifted / scaled / edge shapes)
BASE = {
    "uniform": [dict(a=0.0, b=1.0), dict(a=-1.0, b=2.0), dict(a=0.0, b=2.0**-10), dict(a=10.0, b=10.5)],
    "normal": [dict(mu=0.0, sigma=1.0), dict(mu=1.0, sigma=2.0), dict(mu=-3.0, sigma=0.125), dict(mu=100.0, sigma=0.5)],
    "triangular": [dict(a=0.0, c=0.5, b=1.0), dict(a=-1.0, c=0.5, b=2.0), dict(a=0.0, c=0.0, b=1.0), dict(a=1.0, c=3.0, b=3.0)],
    "exponential": [dict(rate=1.0, loc=0.0), dict(rate=2.0, loc=1.0), dict(rate=0.5, loc=-2.0), dict(rate=8.0, loc=0.25)],
    "beta": [dict(alpha=2.0, beta=2.0, a=0.0, b=1.0), dict(alpha=2.0, beta=3.0, a=-1.0, b=2.0), dict(alpha=0.5, beta=0.5, a=0.0, b=1.0), dict(alpha=5.0, beta=1.0, a=1.0, b=3.0)],
    "weibull": [dict(loc=0.0, scale=1.0, shape=1.0, min=True), dict(loc=1.0, scale=2.0, shape=1.5, min=True), dict(loc=-1.0, scale=0.5, shape=3.0, min=True), dict(loc=1.0, scale=2.0, shape=1.5, min=False)],
    # lognormal vectors are given the way the wrapper takes them: (mu, sigma, location, set_log)
    "lognormal": [dict(mu=1.0, sigma=1.0, location=0.0, set_log=False), dict(mu=1.5, sigma=0.5, location=0.5, set_log=False), dict(mu=0.5, sigma=0.25, location=0.0, set_log=True), dict(mu=1.0, sigma=1.0, location=-1.0, set_log=True)],
    "gumbel": [dict(loc=0.0, scale=1.0), dict(loc=-1.0, scale=2.0), dict(loc=3.0, scale=0.25)],
    "logistic": [dict(loc=0.0, scale=1.0), dict(loc=-1.0, scale=2.0), dict(loc=3.0, scale=0.25)],
    "dirac": [dict(v=0.0), dict(v=1.5), dict(v=-2.0)],
}


def image(kind, p, A, K):
    """Parameters of A + K X (K > 0) for X ~ kind(p), in the same parametrization."""
    q = dict(p)
    if kind in ("uniform", "beta"):
        q["a"], q["b"] = A + K * p["a"], A + K * p["b"]
    elif kind == "normal":
        q["mu"], q["sigma"] = A + K * p["mu"], K * p["sigma"]
    elif kind == "triangular":
        q["a"], q["c"], q["b"] = A + K * p["a"], A + K * p["c"], A + K * p["b"]
    elif kind == "exponential":
        q["rate"], q["loc"] = p["rate"] / K, A + K * p["loc"]
    elif kind in ("weibull", "gumbel", "logistic"):
        q["loc"], q["scale"] = A + K * p["loc"], K * p["scale"]
    elif kind == "lognormal":
        q["location"] = A + K * p["location"]
        if p["set_log"]:
            q["mu"] = p["mu"] + math.log(K)
        else:
            q["mu"], q["sigma"] = A + K * p["mu"], K * p["sigma"]
    elif kind == "dirac":
        q["v"] = A + K * p["v"]
    else:
        raise ValueError(kind)
    return q


def lognormal_spec(p):
    if p["set_log"]:
        m, s = p["mu"], p["sigma"]
    else:
        m, s = lognormal_from_moments(p["mu"], p["sigma"], p["location"])
    return ["lognormal", dict(m=m, s=s, loc=p["location"])]


def spec_of(kind, p):
    return lognormal_spec(p) if kind == "lognormal" else [kind, dict(p)]


def grid_points(law, probs):
    return [law.quantile(p) for p in probs]


def dq_dp(law, p, h=1e-4):
    """|dQ/dp| of the reference by a centered difference (only used to scale a rounding budget)."""
    lo, hi = max(p - h, 1e-9), min(p + h, 1 - 1e-9)
    return abs(law.quantile(hi) - law.quantile(lo)) / (hi - lo)


def as_array(v):
    return np.atleast_1d(np.asarray(v, dtype=float))


# ------------------------------------------------------------------------------------------------------------
# the "falsy but valid" alphabet: never imaged by VERIF_SEED, because the point is that the values are exactly
# 0 / 0.0 / 1 / "" / the identity.  Every entry: (name, family, wrapper keyword arguments as the user writes
# them - an omitted keyword means "left to the wrapper's default" -, law spec of the harness, libraries).
# ------------------------------------------------------------------------------------------------------------
_N01 = ["normal", dict(mu=0.0, sigma=1.0)]
_N12 = ["normal", dict(mu=1.0, sigma=2.0)]
_U = ["uniform", dict(a=-1.0, b=2.0)]
_T = ["triangular", dict(a=-1.0, c=0.5, b=2.0)]
_B = ["beta", dict(alpha=2.0, beta=3.0, a=-1.0, b=2.0)]
_E = ["exponential", dict(rate=0.5, loc=-2.0)]
_W = ["weibull", dict(loc=-1.0, scale=2.0, shape=1.5, min=True)]
_LN = ["lognormal", dict(m=1.0, s=1.0, loc=-1.0)]
_kwU = dict(minimum=-1.0, maximum=2.0)
_kwT = dict(minimum=-1.0, mode=0.5, maximum=2.0)
_kwB = dict(alpha=2.0, beta=3.0, minimum=-1.0, maximum=2.0)
_kwE = dict(rate=0.5, loc=-2.0)
_kwW = dict(location=-1.0, scale=2.0, shape=1.5)
_kwLN = dict(mu=1.0, sigma=1.0, location=-1.0, set_log=True)

ZERO_PLAIN = [
    # no argument at all: the documented defaults of the wrappers
    ("uniform-default", "uniform", {}, ["uniform", dict(a=0.0, b=1.0)], "SPOT"),
    ("normal-default", "normal", {}, _N01, "SPOT"),
    ("triangular-default", "triangular", {}, ["triangular", dict(a=0.0, c=0.5, b=1.0)], "SPOT"),
    ("exponential-default", "exponential", {}, ["exponential", dict(rate=1.0, loc=0.0)], "SPOT"),
    ("beta-default", "beta", {}, ["beta", dict(alpha=2.0, beta=2.0, a=0.0, b=1.0)], "SPOT"),
    ("weibull-default", "weibull", {}, ["weibull", dict(loc=0.0, scale=1.0, shape=1.0, min=True)], "SPOT"),
    ("lognormal-default", "lognormal", {}, ["lognormal-moments", dict(mu=1.0, sigma=1.0, location=0.0)], "SPOT"),
    # one argument exactly 0 (locations, minima, maxima, modes) or exactly 1 (scales, rates, shapes)
    ("uniform-min0", "uniform", dict(minimum=0.0, maximum=2.0), ["uniform", dict(a=0.0, b=2.0)], "SPOT"),
    ("uniform-max0", "uniform", dict(minimum=-1.0, maximum=0.0), ["uniform", dict(a=-1.0, b=0.0)], "SPOT"),
    ("uniform-max0-int", "uniform", dict(minimum=-1, maximum=0), ["uniform", dict(a=-1.0, b=0.0)], "SPOT"),
    ("normal-mu0", "normal", dict(mu=0.0, sigma=2.0), ["normal", dict(mu=0.0, sigma=2.0)], "SPOT"),
    ("normal-mu0-int", "normal", dict(mu=0, sigma=2), ["normal", dict(mu=0.0, sigma=2.0)], "SPOT"),
    ("normal-sigma1", "normal", dict(mu=1.0, sigma=1.0), ["normal", dict(mu=1.0, sigma=1.0)], "SPOT"),
    ("triangular-mode0", "triangular", dict(minimum=-1.0, mode=0.0, maximum=2.0), ["triangular", dict(a=-1.0, c=0.0, b=2.0)], "SPOT"),
    ("triangular-max0", "triangular", dict(minimum=-2.0, mode=-1.0, maximum=0.0), ["triangular", dict(a=-2.0, c=-1.0, b=0.0)], "SPOT"),
    ("triangular-min0", "triangular", dict(minimum=0.0, mode=1.0, maximum=3.0), ["triangular", dict(a=0.0, c=1.0, b=3.0)], "SPOT"),
    ("exponential-loc0", "exponential", dict(rate=2.0, loc=0.0), ["exponential", dict(rate=2.0, loc=0.0)], "SPOT"),
    ("exponential-rate1", "exponential", dict(rate=1.0, loc=1.0), ["exponential", dict(rate=1.0, loc=1.0)], "SPOT"),
    ("beta-uniform", "beta", dict(alpha=1.0, beta=1.0, minimum=0.0, maximum=1.0), ["uniform", dict(a=0.0, b=1.0)], "SPOT"),
    ("beta-min0", "beta", dict(alpha=2.0, beta=3.0, minimum=0.0, maximum=2.0), ["beta", dict(alpha=2.0, beta=3.0, a=0.0, b=2.0)], "SPOT"),
    ("beta-max0", "beta", dict(alpha=2.0, beta=3.0, minimum=-1.0, maximum=0.0), ["beta", dict(alpha=2.0, beta=3.0, a=-1.0, b=0.0)], "SPOT"),
    ("weibull-loc0", "weibull", dict(location=0.0, scale=2.0, shape=1.5), ["weibull", dict(loc=0.0, scale=2.0, shape=1.5, min=True)], "SPOT"),
    ("weibull-scale1-shape1", "weibull", dict(location=1.0, scale=1.0, shape=1.0), ["weibull", dict(loc=1.0, scale=1.0, shape=1.0, min=True)], "SPOT"),
    ("weibull-max-loc0", "weibull", dict(location=0.0, scale=2.0, shape=1.5, use_weibull_min=False), ["weibull", dict(loc=0.0, scale=2.0, shape=1.5, min=False)], "SPOT"),
    ("lognormal-log-mu0", "lognormal", dict(mu=0.0, sigma=1.0, location=0.0, set_log=True), ["lognormal", dict(m=0.0, s=1.0, loc=0.0)], "SPOT"),
    ("lognormal-log-mu0-loc1", "lognormal", dict(mu=0.0, sigma=0.5, location=1.0, set_log=True), ["lognormal", dict(m=0.0, s=0.5, loc=1.0)], "SPOT"),
    ("lognormal-loc0", "lognormal", dict(mu=2.0, sigma=0.5, location=0.0), ["lognormal-moments", dict(mu=2.0, sigma=0.5, location=0.0)], "SPOT"),
    ("lognormal-mean0", "lognormal", dict(mu=0.0, sigma=1.0, location=-2.0), ["lognormal-moments", dict(mu=0.0, sigma=1.0, location=-2.0)], "SPOT"),
    ("dirac-0", "dirac", dict(variable_value=0.0), ["dirac", dict(v=0.0)], "OT"),
    ("dirac-default", "dirac", {}, ["dirac", dict(v=0.0)], "OT"),
]

# OpenTURNS-only modifiers with falsy values: (name, family, base keyword arguments, base law, modifier keyword
# arguments, law modifiers, transformed?)
ZERO_MODS = [
    # truncation bounds exactly 0.0: lower only, upper only, both with one of them 0 (0 is interior to the support)
    ("normal-default+TL0", "normal", {}, _N01, dict(lower_bound=0.0), [["trunc", 0.0, None]], False),
    ("normal-default+TU0", "normal", {}, _N01, dict(upper_bound=0.0), [["trunc", None, 0.0]], False),
    ("normal-default+TL0int", "normal", {}, _N01, dict(lower_bound=0), [["trunc", 0.0, None]], False),
    ("normal-default+T0hi", "normal", {}, _N01, dict(lower_bound=0.0, upper_bound=1.5), [["trunc", 0.0, 1.5]], False),
    ("normal-default+Tlo0", "normal", {}, _N01, dict(lower_bound=-1.5, upper_bound=0.0), [["trunc", -1.5, 0.0]], False),
    ("normal+TL0", "normal", dict(mu=1.0, sigma=2.0), _N12, dict(lower_bound=0.0), [["trunc", 0.0, None]], False),
    ("normal+TU0", "normal", dict(mu=1.0, sigma=2.0), _N12, dict(upper_bound=0.0), [["trunc", None, 0.0]], False),
    ("uniform+TL0", "uniform", _kwU, _U, dict(lower_bound=0.0), [["trunc", 0.0, None]], False),
    ("uniform+TU0", "uniform", _kwU, _U, dict(upper_bound=0.0), [["trunc", None, 0.0]], False),
    ("uniform+T0hi", "uniform", _kwU, _U, dict(lower_bound=0.0, upper_bound=1.0), [["trunc", 0.0, 1.0]], False),
    ("uniform+Tlo0", "uniform", _kwU, _U, dict(lower_bound=-0.5, upper_bound=0.0), [["trunc", -0.5, 0.0]], False),
    ("triangular+TL0", "triangular", _kwT, _T, dict(lower_bound=0.0), [["trunc", 0.0, None]], False),
    ("triangular+TU0", "triangular", _kwT, _T, dict(upper_bound=0.0), [["trunc", None, 0.0]], False),
    ("beta+TL0", "beta", _kwB, _B, dict(lower_bound=0.0), [["trunc", 0.0, None]], False),
    ("beta+TU0", "beta", _kwB, _B, dict(upper_bound=0.0), [["trunc", None, 0.0]], False),
    ("exponential+TL0", "exponential", _kwE, _E, dict(lower_bound=0.0), [["trunc", 0.0, None]], False),
    ("exponential+TU0", "exponential", _kwE, _E, dict(upper_bound=0.0), [["trunc", None, 0.0]], False),
    ("weibull+TL0", "weibull", _kwW, _W, dict(lower_bound=0.0), [["trunc", 0.0, None]], False),
    ("weibull+TU0", "weibull", _kwW, _W, dict(upper_bound=0.0), [["trunc", None, 0.0]], False),
    ("lognormal+TL0", "lognormal", _kwLN, _LN, dict(lower_bound=0.0), [["trunc", 0.0, None]], False),
    ("lognormal+TU0", "lognormal", _kwLN, _LN, dict(upper_bound=0.0), [["trunc", None, 0.0]], False),
    # a bound 0.0 that coincides with the support bound (truncation changes nothing, but must be accepted)
    ("exponential-default+TL0", "exponential", {}, ["exponential", dict(rate=1.0, loc=0.0)], dict(lower_bound=0.0), [["trunc", 0.0, None]], False),
    ("uniform-default+T01", "uniform", {}, ["uniform", dict(a=0.0, b=1.0)], dict(lower_bound=0.0, upper_bound=1.0), [["trunc", 0.0, 1.0]], False),
    # transformation then truncation at 0
    ("normal+A-+TL0", "normal", dict(mu=1.0, sigma=2.0), _N12, dict(transformation="-x", lower_bound=0.0), [["affine", -1.0, 0.0], ["trunc", 0.0, None]], True),
    ("normal+A++TU0", "normal", dict(mu=1.0, sigma=2.0), _N12, dict(transformation="2*x+1", upper_bound=0.0), [["affine", 2.0, 1.0], ["trunc", None, 0.0]], True),
    # transformations that are the identity, and the empty string given explicitly
    ("normal+ID", "normal", dict(mu=1.0, sigma=2.0), _N12, dict(transformation="x"), [["affine", 1.0, 0.0]], True),
    ("normal+ID-spaces", "normal", dict(mu=1.0, sigma=2.0), _N12, dict(transformation=" x "), [["affine", 1.0, 0.0]], True),
    ("uniform+ID-affine", "uniform", _kwU, _U, dict(transformation="1*x+0"), [["affine", 1.0, 0.0]], True),
    ("normal+EMPTY", "normal", dict(mu=1.0, sigma=2.0), _N12, dict(transformation="", lower_bound=None, upper_bound=None), [], False),
    ("normal+ID+TL0", "normal", dict(mu=1.0, sigma=2.0), _N12, dict(transformation="x", lower_bound=0.0), [["affine", 1.0, 0.0], ["trunc", 0.0, None]], True),
    ("normal+ZERO-SHIFT", "normal", dict(mu=1.0, sigma=2.0), _N12, dict(transformation="x+0"), [["affine", 1.0, 0.0]], True),
    # the threshold of the truncated distribution at the ends of its admissible interval [0, 1]
    ("normal-default+T+thr0", "normal", {}, _N01, dict(lower_bound=-1.0, upper_bound=1.5, threshold=0.0), [["trunc", -1.0, 1.5]], False),
    ("normal-default+TL0+thr0", "normal", {}, _N01, dict(lower_bound=0.0, threshold=0.0), [["trunc", 0.0, None]], False),
    ("normal-default+TU0+thr1", "normal", {}, _N01, dict(upper_bound=0.0, threshold=1.0), [["trunc", None, 0.0]], False),
]

# generic interfaces with falsy native parameters: (name, library, interfaced distribution, parameters, extra
# keyword arguments, law spec, transformed?)
ZERO_GENERIC = [
    ("generic-norm-01", "SP", "norm", dict(loc=0.0, scale=1.0), {}, _N01, False),
    ("generic-norm-empty", "SP", "norm", {}, {}, _N01, False),
    ("generic-uniform-01", "SP", "uniform", dict(loc=0.0, scale=1.0), {}, ["uniform", dict(a=0.0, b=1.0)], False),
    ("generic-expon-01", "SP", "expon", dict(loc=0.0, scale=1.0), {}, ["exponential", dict(rate=1.0, loc=0.0)], False),
    ("generic-norm-01", "OT", "Normal", [0.0, 1.0], {}, _N01, False),
    ("generic-norm-empty", "OT", "Normal", [], {}, _N01, False),
    ("generic-uniform-01", "OT", "Uniform", [0.0, 1.0], {}, ["uniform", dict(a=0.0, b=1.0)], False),
    ("generic-expon-01", "OT", "Exponential", [1.0, 0.0], {}, ["exponential", dict(rate=1.0, loc=0.0)], False),
    ("generic-dirac-0", "OT", "Dirac", [0.0], {}, ["dirac", dict(v=0.0)], False),
    ("generic-norm-01+TL0", "OT", "Normal", [0.0, 1.0], dict(lower_bound=0.0), _N01 + [["trunc", 0.0, None]], False),
    ("generic-norm-empty+TU0", "OT", "Normal", [], dict(upper_bound=0.0), _N01 + [["trunc", None, 0.0]], False),
    ("generic-logistic-01+TU0", "OT", "Logistic", [0.0, 1.0], dict(upper_bound=0.0), ["logistic", dict(loc=0.0, scale=1.0), ["trunc", None, 0.0]], False),
    ("generic-norm-01+ID", "OT", "Normal", [0.0, 1.0], dict(transformation="x"), _N01 + [["affine", 1.0, 0.0]], True),
]


def resolve_spec(spec):
    """'lognormal-moments' specs are given by (mean, standard deviation, location) as the wrapper takes them."""
    if spec[0] == "lognormal-moments":
        p = spec[1]
        m, s = lognormal_from_moments(p["mu"], p["sigma"], p["location"])
        return ["lognormal", dict(m=m, s=s, loc=p["location"]), *spec[2:]]
    return list(spec)
