"""C06 - every MDA algorithm converges to the multidisciplinary fixed point (engine E2, deviation-bounded).

Generated coupled systems (no hand-drawn ones)
----------------------------------------------
n in {2, 3} harness disciplines.  Node i reads the shared input ``x`` (size 2), writes a non-coupling output
``o{i}``; an edge (i, j) is a variable ``y{i}_{j}`` in outputs(i) & inputs(j); a self-loop is ``s{i}`` in
inputs(i) & outputs(i).  Sizes in {1, 2} (three size patterns).  Every output v of node i is

    v = c_v + B_v x + sum_u W_vu phi(u)            u ranging over the K_i coupling inputs of node i

with blocks from a fixed table, ``||W_vu||_inf = q_v w_vu / K_i`` (q_v <= 0.5, w_vu <= 1), so every row of the
monolithic map has an absolute coupling row sum <= 0.5.  ``phi`` = identity (linear), ``0.3 sin``, ``0.2 tanh`` or
a small-gain quadratic ``0.04 u^2`` continued linearly (C1) beyond |u| = 4 (the three nonlinear kinds use 2 W, i.e.
row sums <= 1, so their Lipschitz constants are 0.3 / 0.2 / 0.32).  Hence the monolithic map z -> F(z; x) over
ALL output variables is a contraction of constant q <= 0.5 in the max-norm *globally*; block Jacobi and block
Gauss-Seidel (any discipline order) then contract with the same constant (classical: ||M||_inf < 1 bounds the
Gauss-Seidel iteration operator too), and rho <= ||.||_inf.  The harness asserts q <= 0.5, and for linear systems
rho(M) <= 0.5 and ||(I - M)^-1||_inf <= 1 / (1 - q).

Graphs: for the plain solvers (MDAGaussSeidel, MDANewtonRaphson, MDAQuasiNewton, MDAGSNewton, MDASequential) every
strongly connected labelled digraph x every subset of self-loops (n = 2: 4, n = 3: 144); for MDAJacobi, which
resolves *all* the couplings when some disciplines are only weakly coupled (``_compute_input_coupling_names``), every
digraph with at least one coupling (15 / 511); for MDAChain every labelled digraph with self-loops (16 / 512: several
SCCs, self-coupled and weakly coupled nodes, acyclic).

Process disciplines as nodes (MDAChain family, ``nested_cases`` / ``top_level_nodes``): every ordered pair of nodes sharing
a coupling is replaced by ONE process discipline - a sweep ``MDOChain([D_a, D_b])`` (self-coupled as a whole, does not solve
its couplings; alone as a component and inside cycles, for every inner MDA class) or, for a 2-cycle, a nested MDAJacobi /
MDAGaussSeidel - in every listing order of the top-level nodes; same oracles (every harness body re-executed, monolithic solve).

Axes (first value = the class's default; tolerance 1e-10 and max_mda_iter 200 are fixed, serial execution is the
base value of the parallel axis):
  acc          default + the 6 AccelerationMethod      omega  over_relaxation_factor in {1, 0.8, 1.2}
               (one composite object RelaxationAcceleration(omega, method): its full product is always enumerated)
  scaling      the 6 ResidualScaling values            warm   warm_start
  order        every listing permutation               input  3 input points
  runs         "once" | "twice" = execute(x_a) then execute(x_b) on the same object (``_scaling_data`` survives)
  sizes        mixed | ones | twos                     kind   linear | sin | tanh | quad
  parallel     serial | 2 threads | 2 processes (Jacobi, Newton, quasi-Newton; inner MDA of a chain)
  method (9 SciPy methods) / use_gradient (quasi-Newton), max_iter (GS-Newton: 200 | 4 so that Newton has to finish),
  sequence (MDASequential: 7 compositions, name[budget][@own tolerance] - four with reduced budgets, three whose sub-MDAs
  have their own tolerances looser (1e-1, 1e-2) and tighter (1e-12) than the outer 1e-10), inner MDA (5 classes),
  mdachain_parallelize_tasks and sub_coupling_structures {default, given by the user: one CouplingStructure per inner
  MDA in execution order} (MDAChain; the multi-component graphs put the inner MDAs on different levels of the sequence;
  both tiers apply the user-given value to EVERY labelled n = 3 graph with >= 2 groups needing an MDA, ``sub_cs_cases``).

Bound.  thorough: <= 2 deviations on every n = 2 graph and on one representative per isomorphism class of the n = 3
graphs (plain solvers: the 30 strongly connected classes; chains: the classes where a chain is more than its inner
MDA, i.e. not one group covering everything and not acyclic; the other representatives <= 1), and every listing
permutation of the default vector on every labelled n = 3 graph (the order axis supplies the relabellings of the
representatives).  quick: <= 1 deviation on n = 2, the default vector on every labelled n = 3 graph, every listing
permutation on the n = 3 representatives.  Both tiers: the acceleration x relaxation product (n = 2; n = 3: strongly
connected representatives - Jacobi and Gauss-Seidel in quick, every class with a transformer and the multi-component
chains in thorough).  Cap: process-based
execution (every MDA iteration forks a pool) only as a single deviation.

Oracles, all derived (max-norm; q, kappa = 1 / (1 - q) >= ||(I - M_sub)^-1||_inf for every principal subsystem):
  every solver stops on a *scaled* residual R_k = G(x_k) - x_k evaluated at a point x_k and returns
  z in {x_k, G(x_k), GS(x_k)}.  From the scaling rule ||R_k||_inf <= tol s with
      r0 = (1 + q)(e0 + 1)  >=  ||R_0||_inf          (e0 = ||start - z*||_inf of the FIRST execution: the reference
                                                     residual is fixed at the first iteration ever run; the + 1
                                                     covers an upstream group of a chain that is itself only
                                                     converged to its tolerance, asserted <= 1)
      s = 1 (no_scaling), sqrt(N) (n_coupling_variables), sqrt(N) r0 (initial_residual_norm),
          sqrt(2) r0 (initial_subresidual_norm, blocks of size <= 2), r0 (initial_residual_component),
          sqrt(N) r0 (scaled_initial_residual_component).
  ||x_k - z*_loc|| <= kappa tol s, the same for its images, hence
  (i)   re-executing every harness body on the returned data reproduces the returned outputs within
        d = (1 + q) kappa tol s + rounding;
  (ii)  z - z* = (I - M)^-1 (z - F(z)) (mean-value form for the nonlinear kinds), so the returned data equal the
        monolithic solution (numpy.linalg.solve; for the nonlinear kinds the harness's own Banach iteration run
        to stationarity, its error bound is added) within kappa d;
  (iii) every configuration is compared with the same configuration-independent reference, so two
        configurations on one system differ by <= 2 kappa d.
  Only runs that *report* convergence (normed residual <= tolerance for every MDA loop that ran last) are held
  to (i)-(iii); a run that does not is a violation ``converges`` (the family is contractive; for plain / relaxed
  Jacobi and Gauss-Seidel, Newton, GS-Newton and chains of those theory demands it: the implemented relaxation
  x_{k+1} = omega G(x_k) + (1 - omega) G(x_{k-1}) contracts when q (omega + |1 - omega|) < 1, i.e. 0.7 here,
  rate <= 0.735 per iteration, 0.735^200 ~ 1e-27; for the accelerated variants it is reported too, under a
  signature (solver, acceleration, sign(omega - 1)) that known_findings.json can list).

Oracle boundaries (rule 1):
* MDAQuasiNewton reports nothing (the SciPy result object is dropped; ``normed_residual`` is only refreshed by the
  Broyden callbacks and is scaled differently from SciPy's own criterion), so *every* quasi-Newton run is held to
  (i)-(iii), with SciPy's documented criteria: nonlin methods stop on ||F||_inf <= tol ||F_0||_inf (s = r0); hybr /
  lm on MINPACK's xtol "relative error between two consecutive iterates" (s = sqrt(N) (1 + ||z*||)); df-sane on
  ||F|| <= tol (1 + ||F_0||).  These are SciPy's documented rules, not bounds proved from the tolerance (none
  exists for a trust-region radius test).  broyden1 / broyden2 runs whose callbacks counted max_mda_iter SciPy
  iterations (maxiter exhausted) are a violation on linear systems only (premise of the alphabet); on the nonlinear kinds SciPy's
  Broyden updates carry no guarantee and nothing is claimed (counted).  linearmixing is not in the alphabet: its fixed mixing step needs more than
  200 residual evaluations on part of the family.
* (i) is checked on the non-coupling outputs ``o{i}`` as on every other output (this is what exposed that
  MDAQuasiNewton returned them from its last residual evaluation, a finite-difference perturbation point).
* a phase that was deliberately given a few iterations (GS-Newton with max_mda_iter = 4, first phases of
  MDASequential) may exhaust them: its criterion is relative to its own, possibly tiny, first residual.  Such a run is
  counted (``budget_exhausted_runs``) and nothing is claimed about its data.  Later phases start from the result of
  the earlier ones; the premise ||R_0||_inf <= r0 for them is that this start is within e0 + 1 of the solution.
* MDASequential itself never updates ``normed_residual``; "reports convergence" is read from the sub-MDA that ran
  last - observed through the execution counters, not recomputed from the early-exit rule - and that sub-MDA is held to
  the OUTER tolerance (the one the property speaks about); earlier phases only to their own.  Every criterion is relative
  to the sub-MDA's own first residual: a later phase that starts at rounding distance from the solution stagnates and
  reports non-convergence; such a run is counted (``later_phase_stagnated_runs``) when its data satisfy (i)-(iii) at the
  outer-tolerance bound, and is a ``converges`` violation otherwise.  The last sub-MDA of an alphabet sequence is never
  looser than the outer tolerance.
* a self-loop variable is private to its discipline (gemseo warns that other uses are unsupported).
* component-wise scalings are only attainable when no component of the first residual is tiny; the tables are
  generic (no structural zeros) and the check would show an unattainable case as ``converges``.
"""
from __future__ import annotations

import itertools
import math

import numpy as np

from mc import product
from mc.core import Tally, pmap

LEVEL = "exploration"
TOL = 1e-10
MAX_ITER = 200
EPS = float(np.finfo(float).eps)

# input points and start values are deliberately not "round": with round numbers c_v + B_v x cancels to rounding level for
# some variable (0.4 - 0.3 * 1.5 + 0.2 * 0.25 = 5.6e-17), and a start component of that size defeats the *relative*
# forward-difference step of MINPACK (SciPy lm / hybr, used by MDAQuasiNewton) - not something gemseo decides
ALPHABETS = [
    {"name": "a", "shift": 0, "start": 0.0, "x": [[0.71, -1.33], [-0.43, 0.91], [1.47, 0.26]]},
    {"name": "b", "shift": 1, "start": 0.27, "x": [[-1.13, 0.62], [0.31, 1.21], [-0.83, -0.52]]},
    {"name": "c", "shift": 2, "start": -0.53, "x": [[1.41, 1.03], [-1.49, -0.22], [0.13, -0.91]]},
    {"name": "d", "shift": 4, "start": 0.0, "x": [[-0.61, -1.43], [1.22, 0.41], [0.07, 1.49]]},
]
ALPHA = ALPHABETS[0]

ACCELERATIONS = ["NoTransformation", "Alternate2Delta", "Aitken", "Secant", "MinimumPolynomial", "AlternateDeltaSquared"]
OMEGAS = [1.0, 0.8, 1.2]
SCALINGS = ["initial_residual_norm", "no_scaling", "initial_subresidual_norm", "n_coupling_variables",
            "initial_residual_component", "scaled_initial_residual_component"]
KINDS = ["linear", "sin", "tanh", "quad"]
SIZES = ["mixed", "ones", "twos"]
PARALLEL = ["serial", "threads", "processes"]
# SciPy root methods that converge on (contractive) linear systems; hybr is the class default
QN_METHODS = ["hybr", "lm", "broyden1", "broyden2", "anderson", "krylov", "df-sane", "diagbroyden", "excitingmixing"]
# MDASequential: name[budget][@own tolerance] (default: the outer tolerance, full budget).  The last three give the sub-MDAs
# tolerances looser (1e-1, 1e-2) and tighter (1e-12) than the outer 1e-10: coarse initialisation then fine resolution, a first
# MDA tighter than the outer one (the sequence stops after it), three phases.  Oracle boundaries: the LAST sub-MDA is never
# looser than the outer tolerance (a sequence ending on a coarser MDA cannot deliver the requested tolerance by construction);
# every criterion is relative to the sub-MDA's OWN first residual, so the product of the tolerances along a sequence is kept
# >= 1e-14 and a Newton phase is never the last one after a converged phase (with 1e-2 x 1e-4 x 1e-10 the last phase asks for 1e-16 of the initial residual: unattainable in double precision,
# it stagnates at rounding level and reports non-convergence although the data are exact to rounding).
SEQUENCES = ["jacobi3+newton", "gs2+jacobi", "jacobi2+gs", "newton2+gs",
             "jacobi@1e-2+gs@1e-12", "gs@1e-12+jacobi", "gs@1e-1+jacobi@1e-2+gs"]
INNER = ["MDAJacobi", "MDAGaussSeidel", "MDANewtonRaphson", "MDAQuasiNewton", "MDAGSNewton"]
PLAIN = ["MDAJacobi", "MDAGaussSeidel", "MDANewtonRaphson", "MDAQuasiNewton", "MDAGSNewton", "MDASequential"]
DEFAULT_ACC = {"MDAJacobi": "Alternate2Delta"}


# ------------------------------------------------------------------------------------------------
# graphs
# ------------------------------------------------------------------------------------------------
def graphs(n: int):
    """Every labelled digraph on n nodes with self-loops, fewest arcs first: (edges, loops)."""
    pairs = [(i, j) for i in range(n) for j in range(n)]
    for m in sorted(range(2 ** len(pairs)), key=lambda m: (bin(m).count("1"), m)):
        arcs = [p for b, p in enumerate(pairs) if m >> b & 1]
        yield [list(p) for p in arcs if p[0] != p[1]], [p[0] for p in arcs if p[0] == p[1]]


def closure(n, edges):
    r = [[i == j for j in range(n)] for i in range(n)]
    for i, j in edges:
        r[i][j] = True
    for k in range(n):
        for i in range(n):
            if r[i][k]:
                for j in range(n):
                    if r[k][j]:
                        r[i][j] = True
    return r


def sccs(n, edges):
    r = closure(n, edges)
    return [frozenset(j for j in range(n) if r[i][j] and r[j][i]) for i in range(n)]


def strongly_connected(n, edges):
    return len(sccs(n, edges)[0]) == n


def canonical(n, edges, loops):
    best = None
    for p in itertools.permutations(range(n)):
        k = (tuple(sorted((p[i], p[j]) for i, j in edges)), tuple(sorted(p[i] for i in loops)))
        if best is None or k < best:
            best = k
    return best


def representatives(glist, n):
    seen, out = set(), []
    for e, lp in glist:
        k = canonical(n, e, lp)
        if k not in seen:
            seen.add(k)
            out.append((e, lp))
    return out


def graph_class(n, edges, loops):
    scc = sccs(n, [tuple(e) for e in edges])
    groups = {s for i, s in enumerate(scc) if len(s) > 1 or i in loops}
    in_groups = set().union(*groups) if groups else set()
    if not groups:
        c = "acyclic"
    elif len(groups) == 1 and len(in_groups) == n:
        c = "one-group"
    elif len(groups) == 1:
        c = "group+weak"
    elif len(in_groups) == n:
        c = "several-groups"
    else:
        c = "several-groups+weak"
    return c + ("+selfloop" if loops else "")


# ------------------------------------------------------------------------------------------------
# harness system (pure numpy)
# ------------------------------------------------------------------------------------------------
def vcode(v: str) -> int:
    if v[0] == "y":
        a, b = v[1:].split("_")
        return 3 * int(a) + int(b)
    return {"s": 10, "o": 14}[v[0]] + int(v[1:])


def vnode(v: str) -> int:
    return int(v[1:].split("_")[0])


def vsize(v: str, pat: str) -> int:
    if v == "x":
        return 2
    return {"ones": 1, "twos": 2}.get(pat) or 1 + (vcode(v) + (v[0] == "o")) % 2


_PAT = {
    (1, 1): np.array([[1.0]]),
    (1, 2): np.array([[0.6, -0.4]]),
    (2, 1): np.array([[1.0], [-0.7]]),
    (2, 2): np.array([[0.5, -0.5], [0.3, 0.7]]),
}
_BX = np.array([[0.3, -0.2], [-0.1, 0.4]])
PHI_LIP = {"linear": 1.0, "sin": 0.3, "tanh": 0.2, "quad": 0.32}
_QU = 4.0  # the quadratic is continued linearly (C1) beyond |u| = _QU: global Lipschitz constant 2 * 0.04 * _QU


def phi(kind, u):
    if kind == "linear":
        return u
    if kind == "sin":
        return 0.3 * np.sin(u)
    if kind == "tanh":
        return 0.2 * np.tanh(u)
    a = np.abs(u)
    return np.where(a <= _QU, 0.04 * u * u, 0.04 * (2 * _QU * a - _QU * _QU))


def dphi(kind, u):
    if kind == "linear":
        return np.ones_like(u)
    if kind == "sin":
        return 0.3 * np.cos(u)
    if kind == "tanh":
        return 0.2 / np.cosh(u) ** 2
    return np.where(np.abs(u) <= _QU, 0.08 * u, 0.08 * _QU * np.sign(u))


class Body:
    def __init__(self, i, n, edges, loops, pat, kind, shift):
        self.i, self.kind = i, kind
        self.cins = [f"y{j}_{i}" for j in range(n) if (j, i) in edges] + ([f"s{i}"] if i in loops else [])
        self.ins = ["x", *self.cins]
        self.outs = [f"y{i}_{j}" for j in range(n) if (i, j) in edges] + ([f"s{i}"] if i in loops else []) + [f"o{i}"]
        k = max(1, len(self.cins))
        amp = 1.0 if kind == "linear" else 2.0
        self.size = {v: vsize(v, pat) for v in {*self.ins, *self.outs}}
        self.W, self.B, self.c = {}, {}, {}
        for v in self.outs:
            cv, r = vcode(v), self.size[v]
            q = (0.5, 0.42, 0.35)[(cv + shift) % 3]
            self.W[v] = {}
            for u in self.cins:
                cu = vcode(u)
                w = (1.0, 0.8, 0.9)[(cv + 2 * cu + shift) % 3]
                sign = -1.0 if (cv + cu + shift) % 2 else 1.0
                self.W[v][u] = amp * sign * q * w / k * _PAT[(r, self.size[u])]
            self.B[v] = np.roll(_BX, cv + shift, axis=0)[:r] * (1.0 if cv % 2 else -1.0)
            self.c[v] = 0.4 + 0.15 * ((cv + shift) % 5) + 0.2 * np.arange(r)

    def f(self, data):
        x = np.asarray(data["x"], dtype=float)
        ph = {u: phi(self.kind, np.asarray(data[u], dtype=float)) for u in self.cins}
        out = {}
        for v in self.outs:
            val = self.c[v] + self.B[v] @ x
            for u in self.cins:
                val = val + self.W[v][u] @ ph[u]
            out[v] = val
        return out

    def jac(self, data):
        dp = {u: dphi(self.kind, np.asarray(data[u], dtype=float)) for u in self.cins}
        return {v: {"x": self.B[v].copy(), **{u: self.W[v][u] * dp[u][None, :] for u in self.cins}} for v in self.outs}


class System:
    """The monolithic view: all output variables of all bodies, reference solutions, constants of the bounds."""

    def __init__(self, case):
        n = case["n"]
        edges, loops = {tuple(e) for e in case["edges"]}, set(case["loops"])
        self.kind = case["kind"]
        self.bodies = [Body(i, n, edges, loops, case["sizes"], self.kind, ALPHA["shift"]) for i in range(n)]
        self.names = [v for b in self.bodies for v in b.outs]
        self.size = {v: b.size[v] for b in self.bodies for v in b.outs}
        self.off, k = {}, 0
        for v in self.names:
            self.off[v] = k
            k += self.size[v]
        self.dim = k
        self.couplings = [v for v in self.names if v[0] != "o"]
        self.n_c = sum(self.size[v] for v in self.couplings)
        m = np.zeros((k, k))
        for b in self.bodies:
            for v in b.outs:
                for u in b.cins:
                    m[self.off[v]:self.off[v] + self.size[v], self.off[u]:self.off[u] + self.size[u]] = np.abs(b.W[v][u])
        self.q = float(PHI_LIP[self.kind] * m.sum(axis=1).max())
        assert self.q <= 0.5 + 1e-15, self.q
        self.kappa = 1.0 / (1.0 - self.q)
        self._ref = {}

    def vec(self, data):
        return np.concatenate([np.asarray(data[v], dtype=float).ravel() for v in self.names]) if self.names else np.zeros(0)

    def unvec(self, z):
        return {v: z[self.off[v]:self.off[v] + self.size[v]] for v in self.names}

    def F(self, z, x):
        data = {"x": np.asarray(x, dtype=float), **self.unvec(z)}
        out = {}
        for b in self.bodies:
            out.update(b.f(data))
        return self.vec(out)

    def reference(self, x):
        """(z*, bound on its own error)."""
        key = tuple(x)
        if key in self._ref:
            return self._ref[key]
        x = np.asarray(x, dtype=float)
        if self.kind == "linear":
            rhs = self.F(np.zeros(self.dim), x)
            m = np.column_stack([self.F(e, x) - rhs for e in np.eye(self.dim)]) if self.dim else np.zeros((0, 0))
            a = np.eye(self.dim) - m
            z = np.linalg.solve(a, rhs)
            assert float(np.abs(m).sum(axis=1).max()) <= self.q + 1e-15
            assert max(abs(np.linalg.eigvals(m)), default=0.0) <= 0.5 + 1e-12  # spectral radius of block Jacobi
            kinf = float(np.abs(np.linalg.inv(a)).sum(axis=1).max())
            assert kinf <= self.kappa * (1 + 1e-12), (kinf, self.kappa)
            err = 64 * EPS * kinf * (1.0 + float(np.abs(z).max()))
        else:
            z = np.zeros(self.dim)
            for _ in range(400):
                z2 = self.F(z, x)
                step = float(np.abs(z2 - z).max())
                z = z2
                if step <= 2 * EPS * (1.0 + float(np.abs(z).max())):
                    break
            err = (float(np.abs(self.F(z, x) - z).max()) + 16 * EPS * (1.0 + float(np.abs(z).max()))) * self.kappa
        self._ref[key] = (z, err)
        return z, err


# ------------------------------------------------------------------------------------------------
# gemseo side
# ------------------------------------------------------------------------------------------------
_G = {}


def _gemseo():
    if _G:
        return _G
    from gemseo.core.chains.chain import MDOChain
    from gemseo.core.discipline import Discipline
    from gemseo.mda.base_mda import BaseMDA
    from gemseo.mda.gauss_seidel import MDAGaussSeidel
    from gemseo.mda.gs_newton import MDAGSNewton
    from gemseo.mda.jacobi import MDAJacobi
    from gemseo.mda.mda_chain import MDAChain
    from gemseo.mda.newton_raphson import MDANewtonRaphson
    from gemseo.mda.quasi_newton import MDAQuasiNewton
    from gemseo.mda.sequential_mda import MDASequential

    class Harness(Discipline):
        def __init__(self, body: Body, start: float):
            super().__init__(name=f"D{body.i}")
            self.configure(body, start)

        def configure(self, body: Body, start: float):
            """(Re)define body, grammars and defaults and forget every trace of earlier executions.

            Creating a Discipline costs three OS semaphores (execution statistics; several ms each on a loaded machine), so
            run() re-uses one harness object per node and worker process; every process object (MDAs, chains, coupling
            structures) is created afresh, and a violation seen with pooled objects is re-run on fresh ones before it is
            believed (replay() only uses fresh ones)."""
            self.body = body
            self.io.input_grammar.clear()
            self.io.output_grammar.clear()
            self.io.input_grammar.update_from_names(body.ins)
            self.io.output_grammar.update_from_names(body.outs)
            self.io.input_grammar.defaults.update({u: np.full(body.size[u], start) for u in body.cins})
            self.io.input_grammar.defaults["x"] = np.zeros(2)
            self.io.data.clear()
            self._differentiated_input_names = []
            self._differentiated_output_names = []
            self.jac = {}
            if self.cache is not None:
                self.cache.clear()
            self.n_run = 0
            return self

        def _run(self, input_data):
            self.n_run += 1
            return self.body.f(input_data)

        def _compute_jacobian(self, input_names=(), output_names=()):
            self.jac = self.body.jac(self.io.data)

    _G.update(Harness=Harness, MDAJacobi=MDAJacobi, MDAGaussSeidel=MDAGaussSeidel, MDANewtonRaphson=MDANewtonRaphson,
              MDAQuasiNewton=MDAQuasiNewton, MDAGSNewton=MDAGSNewton, MDASequential=MDASequential, MDAChain=MDAChain, MDOChain=MDOChain, BaseMDA=BaseMDA)
    return _G


def _par(case):
    p = case.get("parallel", "serial")
    return {"serial": {"n_processes": 1}, "threads": {"n_processes": 2, "use_threading": True},
            "processes": {"n_processes": 2, "use_threading": False}}[p]


def _solver_settings(cls, case):
    """Settings of one elementary solver class taken from the case record."""
    s = {}
    if cls in ("MDAJacobi", "MDAGaussSeidel", "MDANewtonRaphson"):
        s.update(acceleration_method=case["acc"], over_relaxation_factor=case["omega"])
    if cls in ("MDAJacobi", "MDANewtonRaphson", "MDAQuasiNewton"):
        s.update(_par(case))
    if cls == "MDAQuasiNewton":
        s.update(method=case.get("method", "hybr"), use_gradient=bool(case.get("use_gradient", False)))
    return s


def top_level_nodes(case, discs, nested):
    """The disciplines handed to the MDA: the harness disciplines, or (``wrap``) two of them replaced by ONE process discipline:

    * ``sweep``: ``MDOChain([D_a, D_b])`` - a user-made Gauss-Seidel sweep.  As a discipline it is self-coupled whenever a
      variable read by D_a (or a self-loop) is written inside the chain, and it does NOT solve its couplings: one execution is
      one sweep.  An MDAChain has to embed it in an inner MDA, alone or together with the other members of its component;
    * ``MDAJacobi`` / ``MDAGaussSeidel``: a nested MDA over [D_a, D_b] that solves its own couplings (appended to ``nested``:
      its stop criterion takes part in the returned data, so its report is read like the one of an inner MDA).

    The top-level node list is [process, remaining harness disciplines in index order]; ``order`` permutes that list.
    The oracles are untouched: every harness BODY is re-executed on the returned data, the reference is the monolithic
    solve over all the output variables (the variable internal to the sweep included).  Bounds: the map on the top-level
    couplings stays a q-contraction in the max-norm (an output computed from fresh values inside the process inherits their
    error bound q ||e||; an exact sub-solve has gain (q - a) / (1 - a) <= q), so the derivation of the module docstring holds.
    """
    wrap = case.get("wrap")
    if not wrap:
        return list(discs)
    g = _gemseo()
    a, b = wrap["nodes"]
    pair = [discs[a], discs[b]]
    if wrap["kind"] == "sweep":
        proc = g["MDOChain"](pair, name="sweep")
    else:
        kw = {"tolerance": TOL, "max_mda_iter": MAX_ITER}
        if wrap["kind"] == "MDAJacobi":
            kw["n_processes"] = 1
        proc = g[wrap["kind"]](pair, **kw)
        nested.append(proc)
    return [proc, *[d for k, d in enumerate(discs) if k not in (a, b)]]


def make_mda(case, discs):
    g = _gemseo()
    cls = case["cls"]
    common = {"tolerance": TOL, "max_mda_iter": int(case.get("max_iter", MAX_ITER)), "warm_start": bool(case["warm"])}
    if cls in ("MDAJacobi", "MDAGaussSeidel", "MDANewtonRaphson", "MDAQuasiNewton"):
        return g[cls](discs, **common, **_solver_settings(cls, case))
    if cls == "MDAGSNewton":
        tr = {"acceleration_method": case["acc"], "over_relaxation_factor": case["omega"]}
        return g[cls](discs, gauss_seidel_settings=tr, newton_settings={"n_processes": 1}, **common)
    if cls == "MDASequential":
        subs = []
        for spec in case["sequence"].split("+"):
            spec, _, own_tol = spec.partition("@")
            name = spec.rstrip("0123456789")
            it = int(spec[len(name):]) if spec[len(name):] else MAX_ITER
            sub = {"jacobi": "MDAJacobi", "gs": "MDAGaussSeidel", "newton": "MDANewtonRaphson"}[name]
            kw = {"tolerance": float(own_tol) if own_tol else TOL, "max_mda_iter": it, "warm_start": bool(case["warm"])}
            if sub != "MDAGaussSeidel":
                kw["n_processes"] = 1
            subs.append(g[sub](discs, **kw))
        return g[cls](discs, subs, **common)
    if cls == "MDAChain":
        inner = case["inner"]
        ist = _solver_settings(inner, case)
        # (MDAGSNewton as inner MDA: its Gauss-Seidel / Newton settings are constructor arguments that a chain cannot pass)
        extra = {}
        if case.get("sub_cs"):
            # user-given coupling structures, "one per inner MDA in execution order" (the documented contract of the setting):
            # the groups of the execution sequence that need an MDA, each over its members in listing order
            from gemseo.core.coupling_structure import CouplingStructure

            top = CouplingStructure(discs)
            groups = [grp for stage in top.sequence for grp in stage
                      if len(grp) > 1 or (top.is_self_coupled(grp[0]) and not isinstance(grp[0], g["BaseMDA"]))]
            extra["sub_coupling_structures"] = [CouplingStructure([d for d in discs if d in grp]) for grp in groups]
        return g[cls](discs, inner_mda_name=inner, inner_mda_settings=ist,
                      mdachain_parallelize_tasks=bool(case.get("par_tasks", False)), **common, n_processes=1, **extra)
    raise ValueError(cls)


def _exec_counts(mda, nested=()):
    """{id(m): number of executions} of every MDA object below ``mda`` (read before and after an execution)."""
    out = {}

    def walk(m):
        out[id(m)] = m.execution_statistics.n_executions
        for sub in [*getattr(m, "inner_mdas", ()), *getattr(m, "mda_sequence", ())]:
            walk(sub)

    for m in [mda, *nested]:
        walk(m)
    return out


def _phases(mda, before=None):
    """The elementary solver loops that ran in the last execution: [(class name, mda, decisive, later)].

    ``decisive``: its stop criterion decided the returned data (the last phase of a sequence that ran); ``later``: it started
    from the result of an earlier phase of a sequence.  Which sub-MDAs of a
    sequence ran is OBSERVED (execution counters read before / after), not recomputed from the early-exit rule under test."""
    name = type(mda).__name__
    if name == "MDAChain":
        return [x for m in mda.inner_mdas for x in _phases(m, before)]
    if name in ("MDASequential", "MDAGSNewton"):
        counts = [m.execution_statistics.n_executions for m in mda.mda_sequence]
        if before is not None and all(c is not None for c in counts):
            ran = [m for m, c in zip(mda.mda_sequence, counts) if c > (before.get(id(m)) or 0)]
        else:  # statistics disabled: the documented rule
            ran = []
            for m in mda.mda_sequence:
                ran.append(m)
                if m.normed_residual < mda.settings.tolerance:
                    break
        out = []
        for m in ran:
            out += [(nm, mm, dec and m is ran[-1], later or m is not ran[0]) for nm, mm, dec, later in _phases(m, before)]
        return out
    return [(name, mda, True, False)]


def _s_factor(scaling, n_c, r0):
    sq = math.sqrt(max(1, n_c))
    return {"no_scaling": 1.0, "n_coupling_variables": sq, "initial_residual_norm": sq * r0,
            "initial_subresidual_norm": math.sqrt(2.0) * r0, "initial_residual_component": r0,
            "scaled_initial_residual_component": sq * r0}[scaling]


def shape(case):
    om = case.get("omega", 1.0)
    sig = {
        "mda": case["cls"],
        "acceleration": case.get("acc", "NoTransformation"),
        "relaxation": "under" if om < 1 else "over" if om > 1 else "none",
        "scaling": case["scaling"],
        "graph": graph_class(case["n"], case["edges"], case["loops"]),
    }
    if "method" in case:
        sig["method"] = case["method"]
    if "sequence" in case:
        sig["sequence"] = case["sequence"]
    if "inner" in case:
        sig["inner"] = case["inner"]
    if case.get("wrap"):
        sig["wrap"] = case["wrap"]["kind"]
    if case.get("sub_cs"):
        sig["sub_coupling_structures"] = "user-given"
    return sig


def case_key(case):
    return tuple(sorted((k, repr(v)) for k, v in case.items() if not k.startswith("_")))


_POOL: list = []
POOLED = False  # run() switches it on; replay() and the confirmation of a violation use fresh objects


def _disciplines(bodies):
    g = _gemseo()
    if not POOLED:
        return [g["Harness"](b, ALPHA["start"]) for b in bodies]
    while len(_POOL) < len(bodies):
        _POOL.append(g["Harness"](bodies[len(_POOL)], ALPHA["start"]))
    return [_POOL[b.i].configure(b, ALPHA["start"]) for b in bodies]


def run_case(case, tally):
    sysm = System(case)
    sig = shape(case)
    obs = {"violations": [], "runs": []}

    def viol(inv, solver, msg):
        tally.violation({"invariant": inv, "solver": solver, **sig}, case, f"{inv}: {msg}\n  case={case}")
        obs["violations"].append({"invariant": inv, "solver": solver, "message": msg})

    discs = _disciplines(sysm.bodies)
    nested = []
    try:
        tops = top_level_nodes(case, discs, nested)
    except Exception as e:
        viol("construction-raises", case.get("inner", case["cls"]), f"nested node: {type(e).__name__}: {str(e)[:300]}")
        tally.case(case_key(case), nontrivial=False, outcome=f"{case['cls']}:construction-raises")
        return obs
    listed = [tops[k] for k in case["order"]]
    xs = [ALPHA["x"][case["input"]]]
    if case["runs"] == "twice":
        xs.append(ALPHA["x"][(case["input"] + 1) % 3])
    try:
        mda = make_mda(case, listed)
        if case["scaling"] != SCALINGS[0]:
            mda.scaling = case["scaling"]
    except Exception as e:
        viol("construction-raises", case.get("inner", case["cls"]), f"{type(e).__name__}: {str(e)[:300]}")
        tally.case(case_key(case), nontrivial=False, outcome=f"{case['cls']}:construction-raises")
        return obs

    # constants of the bounds (the first execution fixes the reference residual)
    z1, _ = sysm.reference(xs[0])
    e0 = float(np.abs(ALPHA["start"] - z1).max()) if sysm.dim else 0.0
    r0 = (1.0 + sysm.q) * (e0 + 1.0)
    max_iters, all_conv = 0, True
    for k, x in enumerate(xs):
        zref, ref_err = sysm.reference(x)
        try:
            before = _exec_counts(mda, nested)
            out = mda.execute({"x": np.array(x, dtype=float)})
            out = {kk: np.array(vv, dtype=float) for kk, vv in out.items() if kk in sysm.off or kk == "x"}
        except Exception as e:
            viol("execution-raises", case.get("inner", case["cls"]), f"run {k + 1}: {type(e).__name__}: {str(e)[:300]}")
            all_conv = False
            break
        reports, s_fac, failed, short = [], 1.0, None, False
        for name, m, decisive, later in [*_phases(mda, before), *[x for m_ in nested for x in _phases(m_, before)]]:
            if name == "MDAQuasiNewton":  # no convergence report exists: SciPy's documented criteria
                meth = str(m.settings.method)
                if meth in ("hybr", "lm"):
                    s = math.sqrt(max(1, sysm.n_c)) * (1.0 + float(np.abs(zref).max()))
                elif meth == "df-sane":
                    s = math.sqrt(max(1, sysm.n_c)) * (1.0 + r0)
                else:
                    s = r0
                rep, its = None, int(m.current_iter)
                if meth in ("broyden1", "broyden2") and m._current_iter >= m.settings.max_mda_iter:
                    # the Broyden callbacks count SciPy's iterations: maxiter exhausted is the only non-convergence signal of
                    # this class (the callback-fed normed_residual is scaled and normed differently from SciPy's own test)
                    if sysm.kind == "linear":  # premise of the alphabet: the method converges on linear systems
                        failed = failed or (f"{name}[{meth}]", float(m.normed_residual), its, m.settings.max_mda_iter, False)
                    elif decisive:  # no theory for SciPy's Broyden updates on the nonlinear kinds: nothing is claimed
                        short = True
            else:
                s = _s_factor(str(m.scaling), sysm.n_c, r0)
                rep, its = float(m.normed_residual), int(m._current_iter)
                # the phase that decides the returned data is held to the OUTER requested tolerance (what the property speaks
                # about); an earlier phase of a sequence only to its own
                if not rep <= (TOL if decisive else max(TOL, m.settings.tolerance)):
                    if m.settings.max_mda_iter >= MAX_ITER:
                        failed = failed or (name, rep, its, m.settings.max_mda_iter, later and decisive)
                    elif decisive:
                        # oracle boundary: a phase that was deliberately given a few iterations only (GS-Newton with
                        # max_mda_iter = 4, first phases of MDASequential) may legitimately exhaust them - its criterion is
                        # relative to its own, possibly tiny, first residual; nothing is then claimed about the data
                        short = True
            reports.append([name, rep, its, decisive])
            if decisive:
                s_fac = max(s_fac, s)
                max_iters = max(max_iters, its)
        deciders = "+".join(sorted({r[0] for r in reports if r[3]})) or "none"
        zmax = float(np.abs(zref).max()) if zref.size else 0.0  # rounding is relative to the size of the solution
        d_bound = (1.0 + sysm.q) * sysm.kappa * TOL * s_fac + 64 * EPS * (1.0 + zmax)
        e_bound = sysm.kappa * d_bound + ref_err
        assert e_bound <= 1.0, e_bound  # premise of r0 (an upstream group is within 1 of the solution)
        rec = {"run": k + 1, "x": list(x), "reports": reports, "converged": failed is None, "defect_bound": d_bound, "error_bound": e_bound}
        obs["runs"].append(rec)
        if failed is not None:
            all_conv = False
            stagnated = False
            if failed[4] and all(v in out and out[v].shape == (sysm.size[v],) for v in sysm.names):
                # oracle boundary: every stop criterion is relative to the sub-MDA's OWN first residual.  A later phase of a
                # sequence that starts (almost) on the solution - e.g. after an accelerated Jacobi phase that is exact on a small
                # linear system - is asked for 1e-10 of a residual that is already at rounding level: it stagnates there and
                # reports non-convergence.  What the property speaks about is the returned data: if they satisfy (i)-(iii) at the
                # bound of the OUTER tolerance, the run is counted, not reported.
                z_ = sysm.vec(out)
                stagnated = bool(np.all(np.abs(sysm.F(z_, x) - z_) <= d_bound) and np.all(np.abs(z_ - zref) <= e_bound))
            if stagnated:
                rec["converged"] = "later-phase-stagnated-at-rounding-level"
                tally.count("later_phase_stagnated_runs")
            else:
                viol("converges", failed[0], f"run {k + 1} (x={list(x)}): {failed[0]} stopped after {failed[2]} iterations with normed residual {failed[1]:.3e} "
                     f"> tolerance {TOL} on a system contracting with q={sysm.q:.3f} (max_mda_iter={failed[3]})")
            continue  # the premises of (i)-(iii) are gone
        if short:
            all_conv = False
            rec["converged"] = "budget-exhausted"
            tally.count("budget_exhausted_runs")
            continue
        missing = [v for v in sysm.names if v not in out]
        if missing or any(out[v].shape != (sysm.size[v],) for v in sysm.names if v in out):
            viol("returned-data-shape", deciders, f"run {k + 1}: missing {missing}; shapes {[(v, out[v].shape) for v in out]}")
            continue
        if not np.array_equal(out.get("x"), np.array(x, dtype=float)):
            viol("input-echoed-unchanged", deciders, f"run {k + 1}: x = {out.get('x')} vs {x}")
        z = sysm.vec(out)
        # (i) re-execution of each body on the returned data
        defect = np.abs(sysm.F(z, x) - z)
        rec["defect"] = float(defect.max()) if defect.size else 0.0
        if defect.size and not defect.max() <= d_bound:
            j = int(defect.argmax())
            v = next(v for v in sysm.names if sysm.off[v] <= j < sysm.off[v] + sysm.size[v])
            viol("re-execution-reproduces-outputs", deciders, f"run {k + 1} (x={list(x)}): re-executing D{vnode(v)} on the returned data gives {v} off by "
                 f"{defect.max():.3e} > bound {d_bound:.3e} (returned {out[v]}); reports={reports}")
        # (ii)/(iii) the configuration-independent reference
        err = np.abs(z - zref)
        rec["error"] = float(err.max()) if err.size else 0.0
        if err.size and not err.max() <= e_bound:
            j = int(err.argmax())
            v = next(v for v in sysm.names if sysm.off[v] <= j < sysm.off[v] + sysm.size[v])
            viol("equals-reference-solution", deciders, f"run {k + 1} (x={list(x)}): {v} = {out[v]} expected {sysm.unvec(zref)[v]} "
                 f"(|error| {err.max():.3e} > bound {e_bound:.3e}); reports={reports}")
    bucket = "<3" if max_iters < 3 else "<10" if max_iters < 10 else "<40" if max_iters < 40 else ">=40"
    outcome = f"{case['cls']}:{'converged' if all_conv else 'not-converged'}:it{bucket}"
    smp = None
    if case["n"] == 3 and len(case["edges"]) == 4 and not case["loops"] and case["order"] == [2, 0, 1]:
        smp = {"case": case, "runs": obs["runs"]}
    tally.case(case_key(case), nontrivial=all_conv and max_iters >= 3, outcome=outcome, sample=smp)
    return obs


def _case(case, tally):
    global POOLED
    t = Tally()
    run_case(case, t)
    if t.violations and POOLED:  # confirm on fresh harness objects before believing it
        POOLED = False
        try:
            t2 = Tally()
            run_case(case, t2)
        finally:
            POOLED = True
        if set(t2.violations) != set(t.violations):
            t2.violation({"invariant": "harness-pooling-changes-the-result"}, case, f"pooled: {sorted(t.violations)} fresh: {sorted(t2.violations)}")
        t = t2
    tally.merge(t)


# ------------------------------------------------------------------------------------------------
# enumeration
# ------------------------------------------------------------------------------------------------
TRANSFORMER_CLASSES = ("MDAJacobi", "MDAGaussSeidel", "MDANewtonRaphson", "MDAGSNewton", "MDAChain")


def axes_for(cls, n):
    # acc "default" = no acceleration_method passed: Alternate2Delta for (inner) Jacobi, NoTransformation otherwise
    orders = [list(p) for p in itertools.permutations(range(n))]
    ax = {}
    if cls == "MDAQuasiNewton":
        ax["method"] = list(QN_METHODS)
        ax["use_gradient"] = [False, True]
    if cls == "MDASequential":
        ax["sequence"] = list(SEQUENCES)
    if cls == "MDAChain":
        ax["inner"] = list(INNER)
        ax["par_tasks"] = [False, True]
        ax["sub_cs"] = [False, True]  # sub_coupling_structures: default | given by the user, one per inner MDA
    if cls in TRANSFORMER_CLASSES:
        ax["acc"] = ["default", *ACCELERATIONS]
        ax["omega"] = list(OMEGAS)
    if cls == "MDAGSNewton":
        ax["max_iter"] = [MAX_ITER, 4]
    ax["scaling"] = list(SCALINGS)
    ax["warm"] = [False, True]
    ax["order"] = orders
    ax["input"] = [0, 1, 2]
    ax["runs"] = ["once", "twice"]
    ax["sizes"] = list(SIZES)
    ax["kind"] = list(KINDS)
    if cls in ("MDAJacobi", "MDANewtonRaphson", "MDAQuasiNewton", "MDAChain"):
        ax["parallel"] = list(PARALLEL)
    return ax


def _finish(cls, n, edges, loops, c):
    """Resolve the defaults that depend on the (inner) solver class; None for combinations that do not exist in gemseo."""
    c = dict(c)
    acc, om = c.pop("acc", "default"), c.pop("omega", 1.0)
    solver = c.get("inner", cls) if cls == "MDAChain" else cls
    dacc = DEFAULT_ACC.get(solver, "NoTransformation")
    if acc == "default":
        acc = dacc
    elif acc == dacc:
        return None  # the same configuration as the default value of the axis
    if (solver == "MDAQuasiNewton" or (cls == "MDAChain" and solver == "MDAGSNewton")) and (acc, om) != ("NoTransformation", 1.0):
        return None  # quasi-Newton has no sequence transformer; a chain cannot pass one to an inner GS-Newton
    if cls == "MDAChain" and solver not in ("MDAJacobi", "MDANewtonRaphson", "MDAQuasiNewton") and c.get("parallel", "serial") != "serial":
        return None  # the inner class has no n_processes
    return {"cls": cls, "n": n, "edges": edges, "loops": loops, "acc": acc, "omega": om, **c}


def expand(cls, n, edges, loops, k, only_axes=None, transformer_product=False):
    """Every vector with <= k deviations (over ``only_axes`` if given); ``transformer_product``: in addition the whole
    acceleration x relaxation product of the composite transformer (2 deviations) when k < 2."""
    ax = axes_for(cls, n)
    if only_axes is not None:
        ax = {a: (v if a in only_axes else v[:1]) for a, v in ax.items()}
    for c in product.deviations(ax, k):
        if c["_deviations"] > 1 and c.get("parallel") == "processes":
            continue  # cap: every MDA iteration forks a process pool (~1 s per case); process-based execution is a single deviation only
        case = _finish(cls, n, edges, loops, c)
        if case is not None:
            yield case
    if transformer_product and k < 2 and cls in TRANSFORMER_CLASSES:
        full = axes_for(cls, n)
        base = {a: v[0] for a, v in full.items()}
        for acc in full["acc"][1:]:
            for om in full["omega"][1:]:
                case = _finish(cls, n, edges, loops, {**base, "acc": acc, "omega": om, "_deviations": 2})
                if case is not None:
                    yield case


def graph_sets(n):
    """(graphs per class, representatives per class)."""
    allg = list(graphs(n))
    strong = [(e, lp) for e, lp in allg if strongly_connected(n, [tuple(a) for a in e])]
    coupled = [(e, lp) for e, lp in allg if e or lp]
    sets = {cls: strong for cls in PLAIN}
    sets["MDAJacobi"] = coupled  # MDAJacobi resolves all the couplings when some disciplines are only weakly coupled
    sets["MDAChain"] = allg
    return sets, strong


def _gkey(e, lp):
    return (tuple(map(tuple, e)), tuple(lp))


def cases(thorough: bool):
    for n in (2, 3):
        sets, strong = graph_sets(n)
        strong_keys = {_gkey(e, lp) for e, lp in strong}
        for cls in [*PLAIN, "MDAChain"]:
            glist = sets[cls]
            rep_keys = {_gkey(e, lp) for e, lp in representatives(glist, n)}
            for e, lp in glist:
                is_rep = _gkey(e, lp) in rep_keys
                is_strong = _gkey(e, lp) in strong_keys
                # two deviations: plain solvers on strongly connected graphs; chains on the graphs where a chain differs
                # from its inner MDA (not one group covering every discipline) and that contain a loop to solve
                gc = graph_class(n, e, lp)
                deep = is_strong if cls != "MDAChain" else not (gc.startswith("one-group") or gc.startswith("acyclic"))
                if n == 2:
                    yield from expand(cls, n, e, lp, 2 if thorough and deep else 1, transformer_product=True)
                elif thorough:
                    if is_rep:
                        yield from expand(cls, n, e, lp, 2 if deep else 1, transformer_product=True)
                    else:
                        yield from expand(cls, n, e, lp, 1, only_axes={"order"})
                else:  # quick, n = 3: default vector on every labelled graph; on the representatives every listing order and
                    # (strongly connected / multi-component ones) the acceleration x relaxation product
                    if is_rep:
                        yield from expand(cls, n, e, lp, 1, only_axes={"order"},
                                          transformer_product=deep and cls in ("MDAJacobi", "MDAGaussSeidel"))
                    else:
                        yield from expand(cls, n, e, lp, 0)


def n_mda_groups(n, edges, loops):
    """Number of groups of the execution sequence that need an inner MDA (an SCC of several nodes, or a self-coupled node)."""
    scc = sccs(n, [tuple(e) for e in edges])
    return len({s for i, s in enumerate(scc) if len(s) > 1 or i in loops})


def sub_cs_cases(thorough: bool):
    """MDAChain with user-given ``sub_coupling_structures`` (everything else default) on EVERY labelled n = 3 graph with at
    least two groups needing an MDA - with weakly coupled groups scheduled before, between and after them, on the same and
    on different levels of the execution sequence.  (n = 2 and, in thorough, the representatives already get the axis from
    the deviation product.)"""
    n = 3
    allg = list(graphs(n))
    rep_keys = {_gkey(e, lp) for e, lp in representatives(allg, n)}
    base = {k: v[0] for k, v in axes_for("MDAChain", n).items()}
    for e, lp in allg:
        if n_mda_groups(n, e, lp) < 2 or (thorough and _gkey(e, lp) in rep_keys):
            continue
        yield _finish("MDAChain", n, e, lp, {**base, "sub_cs": True, "_deviations": 1})


def nested_cases(thorough: bool):
    """MDAChain whose nodes are process disciplines (see ``top_level_nodes``).

    Every ordered pair (a, b) of nodes that share at least one coupling (edge either way or a self-loop) is replaced by a
    sweep MDOChain([D_a, D_b]) - alone (n = 2), as a component of its own next to a weakly coupled / uncoupled third
    discipline, and inside a cycle with it - for every inner MDA class; every 2-cycle pair by a nested MDAJacobi /
    MDAGaussSeidel; every listing order of the top-level nodes.  quick: every n = 2 graph, the n = 3 isomorphism-class
    representatives (all 6 ordered pairs of each, which supplies the relabellings; nested MDAs: a < b), the other inner MDA
    classes on n = 2 and on the n = 3 graphs where the sweep is a component of its own (a < b, one listing order);
    thorough: every labelled n = 3 graph x every ordered pair x every inner MDA x every listing order."""
    for n in (2, 3):
        allg = list(graphs(n))
        glist = allg if (thorough or n == 2) else representatives(allg, n)
        base_axes = axes_for("MDAChain", n)
        base = {k: v[0] for k, v in base_axes.items()}
        for e, lp in glist:
            es = {tuple(x) for x in e}
            scc = sccs(n, list(es))
            for a, b in itertools.permutations(range(n), 2):
                inside = (a, b) in es or (b, a) in es or a in lp or b in lp
                if not inside:
                    continue
                rest = [k for k in range(n) if k not in (a, b)]
                own_component = all(scc[k] != scc[a] and scc[k] != scc[b] for k in rest)
                kinds = ["sweep"] + (["MDAJacobi", "MDAGaussSeidel"] if (a, b) in es and (b, a) in es else [])
                for kind in kinds:
                    if not thorough and n == 3 and kind != "sweep" and a > b:
                        continue  # quick: one member order for the nested MDAs
                    for inner in (INNER if kind == "sweep" else INNER[:1]):
                        orders = list(itertools.permutations(range(1 + len(rest))))
                        if inner != INNER[0] and not thorough and n == 3:
                            if not (own_component and a < b):
                                continue  # quick: the other inner MDA classes where the sweep is a component of its own
                            orders = orders[:1]
                        for order in orders:
                            c = _finish("MDAChain", n, e, lp, {**base, "inner": inner, "_deviations": int(inner != INNER[0])})
                            c["order"] = list(order)
                            c["wrap"] = {"kind": kind, "nodes": [a, b]}
                            yield c


def run(ctx):
    global ALPHA, POOLED
    ALPHA = ctx.pick(ALPHABETS)
    POOLED = True
    _gemseo()
    only = getattr(ctx, "only", None)
    todo = [c for c in [*cases(ctx.thorough), *sub_cs_cases(ctx.thorough), *nested_cases(ctx.thorough)] if not only or c["cls"] == only]
    ctx.tally.notes["nested_process_case_records"] = {
        k: sum(1 for c in todo if c.get("wrap") and f"{c['wrap']['kind']}:n{c['n']}" == k)
        for k in sorted({f"{c['wrap']['kind']}:n{c['n']}" for c in todo if c.get("wrap")})}
    counts = {}
    for c in todo:
        kk = f"{c['cls']}:n{c['n']}:dev{c['_deviations']}"
        counts[kk] = counts.get(kk, 0) + 1
    ctx.tally.notes["case_records"] = counts
    gcount = {}
    for n in (2, 3):
        allg = list(graphs(n))
        strong = [(e, lp) for e, lp in allg if strongly_connected(n, [tuple(a) for a in e])]
        gcount[f"n{n}"] = {"all": len(allg), "strongly_connected": len(strong), "classes_all": len(representatives(allg, n)),
                           "classes_strongly_connected": len(representatives(strong, n)),
                           "classes_multi_component": sum(1 for e, lp in representatives(allg, n)
                                                          if not graph_class(n, e, lp).startswith(("one-group", "acyclic")))}
    ctx.tally.notes["graphs"] = gcount
    todo.sort(key=lambda c: c["_deviations"])  # simplest first (violations keep the first case of a signature)
    pmap(_case, todo, ctx.tally, jobs=ctx.jobs, chunk=16, timeout=120)
    return {
        "level": LEVEL,
        "rule": "E2 deviation-bounded enumeration: (MDA class x coupling digraph) x every setting vector with <= k deviations from the "
        "class's defaults over the axes acceleration, relaxation factor, residual scaling, warm start, listing order, input point, "
        "once/twice, sizes, system kind, parallel execution and the class-specific axes (quasi-Newton method / gradient, GS-Newton "
        "budget, MDASequential sequence incl. sub-MDA tolerances looser / tighter than the outer one, inner MDA, parallel tasks and "
        "user-given sub_coupling_structures of MDAChain).  "
        + ("thorough: k = 2 on every n = 2 graph and on one representative per isomorphism class of the n = 3 graphs (chains: classes with "
           "more than one component; the others k = 1), every listing permutation of the default vector on every labelled n = 3 graph"
           if ctx.thorough else
           "quick: k = 1 on every n = 2 graph, the default vector on every labelled n = 3 graph, every listing permutation on the n = 3 "
           "representatives")
        + "; the acceleration x relaxation product of the composite transformer (n = 2, and the strongly connected n = 3 representatives: "
        + ("every class with a transformer" if ctx.thorough else "Jacobi and Gauss-Seidel") + ").  A case is non-trivial when every solver loop reported convergence and at least one ran >= 3 iterations "
        "(the update rule, not the first sweep, produced the returned point).  MDAChain with process disciplines as nodes: every ordered "
        "pair of coupled nodes replaced by a sweep MDOChain (x inner MDA class) or, for a 2-cycle, by a nested MDAJacobi / MDAGaussSeidel, "
        "x every listing order ("
        + ("every labelled graph" if ctx.thorough else "every n = 2 graph, the n = 3 isomorphism-class representatives")
        + "); user-given sub_coupling_structures on every labelled n = 3 graph with >= 2 groups needing an MDA",
        "exhaustive": True,
        "bounds": {"deviations": 2 if ctx.thorough else 1, "max_disciplines": 3, "sizes": [1, 2], "tolerance": TOL, "max_mda_iter": MAX_ITER,
                   "alphabet": ALPHA["name"], "process_based_execution": "as a single deviation only (every MDA iteration forks a process pool)",
                   "two_deviations_on_n3": "one representative per isomorphism class; the listing-order axis supplies the relabellings"},
        "assumptions": [
            "value alphabet: one coefficient table / start value / 3 input points per VERIF_SEED (4 alphabets); structural axes exhaustive within the bound",
            "one variable per edge, private self-loop variables, one shared input x, one non-coupling output per discipline",
            "systems contract globally in the max-norm with q <= 0.5 (asserted); tolerances derived from q, the scaling rule and the start point",
            "quasi-Newton: SciPy's own stopping rules (no convergence report exists), methods restricted to those converging on linear systems",
            "pairwise agreement (iii) is checked through the common configuration-independent reference",
        ],
    }


def replay(case, ctx):
    global ALPHA
    ALPHA = ctx.pick(ALPHABETS)
    t = Tally()
    obs = run_case(case, t)
    obs["case"] = case
    obs["signature"] = shape(case)
    return obs
