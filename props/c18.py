"""C18 - surrogate models are consistent with their own predictions and data (engine E2).

Five case families, all complete products of small structural axes (``mc.product.full`` sharded with
``mc.core.pmap``):

``reg``     regressor setting (every class of ``RegressorFactory`` that overrides ``_predict_jacobian`` x its
            discrete settings) x input pipeline x output pipeline x learning set.  Per case: 8 query points.
``tr``      transformer pipeline (length <= 2, thorough: <= 3) x data matrix (1/2 columns, constant columns).
``byname``  ``SurrogateDiscipline(<class name>, data, transformer, **settings)`` against a twin model built by the
            factory with the same arguments.
``hist``    3-step histories: learn; predict / predict_jacobian (8 query points + the learning inputs, recorded);
            compute a resampling-based quality measure (cross-validation, leave-one-out, bootstrap; fit_transformers on/off;
            stored sub-models or not; MSE/R2/RMSE/MAE/ME); observe again.  Every regressor class x 5 (thorough 7) transformer
            settings.  The observations must be bitwise unchanged (the model was not retrained) and the Jacobian must still be
            the derivative of the prediction.  Signature: invariant + resampling method + mechanism (were the model's
            transformers refitted in place?), not the regressor: the defect site is the resampler.

``fmt``     input formats: on learning sets with 2-3 named input variables of sizes 1-2 (declared in an order that is
            neither the model's alphabetical order nor its reverse; default and explicitly reversed input/output names),
            every public entry point accepting data (predict, predict_jacobian, MOE predict_class / predict_local_model,
            OTGPR predict_std / compute_samples, SurrogateDiscipline.execute / linearize) is called with (i) an array,
            (ii) a dict in model order, (iii) a dict in every other key order, (iv) dicts with an extra non-input entry,
            for one and for several samples: same values bitwise, same labels.  Transformers only take arrays.  Signature:
            entry point + format class (the defect site is a data formatter, not a regressor).

Composite regressors (MOE with ``set_regressor``/``add_regressor_candidate``, RegressorChain members) are also enumerated
with sub-models that have their OWN input/output transformers, crossed with the composite's transformer axis: the
composite's ``predict`` and Jacobian must go through the same (transformed) API of the sub-models.

Oracles (what the statement says, nothing more)

* J = ``predict_jacobian(x)`` against a Richardson-extrapolated central difference of the model's own ``predict``.
  On the equispaced stencil x + i*h*e_j, i = -4..4 (h_j = 2^-10 x the range of input j):

      D(kh) = (f(x+kh) - f(x-kh)) / (2kh),   R(h) = (4 D(h) - D(2h)) / 3,   R(2h) = (4 D(2h) - D(4h)) / 3

  R(h) has truncation error c h^4 f^(5); R(2h) has 16 c h^4 f^(5), so |R(h) - R(2h)| = 15 x the truncation error
  of the reference.  Rounding: the noise level sigma of ``predict`` itself is *measured* on the same stencil from its
  6th..8th differences (truncation h^k f^(k), k >= 6, is negligible; a k-th difference amplifies white noise by
  sqrt(C(2k,k))), and R(h) amplifies it by 0.95/h.  Tolerance (a-posteriori error estimate of the *reference*):

      tol = 10 |R(h) - R(2h)|  +  10 sigma / h  +  64 eps (max|f| + sum_j |R_j| |x_j|) / h

  The last term covers *structured* rounding of (nearly) linear maps, whose errors are correlated along the stencil and
  therefore invisible to the noise measurement: evaluating a linear form costs eps x the size of its terms.

  A comparison is only counted as non-trivial ("sharp") when tol <= 1e-5 x the derivative scale; otherwise the
  outcome is "reference-unreliable" (ill-conditioned predictor or a kink inside the stencil) and nothing is claimed.
* Interpolation: ``RBFRegressor``/``TPSRegressor`` with ``smooth=0`` (the only regressors documented as
  interpolating) reproduce the learning outputs.  Bound: the solve A w = y by LU with partial pivoting and the
  evaluation A w are backward stable, |A w - y| <= c N eps (|A|_inf |w|_inf + |y|); c = 32; mapped through the
  output transformer with a finite-difference Lipschitz bound of ``inverse_transform``, plus the *measured* round trip
  of the output transformer on the learning outputs (whether that round trip is acceptable is the business of the
  transformer family, not of this oracle).
* Lossless transformers: ``inverse_transform(transform(x)) = x`` within first-order propagated rounding: the error of
  t = T(x) (64 eps x the terms of its linearisation and the fitted magnitudes + 10 x the measured noise of T) through
  |J(T^-1)| (from differences of T^-1 *and* from |J(T)^-1|) + 10 x the measured noise of T^-1.  A point is only decided
  when this propagated rounding leaves 3 digits (otherwise "ill-conditioned", nothing claimed).
  ``compute_jacobian`` / ``compute_jacobian_inverse`` against the same Richardson differences of ``transform`` /
  ``inverse_transform``; any result that broadcasts to (n, k, k) is accepted (the empty Pipeline returns eye(k)).
* ``SurrogateDiscipline.execute`` / ``linearize`` are **bitwise** equal to ``predict`` / ``predict_jacobian`` of the
  wrapped model for the same dictionary input; dictionary and array forms of the model agree bitwise;
  ``linearization_mode`` is AUTO exactly when the model offers a Jacobian.

Oracle boundaries

* ``NotImplementedError`` from ``predict_jacobian`` is the documented way of saying "no derivative" (power transformers
  have no ``compute_jacobian``, per-variable transformers, soft MOE, non-Euclidean RBF norm, callable kernel without
  ``der_function``): accepted, counted as outcome, only the non-Jacobian oracles run.  ``SurrogateDiscipline`` then uses
  finite differences and its Jacobian is not compared.
* ``PCERegressor`` with an input transformer is rejected by its constructor (documented ``ValueError``), also through
  ``SurrogateDiscipline("PCERegressor", data)`` whose default transformer has one: accepted.
* ``PCERegressor`` forwards OpenTURNS' gradient, which is exact to about 6 digits only (see ``LIB_GRADIENT_RTOL``).
* A training run that dies inside the third-party library (OpenTURNS' LARS selecting an empty basis, kriging multi-start
  failing on constant transformed outputs) yields no fitted model: outcome, not violation.
* Box-Cox needs strictly positive data: it is removed from the alphabet of a group whose learning data (or, for
  inputs, query stencil) is not positive, and from every pipeline position that follows a member producing non-positive
  data; non-finite predictions (inverse Box-Cox outside its domain) make a query point uncheckable, not wrong.  Power
  transforms and whitening of constant columns are not lossless and not applicable.
* Power transforms of data with a small relative spread get extreme exponents and are numerically non-invertible
  (a whole stencil maps to one double): reported as ill-conditioned, never as a violation.
* MOE with hard classification is piecewise: query points whose stencil is not classified uniformly are skipped.
* A regressor chain / OpenTURNS kriging are not documented as interpolating: no interpolation oracle for them.
* Lossy reductions (PCA with fewer components than features) are outside the statement.
* How a ``Pipeline`` fits its members (each on the *untransformed* data) is not constrained by the statement.

When a case with transformers fails, the same case is re-run with the transformers removed (both, then each) and the
violations of the simplest configuration that still fails are reported; if only the full case fails, its transformers
are tested alone on the learning data and, when they break their own invariants, the failure is reported under the
transformer's signature.  The signature (regressor class + kernel/setting + transformer classes + invariant) therefore
names the defect site, and one defect gives a handful of signatures instead of one per product cell.
"""
from __future__ import annotations

import math

import numpy as np

from mc import product
from mc.core import digest, pmap

LEVEL = "exploration"
EPS = float(np.finfo(float).eps)
NQ = 8  # query points per case
OFFS = np.arange(-4, 5)  # equispaced stencil
SHARP = 1e-5  # a reference is "sharp" when its error estimate is below SHARP x derivative scale
# Oracle boundary: PCERegressor forwards the gradient of the OpenTURNS metamodel, and OpenTURNS (1.24) differentiates a
# 6-significant-digit rendering of the marginal (iso-probabilistic) transformation (dT/dx = 0.909091 for 1/1.1), so each
# column of the Jacobian carries a factor 1 +/- 5e-6.  That is the accuracy of a third-party gradient, not a wrong
# derivative in gemseo: entries within 1e-5 |entry| of the reference are accepted and *counted* (evidence counter
# "query_points_with_inexact_library_gradient"); every other regressor is held to the reference's own error estimate.
LIB_GRADIENT_RTOL = {"PCERegressor": 1e-5}

# ------------------------------------------------------------------------------------------------------------------
# value alphabets (three equally valid tables, rotated by VERIF_SEED; the table index is part of every case record)
# ------------------------------------------------------------------------------------------------------------------
TABLES = [
    {  # everything positive: Box-Cox valid on both sides
        "box": [(0.5, 2.5), (0.6, 2.2)],
        "f": [
            lambda x: 3.0 + np.sin(2.0 * x[:, 0]) + x[:, -1] ** 2,
            lambda x: 2.0 + x[:, 0] * x[:, -1] + 0.5 * x[:, 0],
        ],
    },
    {  # mixed signs on both sides (Box-Cox dropped), zero inside the input box
        "box": [(-1.0, 2.0), (-1.5, 1.0)],
        "f": [
            lambda x: np.cos(3.0 * x[:, 0]) + 0.5 * x[:, -1] - 0.2,
            lambda x: x[:, 0] * x[:, -1] ** 2 - 0.5 * x[:, 0] + 0.1,
        ],
    },
    {  # shifted / anisotropic inputs, large positive outputs
        "box": [(3.0, 5.0), (-2.0, 2.0)],
        "f": [
            lambda x: 100.0 + 10.0 * np.log(x[:, 0]) * (1.0 + 0.25 * x[:, -1] ** 2),
            lambda x: 40.0 + x[:, 0] ** 2 - 3.0 * x[:, -1] + np.sin(x[:, -1]),
        ],
    },
]

# name -> (input variables, output variables, number of learning points)
SETS = {
    "S1:x1->y1": ([("x", 1)], [("y", 1)], 10),
    "S2:x2->y1,z1": ([("x", 2)], [("y", 1), ("z", 1)], 16),
    "S3:a1,b1->y1": ([("a", 1), ("b", 1)], [("y", 1)], 14),
    "S4:x1->y2": ([("x", 1)], [("y", 2)], 9),
}
QUICK_SETS = ["S1:x1->y1", "S2:x2->y1,z1", "S3:a1,b1->y1"]
# learning sets of the input-format family: >= 2 named inputs of sizes 1-2, declared in an order that is neither the
# alphabetical one (the order IODataset and hence the model use) nor its reverse
FORMAT_SETS = {
    "F2:b1,a2->z1,y1": ([("b", 1), ("a", 2)], [("z", 1), ("y", 1)], 20),
    "F3:c1,a2,b1->y2": ([("c", 1), ("a", 2), ("b", 1)], [("y", 2)], 24),
}
SETS.update(FORMAT_SETS)


def _vdc(i: int, base: int) -> float:
    """Van der Corput radical inverse (deterministic, distinct, non-equispaced)."""
    v, f = 0.0, 1.0 / base
    while i:
        v += f * (i % base)
        i //= base
        f /= base
    return v


def make_set(table: int, name: str):
    """Learning inputs X (N, d), outputs Y (N, m), 8 query points Q away from X, steps h (d,)."""
    ins, outs, n = SETS[name]
    d = sum(s for _, s in ins)
    m = sum(s for _, s in outs)
    tab = TABLES[table]
    box = np.array([tab["box"][j % 2] for j in range(d)], dtype=float)
    lo, w = box[:, 0], box[:, 1] - box[:, 0]
    u = np.array([[_vdc(i + 1, b) for b in (2, 3, 5, 7)[:d]] for i in range(n)])
    x = lo + w * u
    y = np.column_stack([tab["f"][k](x) for k in range(m)])
    if d > 2:  # the tabulated functions read the first and last columns: couple the middle ones as well
        y = y + 0.3 * np.arange(1, m + 1) * ((x[:, 1:-1] ** 2).sum(1) * x[:, 0])[:, None]
    q, k = [], 0
    while len(q) < NQ:
        k += 1
        c = 0.08 + 0.84 * np.array([_vdc(k, b) for b in (5, 7, 11, 13)[:d]])
        if np.sqrt(((u - c) ** 2).sum(1)).min() >= 0.02:  # >= 5 stencil radii away from every learning point
            q.append(lo + w * c)
    h = w * 2.0**-10
    return {"ins": ins, "outs": outs, "X": x, "Y": y, "Q": np.array(q), "h": h, "lo": lo, "w": w}


def make_dataset(s):
    from gemseo.datasets.io_dataset import IODataset

    ds = IODataset(dataset_name="c18")
    off = 0
    for nm, sz in s["ins"]:
        ds.add_input_variable(nm, s["X"][:, off : off + sz].copy())
        off += sz
    off = 0
    for nm, sz in s["outs"]:
        ds.add_output_variable(nm, s["Y"][:, off : off + sz].copy())
        off += sz
    return ds


# ------------------------------------------------------------------------------------------------------------------
# transformer alphabet.  A pipeline spec is JSON: [] = no transformer, ["A"] = bare A, ["pipe", a, b, ...] =
# Pipeline([a, b, ...]) (an element may itself be a ["pipe", ...] list), ["var", "A"] = A on the first variable only.
# ------------------------------------------------------------------------------------------------------------------
ATOMS = ["MinMaxScaler", "StandardScaler", "YeoJohnson", "BoxCox", "PCA"]
EXTRA_ATOMS = ["Scaler", "PCAscale", "PCAwhiten", "YeoJohnsonRaw"]  # settings of the same classes
NO_JAC = {"YeoJohnson", "BoxCox", "YeoJohnsonRaw"}


def make_atom(name: str):
    from gemseo.mlearning.transformers.dimension_reduction.pca import PCA
    from gemseo.mlearning.transformers.power.boxcox import BoxCox
    from gemseo.mlearning.transformers.power.yeo_johnson import YeoJohnson
    from gemseo.mlearning.transformers.scaler.min_max_scaler import MinMaxScaler
    from gemseo.mlearning.transformers.scaler.scaler import Scaler
    from gemseo.mlearning.transformers.scaler.standard_scaler import StandardScaler

    return {
        "MinMaxScaler": MinMaxScaler,
        "StandardScaler": StandardScaler,
        "Scaler": lambda: Scaler(offset=0.3, coefficient=2.0),
        "YeoJohnson": YeoJohnson,
        "YeoJohnsonRaw": lambda: YeoJohnson(standardize=False),
        "BoxCox": BoxCox,
        "PCA": PCA,  # n_components=None: full rank
        "PCAscale": lambda: PCA(scale=True),
        "PCAwhiten": lambda: PCA(whiten=True),
    }[name]()


def make_transformer(spec):
    from gemseo.mlearning.transformers.pipeline import Pipeline

    if isinstance(spec, str):
        return make_atom(spec)
    if spec[0] == "pipe":
        return Pipeline(transformers=[make_transformer(a) for a in spec[1:]])
    assert len(spec) == 1, spec
    return make_atom(spec[0])


def spec_atoms(spec) -> list[str]:
    out = []
    for a in spec:
        if isinstance(a, list):
            out += spec_atoms(a)
        elif a not in ("pipe", "var"):
            out.append(a)
    return out


def spec_label(spec) -> str:
    if not spec:
        return "none"
    if spec[0] == "pipe":
        return "Pipeline[" + "+".join(spec_label(a) if isinstance(a, list) else a for a in spec[1:]) + "]"
    if spec[0] == "var":
        return f"first-variable:{spec[1]}"
    return spec[0]


def flat_atoms_ok(spec) -> bool:
    """Box-Cox is only applicable to strictly positive data: first member, or after positive affine maps only."""
    atoms = spec_atoms(spec)
    return all(a != "BoxCox" or all(b == "Scaler" for b in atoms[:i]) for i, a in enumerate(atoms))


def sampled(key) -> bool:
    """About 1 case in 64 is written to the evidence samples (the first 6 of them are kept)."""
    return digest(key)[0] < 4


POWER = ("YeoJohnson", "BoxCox")


def group_pipelines(thorough: bool) -> tuple[list[list], list[list]]:
    """Per-group alphabet, split in (short, length-2): every pipeline of length <= 2 over ATOMS, bare and wrapped.

    quick drops the length-2 pipelines with two power transforms or a power transform in second position (they offer no
    Jacobian, so they only feed the non-Jacobian oracles); thorough keeps all of them.
    """
    short: list[list] = [[]]
    short += [[a] for a in ATOMS]
    short += [["Scaler"], ["PCAscale"], ["PCAwhiten"]]
    short += [["pipe"], ["pipe", "MinMaxScaler"], ["pipe", ["pipe", "MinMaxScaler"], "PCA"]]
    short += [["var", "MinMaxScaler"], ["var", "PCA"]]
    long = [["pipe", a, b] for a in ATOMS for b in ATOMS if thorough or b not in POWER]
    return [p for p in short if flat_atoms_ok(p)], [p for p in long if flat_atoms_ok(p)]


def transformer_pairs(thorough: bool) -> list[tuple[list, list]]:
    """(input pipeline, output pipeline), simplest first.

    quick: at most one transformed group (every pipeline), plus both groups with the same single transformer and a few
    mixed pairs.  thorough: the complete in x out product of the short pipelines (length <= 1, wrappers, per-variable),
    every length-2 pipeline against {none, MinMaxScaler, PCA, YeoJohnson} on the other group (both ways), and every
    length-2 pipeline on both groups at once.
    """
    short, long = group_pipelines(thorough)
    p = short + long
    pairs = [([], [])] + [(a, []) for a in p[1:]] + [([], a) for a in p[1:]]
    if thorough:
        other = [["MinMaxScaler"], ["PCA"], ["YeoJohnson"]]
        pairs += [(a, b) for a in short[1:] for b in short[1:]]
        pairs += [(a, b) for a in long for b in other] + [(b, a) for a in long for b in other]
        pairs += [(a, a) for a in long]
    else:
        pairs += [(a, a) for a in [[a] for a in ATOMS] + [["PCAscale"]]]
        pairs += [(a, b) for a in (["MinMaxScaler"], ["PCA"]) for b in (["StandardScaler"], ["pipe", "StandardScaler", "PCA"])]
    return pairs


# ------------------------------------------------------------------------------------------------------------------
# regressor alphabet
# ------------------------------------------------------------------------------------------------------------------
RBF_KERNELS = ["multiquadric", "inverse_multiquadric", "gaussian", "linear", "cubic", "quintic", "thin_plate"]


def regressor_settings(thorough: bool) -> list[dict]:
    """Every regressor with derivatives x its discrete settings; ``sig`` is the signature part (kernel/setting)."""
    r: list[dict] = []

    def add(cls, settings=None, sig=None, **extra):
        settings = settings or {}
        label = ",".join(f"{k}={v}" for k, v in settings.items()) or "default"
        for k, v in extra.items():
            label += f";{k}={v}"
        r.append({"cls": cls, "settings": settings, "label": label, "sig": sig or label, **extra})

    add("LinearRegressor")
    add("LinearRegressor", {"fit_intercept": False})
    add("LinearRegressor", {"penalty_level": 0.1})  # ridge
    add("LinearRegressor", {"penalty_level": 0.1, "l2_penalty_ratio": 0.0})  # lasso
    add("LinearRegressor", {"penalty_level": 0.1, "l2_penalty_ratio": 0.5})  # elastic net
    for deg in (1, 2, 3) + ((4,) if thorough else ()):
        add("PolynomialRegressor", {"degree": deg})
    add("PolynomialRegressor", {"degree": 2, "fit_intercept": False})
    add("PolynomialRegressor", {"degree": 2, "penalty_level": 0.1})
    add("PolynomialRegressor", {"degree": 2, "penalty_level": 0.1, "l2_penalty_ratio": 0.0})
    add("PolynomialRegressor", {"degree": 2, "penalty_level": 0.1, "l2_penalty_ratio": 0.5})
    for fn in RBF_KERNELS:
        for eps in (1.0, 0.5, None):  # None: SciPy's default (average distance), what users get
            add("RBFRegressor", {"function": fn, "epsilon": eps}, sig=f"function={fn}")
    add("RBFRegressor", {"function": "multiquadric", "epsilon": 0.5, "smooth": 0.1}, sig="function=multiquadric,smooth")
    add("RBFRegressor", {"function": "cubic", "epsilon": 0.5, "smooth": 0.1}, sig="function=cubic,smooth")
    add("RBFRegressor", {"epsilon": 0.5}, sig="function=callable", callable="multiquadric")
    add("RBFRegressor", {"epsilon": 0.5}, sig="function=callable-without-derivative", callable="no-derivative")
    add("RBFRegressor", {"function": "gaussian", "norm": "cityblock"}, sig="norm=cityblock")
    for eps in (1.0, 0.5, None):
        add("TPSRegressor", {"epsilon": eps}, sig="function=thin_plate")
    add("TPSRegressor", {"epsilon": 0.5, "smooth": 0.1}, sig="function=thin_plate,smooth")
    for deg in (1, 2, 3):
        add("PCERegressor", {"degree": deg}, pspace="uniform")
    add("PCERegressor", {"degree": 2, "use_lars": True}, pspace="uniform")
    add("PCERegressor", {"degree": 2, "use_cleaning": True}, pspace="uniform")
    add("PCERegressor", {"degree": 3, "hyperbolic_parameter": 0.5}, pspace="uniform")
    add("PCERegressor", {"degree": 2}, pspace="normal")
    add("MOERegressor", {"hard": True}, moe=[2, "LinearRegressor", {}])
    add("MOERegressor", {"hard": True}, moe=[2, "PolynomialRegressor", {"degree": 2}])
    add("MOERegressor", {"hard": True}, moe=[2, "RBFRegressor", {"function": "gaussian", "epsilon": 0.5}])
    add("MOERegressor", {"hard": True}, moe=[3, "LinearRegressor", {}])
    add("MOERegressor", {"hard": False}, moe=[2, "LinearRegressor", {}])
    # composite models delegating to sub-models that have their OWN transformers (4th element: {"in": spec, "out": spec}):
    # the composite's predict and Jacobian must go through the same (transformed) sub-model API
    sc = {"in": ["Scaler"], "out": ["Scaler"]}
    add("MOERegressor", {"hard": True}, sig="local-transformers", moe=[2, "PolynomialRegressor", {"degree": 2}, sc])
    add("MOERegressor", {"hard": True}, sig="local-transformers", moe=[2, "LinearRegressor", {}, {"in": ["MinMaxScaler"], "out": []}])
    add("MOERegressor", {"hard": True}, sig="local-transformers", moe=[2, "RBFRegressor", {"function": "gaussian", "epsilon": 0.5}, {"in": ["PCA"], "out": ["PCA"]}])
    if thorough:
        add("MOERegressor", {"hard": True}, sig="local-transformers", moe=[2, "LinearRegressor", {}, {"in": [], "out": ["StandardScaler"]}])
        add("MOERegressor", {"hard": True}, sig="local-transformers", moe=[2, "PolynomialRegressor", {"degree": 2}, {"in": ["pipe", "MinMaxScaler", "PCA"], "out": ["MinMaxScaler"]}])
        add("MOERegressor", {"hard": True}, sig="local-transformers", moe=[3, "LinearRegressor", {}, {"in": ["StandardScaler"], "out": ["MinMaxScaler"]}])
        add("MOERegressor", {"hard": True}, sig="local-transformers,no-jacobian", moe=[2, "LinearRegressor", {}, {"in": [], "out": ["YeoJohnson"]}])
        add("MOERegressor", {"hard": True}, sig="local-transformers,candidates", moe_candidates=[2, ["LinearRegressor", {}, {}], ["PolynomialRegressor", {"degree": [2]}, sc]])
    add("RegressorChain", chain=[["LinearRegressor", {}]])
    add("RegressorChain", chain=[["LinearRegressor", {}], ["RBFRegressor", {"function": "gaussian"}]])
    add("RegressorChain", chain=[["PolynomialRegressor", {"degree": 2}], ["RBFRegressor", {"function": "cubic", "epsilon": 0.5}]])
    add("RegressorChain", chain=[["RBFRegressor", {"function": "multiquadric"}], ["LinearRegressor", {}]])
    add("RegressorChain", sig="member-transformers", chain=[["LinearRegressor", {}, {"in": ["MinMaxScaler"], "out": []}], ["RBFRegressor", {"function": "gaussian"}, {"in": ["StandardScaler"], "out": ["MinMaxScaler"]}]])
    add("RegressorChain", sig="member-transformers", chain=[["PolynomialRegressor", {"degree": 2}, {"in": ["PCA"], "out": ["Scaler"]}]])
    add("OTGaussianProcessRegressor")
    add("OTGaussianProcessRegressor", {"covariance_model": "SquaredExponential"})
    add("OTGaussianProcessRegressor", {"covariance_model": "Matern32"})
    add("OTGaussianProcessRegressor", {"trend": "linear"})
    if thorough:
        add("OTGaussianProcessRegressor", {"trend": "quadratic", "multi_start_n_samples": 1})
    return r


_FACTORY = None


def factory():
    global _FACTORY
    if _FACTORY is None:
        from gemseo.mlearning.regression.algos.factory import RegressorFactory

        _FACTORY = RegressorFactory()
    return _FACTORY


def classes_with_jacobian() -> list[str]:
    from gemseo.mlearning.regression.algos.base_regressor import BaseRegressor

    f = factory()
    return sorted(n for n in f.class_names if f.get_class(n)._predict_jacobian is not BaseRegressor._predict_jacobian)


def _mq(self, r):  # documented example of a callable kernel
    return np.sqrt((r / self.epsilon) ** 2 + 1)


def _der_mq(x, nx, eps):  # documented convention: eps^-1 x/|x| f'(|x|/eps)
    return x / eps**2 / np.sqrt((nx / eps) ** 2 + 1)


def probability_space(kind: str, s):
    from gemseo.algos.parameter_space import ParameterSpace

    ps = ParameterSpace()
    off = 0
    for nm, sz in s["ins"]:
        lo, w = s["lo"][off : off + sz], s["w"][off : off + sz]
        if kind == "uniform":
            ps.add_random_vector(nm, "OTUniformDistribution", size=sz, minimum=list(lo - 0.05 * w), maximum=list(lo + 1.05 * w))
        else:
            ps.add_random_vector(nm, "OTNormalDistribution", size=sz, mu=list(lo + 0.5 * w), sigma=list(0.3 * w))
        off += sz
    return ps


def transformer_dict(case, s) -> dict:
    tr = {}
    for key, spec, names in (("inputs", case["tin"], s["ins"]), ("outputs", case["tout"], s["outs"])):
        if not spec:
            continue
        if spec[0] == "var":
            tr[names[0][0]] = make_atom(spec[1])
        else:
            tr[key] = make_transformer(spec)
    return tr


def build_model(case, s, dataset=None):
    """The fitted regressor of a ``reg`` case (a fresh dataset unless one is given)."""
    reg = case["reg"]
    settings = dict(reg["settings"])
    if settings.get("epsilon", 0) is None:
        del settings["epsilon"]
    if reg.get("callable"):
        settings["function"] = _mq
        if reg["callable"] == "multiquadric":
            settings["der_function"] = _der_mq
    if reg.get("pspace"):
        settings["probability_space"] = probability_space(reg["pspace"], s)
    ds = dataset if dataset is not None else make_dataset(s)
    if case.get("names") == "reversed":  # explicit names, in the reverse of the dataset's (alphabetical) order
        settings["input_names"] = list(reversed(ds.get_variable_names(ds.INPUT_GROUP)))
        settings["output_names"] = list(reversed(ds.get_variable_names(ds.OUTPUT_GROUP)))
    model = factory().create(reg["cls"], data=ds, transformer=transformer_dict(case, s), **settings)
    if reg.get("moe"):
        k, name, kw, *sub = reg["moe"]
        model.set_clusterer("KMeans", n_clusters=k)
        model.set_regressor(name, **kw, **sub_transformer(sub))
    if reg.get("moe_candidates"):
        k, *cands = reg["moe_candidates"]
        model.set_clusterer("KMeans", n_clusters=k)
        for name, kw, sub in cands:
            tr = sub_transformer([sub])
            model.add_regressor_candidate(name, **({"transformer": [tr["transformer"]]} if tr else {}), **kw)
    for name, kw, *sub in reg.get("chain", ()):
        model.add_algo(name, **kw, **sub_transformer(sub))
    model.learn()
    return model


def sub_transformer(sub) -> dict:
    """``{"transformer": {...}}`` for a sub-model of a composite regressor (empty when it has none)."""
    if not sub or not (sub[0].get("in") or sub[0].get("out")):
        return {}
    return {"transformer": {key: make_transformer(sub[0][k]) for k, key in (("in", "inputs"), ("out", "outputs")) if sub[0].get(k)}}


def sub_atoms(reg) -> list[str]:
    """Transformer atoms of the sub-models of a composite setting."""
    subs = [x[3] for x in (reg.get("moe"),) if x and len(x) > 3]
    subs += [c[2] for c in reg.get("moe_candidates", [0])[1:] if len(c) > 2]
    subs += [c[2] for c in reg.get("chain", ()) if len(c) > 2]
    return [a for sdict in subs for k in ("in", "out") for a in spec_atoms(sdict.get(k) or [])]


# ------------------------------------------------------------------------------------------------------------------
# the reference: Richardson-extrapolated central differences with an a-posteriori error estimate
# ------------------------------------------------------------------------------------------------------------------
_NOISE = []
for _k in (6, 7, 8):
    _c = np.array([(-1.0) ** i * math.comb(_k, i) for i in range(_k + 1)])
    _NOISE.append((_k, _c, math.sqrt(math.comb(2 * _k, _k))))


def stencil(q: np.ndarray, h: np.ndarray) -> np.ndarray:
    """Points q[p] + OFFS[i] * h[j] * e_j, shape (nq, d, 9, d)."""
    nq, d = q.shape
    pts = np.broadcast_to(q[:, None, None, :], (nq, d, OFFS.size, d)).copy()
    for j in range(d):
        pts[:, j, :, j] = q[:, j, None] + OFFS[None, :] * h[j]
    return pts


def richardson(fun, q: np.ndarray, h: np.ndarray):
    """Reference Jacobian of ``fun`` ((n, d) -> (n, m)) at the rows of q.

    Returns (ref, tol, scale, finite, noise) with ref/tol shaped (nq, m, d), scale (nq,) the derivative scale used to
    decide whether the reference is sharp, finite (nq,) False where ``fun`` is not finite on the stencil, noise (nq, m)
    the measured rounding noise of ``fun`` itself.
    """
    nq, d = q.shape
    pts = stencil(q, h)
    vals = np.asarray(fun(pts.reshape(-1, d)), dtype=float)
    m = vals.shape[-1]
    vals = vals.reshape(nq, d, OFFS.size, m)
    finite = np.isfinite(vals).all(axis=(1, 2, 3))
    vals = np.where(np.isfinite(vals), vals, 0.0)
    ref = np.zeros((nq, m, d))
    est = np.zeros((nq, m, d))  # truncation + measured noise, per entry
    hs = np.zeros((nq, d))
    noise = np.zeros((nq, m))
    fmax = np.abs(vals).max(axis=(1, 2, 3))
    for j in range(d):
        v = vals[:, j]  # (nq, 9, m)
        x = pts[:, j, :, j]  # (nq, 9) the coordinates actually used

        def cd(k):
            return (v[:, 4 + k] - v[:, 4 - k]) / (x[:, 4 + k] - x[:, 4 - k])[:, None]

        d1, d2, d4 = cd(1), cd(2), cd(4)
        r1, r2 = (4 * d1 - d2) / 3, (4 * d2 - d4) / 3
        sigma = np.zeros_like(r1)
        for k, c, amp in _NOISE:
            for start in range(OFFS.size - k):
                sigma = np.maximum(sigma, np.abs(np.tensordot(v[:, start : start + k + 1], c, axes=([1], [0]))) / amp)
        hs[:, j] = (x[:, 5] - x[:, 3]) / 2
        noise = np.maximum(noise, sigma)
        ref[:, :, j] = r1
        est[:, :, j] = 10 * np.abs(r1 - r2) + 10 * sigma / hs[:, j, None]
    # structured rounding (not visible as noise): evaluating f near x costs at least eps x the size of the terms of its
    # linearisation, |f| + sum_j |df/dx_j| |x_j| (conditioning of a linear form); 64 = a few operations per stage
    xmax = np.abs(pts).max(axis=(1, 2))  # (nq, d)
    terms = np.abs(vals).max(axis=(1, 2)) + (np.abs(ref) * xmax[:, None, :]).sum(-1)  # (nq, m)
    tol = est + 64 * EPS * terms[:, :, None] / hs[:, None, :]
    scale = np.maximum(np.abs(ref).max(axis=(1, 2)), fmax / (np.abs(h).max() * 2.0**10))
    return ref, tol, scale, finite, noise


def compare_jacobian(jac, ref, tol, what: str):
    """First violating entry of |jac - ref| <= tol, as a message (None when consistent)."""
    jac = np.asarray(jac, dtype=float)
    if jac.shape != ref.shape:
        return "shape", f"{what}: shape {jac.shape}, expected {ref.shape}"
    bad = ~(np.abs(jac - ref) <= tol)
    if bad.any():
        i = tuple(int(v) for v in np.argwhere(bad)[0])
        return "value", (
            f"{what}: entry {i} is {jac[i]!r}, differences of the model's own predictions give {ref[i]!r} "
            f"+/- {tol[i]:.2e} (relative error {abs(jac[i] - ref[i]) / max(abs(ref[i]), 1e-300):.2e}); "
            f"{int(bad.sum())} of {bad.size} entries differ"
        )
    return None


def lipschitz(fun, t: np.ndarray, delta: np.ndarray) -> np.ndarray:
    """|d fun_i / d t_k| at the rows of t by plain central differences -> (n, m, k)."""
    n, k = t.shape
    cols = []
    for j in range(k):
        e = np.zeros(k)
        e[j] = delta[j]
        cols.append(np.abs(np.asarray(fun(t + e)) - np.asarray(fun(t - e))) / (2 * delta[j]))
    return np.stack(cols, axis=-1)


# ------------------------------------------------------------------------------------------------------------------
# family "reg"
# ------------------------------------------------------------------------------------------------------------------
def boxcox_valid(table: int, set_name: str) -> tuple[bool, bool]:
    s = make_set(table, set_name)
    return bool((s["lo"] > 0).all()), bool((s["Y"] > 0).all())


def reg_label(case) -> str:
    return f"in={spec_label(case['tin'])};out={spec_label(case['tout'])}"


def third_party_training_failure(e: BaseException) -> bool:
    """Oracle boundary: the statement is about fitted models.

    A training run that dies *inside the third-party library* (OpenTURNS' LARS selecting an empty basis, its kriging
    optimiser failing on a degenerate data set) yields no model: counted as an outcome, not a violation.  An exception
    raised by gemseo's own code is still a violation ("raises").
    """
    import traceback

    frames = traceback.extract_tb(e.__traceback__)
    return "/gemseo/" not in frames[-1].filename and any(f.name == "learn" for f in frames)


def check_reg(case, res) -> None:
    """Run every oracle on one ``reg`` case; fills res = {"violations": [(invariant, message)], "outcome", "sharp", "obs"}."""
    from gemseo.disciplines.surrogate import SurrogateDiscipline

    s = make_set(case["table"], case["set"])
    viol = res["violations"]
    reg = case["reg"]
    ins, outs = s["ins"], s["outs"]
    d, m = s["X"].shape[1], s["Y"].shape[1]
    try:
        model = build_model(case, s)
    except ValueError as e:
        if reg["cls"] == "PCERegressor" and "does not support input transformers" in str(e):
            res["outcome"] = "rejected:PCE-with-input-transformer"  # documented
            return
        raise
    except Exception as e:  # noqa: BLE001
        if third_party_training_failure(e):
            res["outcome"] = f"training-failed-in-third-party({type(e).__name__})"
            res["obs"]["training_error"] = str(e)[:200]
            return
        raise
    x_learn, y_learn, q, h = s["X"], s["Y"], s["Q"], s["h"]

    def as_dict(row):
        out, off = {}, 0
        for nm, sz in ins:
            out[nm] = np.array(row[off : off + sz])
            off += sz
        return out

    # -- Jacobian availability -------------------------------------------------------------------------------
    try:
        jac_batch = model.predict_jacobian(q.copy())
        available = True
    except NotImplementedError as e:
        available = False
        res["obs"]["jacobian"] = f"NotImplementedError: {str(e)[:80]}"
    expected_unavailable = (
        bool(set(spec_atoms(case["tin"]) + spec_atoms(case["tout"])) & NO_JAC)
        or (case["tin"] and case["tin"][0] == "var")
        or (case["tout"] and case["tout"][0] == "var")
        or (reg["cls"] == "MOERegressor" and not reg["settings"].get("hard", True))
        or (reg["cls"] == "MOERegressor" and bool(set(sub_atoms(reg)) & NO_JAC))
        or reg["settings"].get("norm", "euclidean") != "euclidean"
        or reg.get("callable") == "no-derivative"
    )
    if not available and not expected_unavailable:
        viol.append(("jacobian-unavailable", f"predict_jacobian raised {res['obs']['jacobian']} although every part offers derivatives"))

    # -- J vs differences of predict -------------------------------------------------------------------------
    n_checked = n_sharp = n_skipped = 0
    if available:
        ref, tol_strict, scale, finite, _ = richardson(lambda p: model.predict(p), q, h)
        tol = tol_strict + LIB_GRADIENT_RTOL.get(reg["cls"], 0.0) * np.abs(ref)
        usable = finite.copy()
        if reg["cls"] == "MOERegressor":  # piecewise model: the stencil must stay inside one class
            cls_c = np.asarray(model.predict_class(q.copy())).reshape(NQ)
            cls_s = np.asarray(model.predict_class(stencil(q, h).reshape(-1, d))).reshape(NQ, -1)
            usable &= (cls_s == cls_c[:, None]).all(axis=1)
        n_skipped = int((~usable).sum())
        jb = np.asarray(jac_batch, dtype=float)
        if jb.shape != (NQ, m, d):
            viol.append(("jacobian-shape", f"predict_jacobian of {NQ} samples has shape {jb.shape}, expected {(NQ, m, d)}"))
        elif usable.any():
            r = compare_jacobian(jb[usable], ref[usable], tol[usable], f"predict_jacobian(2-D array), query points {q[usable].tolist()}")
            if r:
                viol.append(("jacobian-vs-differences", r[1]))
        for p in np.flatnonzero(usable)[:2]:  # single-sample form
            j1 = np.asarray(model.predict_jacobian(q[p].copy()), dtype=float)
            if j1.shape != (m, d):
                viol.append(("jacobian-shape", f"predict_jacobian of one sample has shape {j1.shape}, expected {(m, d)}"))
                break
            r = compare_jacobian(j1[None], ref[p : p + 1], tol[p : p + 1], f"predict_jacobian(1-D array) at {q[p].tolist()}")
            if r:
                viol.append(("jacobian-vs-differences", r[1]))
                break
        sharp = usable & ((tol.max(axis=(1, 2)) <= SHARP * scale))
        n_checked, n_sharp = int(usable.sum()), int(sharp.sum())
        if reg["cls"] in LIB_GRADIENT_RTOL and jb.shape == ref.shape:
            res["obs"]["points_inexact_library_gradient"] = int((usable & ~(np.abs(jb - ref) <= tol_strict).all(axis=(1, 2))).sum())
        res["obs"]["max_rel_tol"] = float((tol.max(axis=(1, 2)) / scale)[usable].max()) if usable.any() else None

    # -- interpolation ------------------------------------------------------------------------------------------
    if reg["cls"] in ("RBFRegressor", "TPSRegressor") and reg["settings"].get("smooth", 0.0) == 0.0:
        pred = np.asarray(model.predict(x_learn.copy()), dtype=float)
        rbf = model.algo
        w = np.atleast_2d(np.asarray(rbf.nodes, dtype=float).reshape(len(x_learn), -1))
        a_norm = np.abs(rbf.A).sum(axis=1).max()
        n = len(x_learn)
        # transformed-space residual bound, per transformed output component
        xt = x_learn.copy()
        if "inputs" in model.transformer:
            xt = model.transformer["inputs"].transform(xt)
        elif case["tin"] and case["tin"][0] == "var":
            nm, sz = ins[0]
            xt = np.hstack([model.transformer[nm].transform(xt[:, :sz]), xt[:, sz:]])
        yt = np.asarray(model.predict_raw(xt), dtype=float)
        bound_t = 32 * n * EPS * (a_norm * np.abs(w).max(axis=0) + np.abs(yt).max(axis=0) + np.abs(np.atleast_1d(model.y_average)))
        inv = None
        if "outputs" in model.transformer:
            inv = model.transformer["outputs"].inverse_transform
        elif case["tout"] and case["tout"][0] == "var":
            nm, sz = outs[0]
            tr0 = model.transformer[nm]
            inv = lambda t: np.hstack([tr0.inverse_transform(t[:, :sz]), t[:, sz:]])  # noqa: E731
        if inv is None:
            tol_i = np.broadcast_to(bound_t, pred.shape) + 32 * EPS * np.abs(y_learn)
        else:
            # pred - y = [T^-1(raw prediction) - T^-1(T(y))] + [T^-1(T(y)) - y]: the first bracket is the residual of the
            # solve mapped through T^-1 (Lipschitz bound by differences), the second is the round trip of the output
            # transformer on the learning outputs, *measured* here and judged by the transformer family, not by this oracle
            if "outputs" in model.transformer:
                fwd_y = model.transformer["outputs"].transform(y_learn.copy())
            else:
                fwd_y = np.hstack([tr0.transform(y_learn[:, :sz].copy()), y_learn[:, sz:]])
            round_trip = np.abs(np.asarray(inv(fwd_y), dtype=float) - y_learn)
            delta = 1e-6 * np.maximum(np.abs(yt).max(axis=0), 1e-3)
            lip = lipschitz(inv, yt, delta)  # (n, m, k)
            tol_i = 2 * (lip * bound_t[None, None, :]).sum(-1) + 32 * EPS * (np.abs(y_learn) + (lip * np.abs(yt)[:, None, :]).sum(-1)) + 2 * round_trip
        fin = np.isfinite(pred) & np.isfinite(tol_i)
        bad = fin & ~(np.abs(pred - y_learn) <= tol_i)
        res["obs"]["interpolation_residual"] = float(np.abs(pred - y_learn)[fin].max()) if fin.any() else None
        if pred.shape != y_learn.shape:
            viol.append(("interpolation", f"predict(learning inputs) has shape {pred.shape}, expected {y_learn.shape}"))
        elif bad.any():
            i = tuple(int(v) for v in np.argwhere(bad)[0])
            viol.append(("interpolation", f"smooth=0 but predict(x_learn[{i[0]}])[{i[1]}] = {pred[i]!r}, learning output {y_learn[i]!r} (|difference| {abs(pred[i] - y_learn[i]):.2e} > derived bound {tol_i[i]:.2e})"))

    # -- dictionary form and surrogate discipline ---------------------------------------------------------------
    disc = SurrogateDiscipline(model)
    mode = str(disc.linearization_mode)
    want = "auto" if available else "finite_differences"
    if mode.lower() != want:
        viol.append(("surrogate-linearization-mode", f"linearization_mode={mode}, predict_jacobian available={available}"))
    for p in case.get("disc_points", [0, 3, 7]):
        xin = as_dict(q[p])
        pa = np.asarray(model.predict(q[p].copy()))
        pd = model.predict({k: v.copy() for k, v in xin.items()})
        cat = np.concatenate([np.asarray(pd[nm]).ravel() for nm, _ in outs])
        if not np.array_equal(cat, pa.ravel(), equal_nan=True):
            viol.append(("dict-vs-array", f"predict(dict) = {cat.tolist()} but predict(array) = {pa.tolist()} at {q[p].tolist()}"))
        out = disc.execute({k: v.copy() for k, v in xin.items()})
        for nm, sz in outs:
            got, exp = np.asarray(out[nm]), np.asarray(pd[nm]).flatten()
            if got.shape != (sz,) or not np.array_equal(got, exp, equal_nan=True):
                viol.append(("surrogate-execute-exact", f"execute({ {k: v.tolist() for k, v in xin.items()} })[{nm!r}] = {got.tolist()}, model.predict gives {exp.tolist()}"))
        if not available:
            continue
        ja = np.asarray(model.predict_jacobian(q[p].copy()))
        jd = model.predict_jacobian({k: v.copy() for k, v in xin.items()})
        jl = disc.linearize({k: v.copy() for k, v in xin.items()}, compute_all_jacobians=True)
        ro = 0
        for on, osz in outs:
            co = 0
            for inn, isz in ins:
                blk = np.asarray(jd[on][inn])
                if ja.shape == (m, d) and not np.array_equal(blk, ja[ro : ro + osz, co : co + isz], equal_nan=True):
                    viol.append(("dict-vs-array", f"predict_jacobian(dict)[{on!r}][{inn!r}] = {blk.tolist()} but the array form gives {ja[ro:ro + osz, co:co + isz].tolist()}"))
                got = np.asarray(jl[on][inn])
                if got.shape != (osz, isz) or not np.array_equal(got, blk, equal_nan=True):
                    viol.append(("surrogate-linearize-exact", f"linearize at {q[p].tolist()}: jac[{on!r}][{inn!r}] = {got.tolist()} (shape {got.shape}), model.predict_jacobian gives {blk.tolist()} (shape {blk.shape})"))
                co += isz
            ro += osz

    if not available:
        res["outcome"] = "jacobian-unavailable(NotImplementedError)"
    elif n_checked == 0:
        res["outcome"] = "no-usable-query-point"
    elif n_sharp == n_checked:
        res["outcome"] = "jacobian-checked-sharp" + ("" if not n_skipped else "(some points skipped)")
    elif n_sharp:
        res["outcome"] = "jacobian-checked-partly-sharp"
    else:
        res["outcome"] = "reference-unreliable"
    res["sharp"] = bool(n_sharp)
    res["obs"].update(points_checked=n_checked, points_sharp=n_sharp, points_skipped=n_skipped, linearization_mode=mode)


def _safe_check(fn, case) -> dict:
    """Run an oracle bundle; an exception of the code under test is a violation of its own kind, never a pass.

    Violations found before the exception are kept (they come first: they are the more specific symptom).
    """
    import traceback

    res = {"violations": [], "outcome": "", "sharp": False, "obs": {}}
    try:
        fn(case, res)
    except Exception as e:  # noqa: BLE001
        tb = traceback.extract_tb(e.__traceback__)
        site = next((f"{f.filename.split('/gemseo/')[-1]}:{f.name}" for f in reversed(tb) if "/gemseo/" in f.filename), "harness")
        res["violations"].append(("raises", f"{type(e).__name__}: {str(e)[:300]} (at {site})\n{traceback.format_exc()[-1200:]}"))
        res["outcome"] = f"raised:{type(e).__name__}"
        res["sharp"] = False
        res["obs"]["site"] = site
    return res


def reg_signature(case, invariant: str) -> dict:
    return {
        "invariant": invariant,
        "regressor": case["reg"]["cls"],
        "setting": case["reg"]["sig"],
        "transformer": reg_label(case),
    }


def run_reg(case, tally) -> None:
    res = _safe_check(check_reg, case)
    key = ("reg", case["table"], case["set"], case["reg"]["cls"], case["reg"]["label"], reg_label(case))
    tally.case(key, nontrivial=res["sharp"], outcome=res["outcome"], sample={"case": case, "observed": res["obs"]} if sampled(key) else None)
    tally.count("query_points_checked", res["obs"].get("points_checked", 0))
    tally.count("query_points_sharp", res["obs"].get("points_sharp", 0))
    tally.count("query_points_skipped", res["obs"].get("points_skipped", 0))
    tally.count("query_points_with_inexact_library_gradient", res["obs"].get("points_inexact_library_gradient", 0))
    if "interpolation_residual" in res["obs"]:
        tally.count("interpolation_checks")
    if res["outcome"].startswith(("jacobian-checked", "reference-unreliable", "no-usable")):  # per-class vacuity is visible
        tally.count(f"jacobian_cases:{case['reg']['cls']}")
        tally.count(f"jacobian_cases_sharp:{case['reg']['cls']}", int(res["sharp"]))
        if not res["sharp"]:
            tally.count(f"unsharp:{case['reg']['cls']}({case['reg']['label']})")
    if res["violations"]:
        record_reg_violations(case, res, tally)


def record_reg_violations(case, res, tally) -> None:
    """Attribute a failure to the simplest configuration that fails at all (transformers removed: both, then each)."""
    best, bres = case, res
    for tin, tout in (([], []), (case["tin"], []), ([], case["tout"])):
        if (tin, tout) == (case["tin"], case["tout"]):
            continue
        red = {**case, "family": "reg", "tin": tin, "tout": tout}
        red.pop("transformer", None)
        r2 = _safe_check(check_reg, red)
        if r2["violations"]:
            best, bres = red, r2
            break
    if best is case and (case["tin"] or case["tout"]) and attribute_to_transformer(case, tally):
        return  # a transformer breaks its own invariants on the learning data: reported under its signature
    seen = set()
    for inv, msg in bres["violations"]:
        if inv in seen:
            continue
        seen.add(inv)
        sig = reg_signature(best, inv)
        if best.get("family") == "byname":
            sig["construction"] = "by-name"
        tally.violation(sig, best, f"{inv}: {best['reg']['cls']}({best['reg']['label']}) {reg_label(best)} on {best['set']} (table {best['table']})\n{msg}")


def attribute_to_transformer(case, tally) -> bool:
    """A failing case with transformers that passes without them: test the transformers alone on the learning data."""
    found = False
    for spec, suffix in ((case["tin"], ".X"), (case["tout"], ".Y")):
        if not spec or spec[0] == "var":
            continue
        trc = {"family": "tr", "table": case["table"], "matrix": case["set"][:2] + suffix, "pipe": spec}
        found |= record_tr_violations(trc, _safe_check(check_tr, trc), tally) > 0
    return found


# ------------------------------------------------------------------------------------------------------------------
# family "tr": transformers alone
# ------------------------------------------------------------------------------------------------------------------
MATRICES = ["S1.X", "S1.Y", "S2.X", "S2.Y", "S4.Y", "S2.X+const", "S2.X+zero"]


def make_matrix(table: int, name: str):
    """Fitting data M (N, k), 8 query rows inside its range (not rows of M), steps."""
    key = next(k for k in SETS if k.startswith(name[:2]))
    s = make_set(table, key)
    if name[3] == "X":
        mat, q = s["X"], s["Q"]
    else:
        mat = s["Y"]
        # query rows: convex combinations of consecutive learning outputs (inside the range, not learning rows)
        q = np.array([0.37 * mat[i] + 0.63 * mat[i + 1] for i in range(NQ)])
    if name.endswith("+const"):
        mat, q = np.column_stack([mat, np.full(len(mat), 1.5)]), np.column_stack([q, np.full(len(q), 1.5)])
    if name.endswith("+zero"):
        mat, q = np.column_stack([np.zeros(len(mat)), mat]), np.column_stack([np.zeros(len(q)), q])
    w = mat.max(0) - mat.min(0)
    h = np.where(w > 0, w, 1.0) * 2.0**-10
    return mat, q, h


def tr_pipelines(thorough: bool) -> list[list]:
    atoms = ATOMS + EXTRA_ATOMS
    out = [[a] for a in atoms] + [["pipe"]] + [["pipe", a] for a in atoms]
    out += [["pipe", a, b] for a in atoms for b in atoms]
    out += [["pipe", ["pipe", "MinMaxScaler", "PCA"], "StandardScaler"], ["pipe", "Scaler", ["pipe", "PCAscale"]]]
    if thorough:
        out += [["pipe", a, b, c] for a in ATOMS + ["PCAscale"] for b in ATOMS + ["PCAscale"] for c in ATOMS + ["PCAscale"]]
    return [p for p in out if flat_atoms_ok(p)]


def check_tr(case, res) -> None:
    mat, q, h = make_matrix(case["table"], case["matrix"])
    viol = res["violations"]
    atoms = spec_atoms(case["pipe"])
    constant = bool((mat.max(0) == mat.min(0)).any())
    if ("BoxCox" in atoms and not (mat > 0).all()) or (constant and set(atoms) & (NO_JAC | {"PCAwhiten"})):
        # oracle boundary: Box-Cox needs positive data; power transforms and whitening need non-constant features
        res["outcome"] = "not-applicable(power transform / whitening of non-positive or constant data)"
        return
    tr = make_transformer(case["pipe"])
    tr.fit(mat.copy())
    k = mat.shape[1]
    # --- inverse o transform = id (2-D and 1-D forms)
    t = np.asarray(tr.transform(q.copy()), dtype=float)
    back = np.asarray(tr.inverse_transform(t.copy()), dtype=float)
    if t.shape != q.shape or back.shape != q.shape:
        viol.append(("transformer-shape", f"transform: {q.shape} -> {t.shape}, inverse_transform -> {back.shape}"))
        return
    t_fit = np.asarray(tr.transform(mat.copy()), dtype=float)
    mag_t = np.maximum(np.abs(t_fit).max(axis=0), np.abs(t).max(axis=0))
    mag_x = np.maximum(np.abs(mat).max(axis=0), 1.0)
    steps_t = np.maximum(t_fit.max(0) - t_fit.min(0), 1e-3) * 2.0**-10
    fwd = richardson(tr.transform, q, h)  # (ref, tol, scale, finite, noise)
    inv = richardson(tr.inverse_transform, t, steps_t)
    lip_fwd, lip_inv = np.abs(fwd[0]), np.abs(inv[0])  # (nq, k, k)
    # the sensitivity of the inverse map is also taken from the forward one (|J_fwd^-1|): where the forward map is flat at
    # the resolution of doubles (Yeo-Johnson with an extreme exponent on data of small relative spread maps a whole
    # stencil to one number) the round trip is not computable, the point is ill-conditioned and nothing is claimed
    for p_ in range(len(q)):
        jp = fwd[0][p_]
        if np.isfinite(jp).all() and np.linalg.matrix_rank(jp) == k and np.linalg.cond(jp) < 1e12:
            lip_inv[p_] = np.maximum(lip_inv[p_], np.abs(np.linalg.inv(jp)))
        else:
            lip_inv[p_] = np.inf
    # first-order propagation of the rounding of t = T(x) through T^-1: structured part (terms of the linearisation,
    # magnitudes of the fitted data) + the *measured* noise of both maps (internal cancellation, e.g. the standardisation
    # inside a power transform of data with a small relative spread, is only visible that way)
    err_t = 64 * EPS * (mag_t[None, :] + (lip_fwd * mag_x[None, None, :]).sum(-1)) + 10 * fwd[4]
    tol_rt = 64 * EPS * mag_x[None, :] + 2 * (lip_inv * err_t[:, None, :]).sum(-1) + 10 * inv[4] + 2 * (inv[1] * err_t[:, None, :]).sum(-1)
    fin = np.isfinite(back) & np.isfinite(tol_rt) & np.isfinite(t) & (fwd[3] & inv[3])[:, None]
    # only points where the propagated rounding leaves at least 3 digits are decided: beyond that the forward map is
    # (nearly) quantised, first-order propagation is meaningless and the point is counted as ill-conditioned
    decidable = fin & (tol_rt <= 1e-3 * mag_x[None, :])
    bad = ~(np.abs(back - q) <= tol_rt) & decidable
    if not fin.all():
        res["obs"]["non_finite_rows"] = int((~fin).any(axis=1).sum())
    if bad.any():
        i = tuple(int(v) for v in np.argwhere(bad)[0])
        viol.append(("inverse-of-transform", f"inverse_transform(transform(x))[{i[1]}] = {back[i]!r} for x = {q[i[0]].tolist()} (|difference| {abs(back[i] - q[i]):.2e} > propagated rounding {tol_rt[i]:.2e})"))
    t1 = np.asarray(tr.transform(q[0].copy()))
    b1 = np.asarray(tr.inverse_transform(t1.copy()))
    if t1.shape != (k,) or b1.shape != (k,) or not (np.abs(b1 - q[0]) <= tol_rt[0])[decidable[0]].all():
        viol.append(("inverse-of-transform", f"1-D form: x = {q[0].tolist()} -> {t1.tolist()} -> {b1.tolist()}"))
    res["obs"]["roundtrip_error"] = float(np.abs(back - q)[fin].max()) if fin.any() else None
    rt_sharp = int((fin & (tol_rt <= 1e-6 * mag_x[None, :])).all(axis=1).sum())
    res["obs"]["roundtrip_points_sharp"] = rt_sharp
    # --- Jacobians
    n_sharp = 0
    try:
        jf = np.asarray(tr.compute_jacobian(q.copy()), dtype=float)
        ji = np.asarray(tr.compute_jacobian_inverse(t.copy()), dtype=float)
        available = True
    except NotImplementedError:
        available = False
    if not available and not (set(atoms) & NO_JAC):
        viol.append(("jacobian-unavailable", "compute_jacobian raised NotImplementedError although every member offers it"))
    if available:
        for name, pts, rich, jac in (("transformer-jacobian", q, fwd, jf), ("transformer-jacobian-inverse", t, inv, ji)):
            ref, tol, scale, finite, _ = rich
            try:  # oracle boundary: any shape that broadcasts to (n, k, k) is accepted (the empty Pipeline returns eye(k))
                jac = np.broadcast_to(jac, ref.shape)
            except ValueError:
                viol.append((name, f"shape {jac.shape} for {len(pts)} samples of dimension {k}, expected {ref.shape}"))
                continue
            if finite.any():
                r = compare_jacobian(jac[finite], ref[finite], tol[finite], f"{name.replace('transformer-', 'compute_').replace('-', '_')} at rows {pts[finite][:2].tolist()}...")
                if r:
                    viol.append((name, r[1]))
            n_sharp += int((finite & (tol.max(axis=(1, 2)) <= SHARP * np.maximum(scale, 1e-300))).sum())
        j1 = np.asarray(tr.compute_jacobian(q[0].copy()))
        if j1.shape != (k, k) or not np.allclose(j1, np.broadcast_to(jf, (NQ, k, k))[0], rtol=1e-13, atol=0):
            viol.append(("transformer-jacobian", f"1-D form: shape {j1.shape} / values differ from the 2-D form: {j1.tolist()} vs {jf[0].tolist() if jf.ndim == 3 else jf.tolist()}"))
    if available:
        res["outcome"] = "jacobians-checked" if n_sharp == 2 * NQ else "jacobians-partly-sharp" if n_sharp else "reference-unreliable"
    else:
        res["outcome"] = "inverse-only(no Jacobian offered)" if rt_sharp else "inverse-ill-conditioned(nothing claimed)"
    res["sharp"] = bool(n_sharp) if available else bool(rt_sharp)
    res["obs"]["points_sharp"] = n_sharp


def run_tr(case, tally) -> None:
    res = _safe_check(check_tr, case)
    key = ("tr", case["table"], case["matrix"], spec_label(case["pipe"]))
    tally.case(key, nontrivial=res["sharp"] and not res["outcome"].startswith("not-applicable"), outcome="tr:" + res["outcome"], sample={"case": case, "observed": res["obs"]} if sampled(key) else None)
    record_tr_violations(case, res, tally)


def record_tr_violations(case, res, tally) -> int:
    seen = set()
    for inv, msg in res["violations"]:
        if inv in seen:
            continue
        seen.add(inv)
        best = case
        members = [a for a in case["pipe"][1:]] if case["pipe"] and case["pipe"][0] == "pipe" else []
        for a in members:  # attribute to a single member when it fails alone
            red = {**case, "pipe": a if isinstance(a, list) else [a]}
            hit = [mm for ii, mm in _safe_check(check_tr, red)["violations"] if ii == inv]
            if hit:
                best, msg = red, hit[0]
                break
        tally.violation({"invariant": inv, "transformer": spec_label(best["pipe"])}, best, f"{inv}: {spec_label(best['pipe'])} fitted on {best['matrix']} (table {best['table']})\n{msg}")
    return len(seen)


# ------------------------------------------------------------------------------------------------------------------
# family "byname": SurrogateDiscipline built from a class name
# ------------------------------------------------------------------------------------------------------------------
def check_byname(case, res) -> None:
    from gemseo.disciplines.surrogate import SurrogateDiscipline

    s = make_set(case["table"], case["set"])
    reg = case["reg"]
    res["sharp"] = True
    settings = {k: v for k, v in reg["settings"].items() if v is not None}
    if reg.get("pspace"):
        settings["probability_space"] = probability_space(reg["pspace"], s)
    kw = {}
    if case["transformer"] == "explicit":
        kw["transformer"] = transformer_dict(case, s)
    try:
        disc = SurrogateDiscipline(reg["cls"], data=make_dataset(s), **kw, **settings)
    except ValueError as e:
        if reg["cls"] == "PCERegressor" and "does not support input transformers" in str(e) and not kw:
            res["outcome"] = "byname:rejected(PCE with the default input transformer)"  # documented ValueError
            return
        raise
    except Exception as e:  # noqa: BLE001
        if third_party_training_failure(e):
            res["outcome"] = f"byname:training-failed-in-third-party({type(e).__name__})"
            return
        raise
    if case["transformer"] == "explicit":
        twin = build_model(case, s)
    else:  # the documented default: MinMaxScaler on both groups
        from gemseo.mlearning.regression.algos.base_regressor import BaseRegressor

        tr = dict(BaseRegressor.DEFAULT_TRANSFORMER)
        if reg["cls"] == "PCERegressor":
            tr.pop("inputs")
        if reg.get("pspace"):
            settings["probability_space"] = probability_space(reg["pspace"], s)
        twin = factory().create(reg["cls"], data=make_dataset(s), transformer=tr, **settings)
        twin.learn()
    res["obs"]["transformers"] = {k: type(v).__name__ for k, v in disc.regression_model.transformer.items()}
    if {k: type(v).__name__ for k, v in twin.transformer.items()} != res["obs"]["transformers"]:
        res["violations"].append(("surrogate-by-name", f"transformers of the wrapped model {res['obs']['transformers']} differ from the requested ones"))
    for p in (0, 3, 7):
        xin, off = {}, 0
        for nm, sz in s["ins"]:
            xin[nm] = s["Q"][p, off : off + sz].copy()
            off += sz
        out = disc.execute(xin)
        exp = twin.predict({k: v.copy() for k, v in xin.items()})
        for nm, _ in s["outs"]:
            if not np.array_equal(np.asarray(out[nm]), np.asarray(exp[nm]).flatten(), equal_nan=True):
                res["violations"].append(("surrogate-by-name", f"execute at {s['Q'][p].tolist()}: {nm}={np.asarray(out[nm]).tolist()}, a model trained with the same arguments predicts {np.asarray(exp[nm]).tolist()}"))
        try:
            ej = twin.predict_jacobian({k: v.copy() for k, v in xin.items()})
        except NotImplementedError:
            continue
        jl = disc.linearize(xin, compute_all_jacobians=True)
        for on, _ in s["outs"]:
            for inn, _ in s["ins"]:
                if not np.array_equal(np.asarray(jl[on][inn]), np.asarray(ej[on][inn]), equal_nan=True):
                    res["violations"].append(("surrogate-by-name", f"linearize at {s['Q'][p].tolist()}: d{on}/d{inn}={np.asarray(jl[on][inn]).tolist()}, twin model gives {np.asarray(ej[on][inn]).tolist()}"))
    res["outcome"] = "byname:" + str(disc.linearization_mode)


def run_byname(case, tally) -> None:
    res = _safe_check(check_byname, case)
    key = ("byname", case["table"], case["set"], case["reg"]["cls"], case["reg"]["label"], case["transformer"], reg_label(case))
    tally.case(key, nontrivial=True, outcome=res["outcome"], sample={"case": case, "observed": res["obs"]} if sampled(key) else None)
    if res["violations"]:
        # the same model built through the factory (family "reg"): if it fails too, the failure is not about construction
        red = {**case, "family": "reg"}
        red.pop("transformer")
        if case["transformer"] == "default":
            red["tin"], red["tout"] = ([] if case["reg"]["cls"] == "PCERegressor" else ["MinMaxScaler"]), ["MinMaxScaler"]
        r2 = _safe_check(check_reg, red)
        if r2["violations"]:
            record_reg_violations(red, r2, tally)
        else:
            record_reg_violations(case, res, tally)


# ------------------------------------------------------------------------------------------------------------------
# family "hist": learn; predict (record); compute a resampling-based quality measure; predict again
# ------------------------------------------------------------------------------------------------------------------
# (method of the measure, its keyword arguments, fit_transformers of the measure)
RESAMPLINGS = {
    "cross_validation": ("compute_cross_validation_measure", {"n_folds": 5}, True),
    "leave_one_out": ("compute_leave_one_out_measure", {}, True),
    "bootstrap": ("compute_bootstrap_measure", {"n_replicates": 5}, True),
    "cross_validation,ordered,stored": ("compute_cross_validation_measure", {"n_folds": 4, "randomize": False, "store_resampling_result": True}, True),
    "cross_validation,fit_transformers=False": ("compute_cross_validation_measure", {"n_folds": 3}, False),
    "bootstrap,stored": ("compute_bootstrap_measure", {"n_replicates": 3, "store_resampling_result": True}, True),
    "leave_one_out,fit_transformers=False": ("compute_leave_one_out_measure", {}, False),
}
QUICK_HISTORIES = [  # (resampling, measure)
    ("cross_validation", "MSEMeasure"),
    ("leave_one_out", "RMSEMeasure"),
    ("bootstrap", "MSEMeasure"),
    ("cross_validation,ordered,stored", "R2Measure"),
    ("cross_validation,fit_transformers=False", "MAEMeasure"),
]
MEASURES = ["MSEMeasure", "R2Measure", "RMSEMeasure", "MAEMeasure", "MEMeasure"]
HIST_TRANSFORMERS = [
    ([], []),
    (["MinMaxScaler"], ["MinMaxScaler"]),  # the default of create_regression_model / SurrogateDiscipline
    (["StandardScaler"], ["StandardScaler"]),
    (["StandardScaler"], []),
    ([], ["StandardScaler"]),
    (["pipe", "MinMaxScaler", "PCA"], ["PCAscale"]),
    ([], ["YeoJohnson"]),
]


def hist_regressors(thorough: bool) -> list[dict]:
    """One or two representative settings of every regressor class (all the classes: the history is class-independent
    machinery, BaseResampler, reached through every class's constructor and learn)."""
    want = [
        ("LinearRegressor", "default"),
        ("PolynomialRegressor", "degree=2"),
        ("RBFRegressor", "function=cubic,epsilon=0.5"),
        ("RBFRegressor", "function=multiquadric,epsilon=None"),
        ("TPSRegressor", "epsilon=None"),
        ("PCERegressor", "degree=2;pspace=uniform"),
        ("MOERegressor", "hard=True;moe=[2, 'LinearRegressor', {}]"),
        ("RegressorChain", "default;chain=[['LinearRegressor', {}], ['RBFRegressor', {'function': 'gaussian'}]]"),
        ("OTGaussianProcessRegressor", "default"),
    ]
    if thorough:
        want += [
            ("LinearRegressor", "penalty_level=0.1,l2_penalty_ratio=0.0"),
            ("PolynomialRegressor", "degree=3"),
            ("RBFRegressor", "function=gaussian,epsilon=1.0"),
            ("RBFRegressor", "function=thin_plate,epsilon=0.5"),
            ("PCERegressor", "degree=2,use_lars=True;pspace=uniform"),
            ("OTGaussianProcessRegressor", "covariance_model=Matern32"),
        ]
    regs = {(r["cls"], r["label"]): r for r in regressor_settings(thorough)}
    return [regs[k] for k in want]


def _transformer_state(model, s) -> dict:
    """What the model's transformers do to the learning data (bytes): their functional fitted state."""
    out = {}
    for key, tr in model.transformer.items():
        data = s["X"] if key == "inputs" else s["Y"]
        out[key] = np.asarray(tr.transform(data.copy()), dtype=float).tobytes()
    return out


def check_hist(case, res) -> None:
    from gemseo.mlearning.regression.quality.factory import RegressorQualityFactory

    s = make_set(case["table"], case["set"])
    viol = res["violations"]
    reg = case["reg"]
    try:
        model = build_model(case, s)
    except Exception as e:  # noqa: BLE001
        if third_party_training_failure(e):
            res["outcome"] = f"hist:training-failed-in-third-party({type(e).__name__})"
            return
        raise
    x_learn, y_learn, q, h = s["X"], s["Y"], s["Q"], s["h"]

    def observe():
        obs = {"predict(Q)": np.asarray(model.predict(q.copy()), dtype=float), "predict(X_learn)": np.asarray(model.predict(x_learn.copy()), dtype=float)}
        try:
            obs["predict_jacobian(Q)"] = np.asarray(model.predict_jacobian(q.copy()), dtype=float)
        except NotImplementedError:
            pass
        return obs

    before, state0 = observe(), _transformer_state(model, s)
    method, kwargs, fit = RESAMPLINGS[case["resampling"]]
    measure = RegressorQualityFactory().create(case["measure"], algo=model, fit_transformers=fit)
    try:
        value = getattr(measure, method)(**kwargs)
        res["obs"]["measure"] = np.ravel(np.asarray(value, dtype=float)).tolist()[:2]
        completed = True
    except Exception as e:  # noqa: BLE001
        # Oracle boundary: whether the measure can be computed for this model is not the statement (a resampled
        # RegressorChain has no member, OpenTURNS may fail on a sub-sample); the model must be unchanged all the same.
        res["obs"]["measure_raised"] = f"{type(e).__name__}: {str(e)[:120]}"
        completed = False
    after, state1 = observe(), _transformer_state(model, s)
    changed = [k for k in before if k not in after or before[k].shape != after[k].shape or not np.array_equal(before[k], after[k], equal_nan=True)]
    refitted = [k for k in state0 if state0[k] != state1.get(k)]
    interp0 = float(np.nanmax(np.abs(before["predict(X_learn)"] - y_learn)))
    interp1 = float(np.nanmax(np.abs(after["predict(X_learn)"] - y_learn)))
    res["obs"].update(interpolation_error_before=interp0, interpolation_error_after=interp1, transformers_refitted=refitted)
    if changed:
        k = changed[0]
        i = tuple(int(v) for v in np.argwhere(~(before[k] == after[k]))[0]) if before[k].shape == after[k].shape else ()
        viol.append((
            "model-changed-by-quality-measure",
            f"{k} differs after {case['measure']}.{method}({kwargs}, fit_transformers={fit}): entry {i} {before[k][i]!r} -> {after[k][i]!r}; "
            f"changed observations: {changed}; max |predict(x_learn) - y_learn| {interp0:.2e} -> {interp1:.2e}; "
            f"transformers whose fitted state changed in place: {refitted or 'none'}",
        ))
    # the statement's own terms, on the model as it is after the measure: its Jacobian is the derivative of its prediction
    if "predict_jacobian(Q)" in after:
        ref, tol, scale, finite, _ = richardson(lambda p: model.predict(p), q, h)
        tol = tol + LIB_GRADIENT_RTOL.get(reg["cls"], 0.0) * np.abs(ref)
        usable = finite.copy()
        if reg["cls"] == "MOERegressor":
            d = q.shape[1]
            cls_c = np.asarray(model.predict_class(q.copy())).reshape(NQ)
            usable &= (np.asarray(model.predict_class(stencil(q, h).reshape(-1, d))).reshape(NQ, -1) == cls_c[:, None]).all(axis=1)
        if usable.any() and after["predict_jacobian(Q)"].shape == ref.shape:
            r = compare_jacobian(after["predict_jacobian(Q)"][usable], ref[usable], tol[usable], "predict_jacobian after the quality measure")
            if r:
                viol.append(("jacobian-vs-differences-after-quality-measure", r[1]))
    res["cause"] = "transformers-refitted-in-place" if refitted else "other"
    res["sharp"] = completed
    res["outcome"] = "hist:" + ("measure-computed" if completed else "measure-raised") + (",model-changed" if changed else ",model-unchanged")


def run_hist(case, tally) -> None:
    res = _safe_check(check_hist, case)
    key = ("hist", case["table"], case["set"], case["reg"]["cls"], case["reg"]["label"], reg_label(case), case["resampling"], case["measure"])
    tally.case(key, nontrivial=res["sharp"], outcome=res["outcome"], sample={"case": case, "observed": res["obs"]} if sampled(key) else None)
    tally.count("histories_with_refitted_transformers", int(bool(res["obs"].get("transformers_refitted"))))
    seen = set()
    for inv, msg in res["violations"]:
        if inv in seen:
            continue
        seen.add(inv)
        # signature: the invariant, the resampling method and the mechanism (not the regressor: the defect site is the
        # resampler); the first, simplest case is kept by the tally
        sig = {"invariant": inv, "resampling": case["resampling"].split(",")[0], "cause": res.get("cause", "raises")}
        tally.violation(sig, case, f"{inv}: {case['reg']['cls']}({case['reg']['label']}) {reg_label(case)} on {case['set']} (table {case['table']}), history learn; predict; {case['measure']} by {case['resampling']}; predict\n{msg}")


# ------------------------------------------------------------------------------------------------------------------
# family "fmt": every public entry point called with every input format gives the same, identically labelled values
# ------------------------------------------------------------------------------------------------------------------
FMT_TRANSFORMERS = [
    ([], []),
    (["MinMaxScaler"], ["MinMaxScaler"]),
    (["PCA"], ["StandardScaler"]),
    (["var", "MinMaxScaler"], ["var", "StandardScaler"]),  # per-variable: the formatter splits the array by names
    (["YeoJohnson"], []),
]


def fmt_regressors(thorough: bool) -> list[dict]:
    want = [
        ("LinearRegressor", "default"),
        ("PolynomialRegressor", "degree=2"),
        ("RBFRegressor", "function=cubic,epsilon=0.5"),
        ("RBFRegressor", "function=multiquadric,epsilon=None"),
        ("TPSRegressor", "epsilon=None"),
        ("PCERegressor", "degree=2;pspace=uniform"),
        ("MOERegressor", "hard=True;moe=[2, 'PolynomialRegressor', {'degree': 2}]"),
        ("MOERegressor", "hard=True;moe=[2, 'PolynomialRegressor', {'degree': 2}, {'in': ['Scaler'], 'out': ['Scaler']}]"),
        ("RegressorChain", "default;chain=[['PolynomialRegressor', {'degree': 2}], ['RBFRegressor', {'function': 'cubic', 'epsilon': 0.5}]]"),
        ("OTGaussianProcessRegressor", "default"),
    ]
    if thorough:
        want += [
            ("PolynomialRegressor", "degree=3"),
            ("RBFRegressor", "function=gaussian,epsilon=1.0"),
            ("PCERegressor", "degree=2;pspace=normal"),
            ("MOERegressor", "hard=False;moe=[2, 'LinearRegressor', {}]"),
            ("OTGaussianProcessRegressor", "covariance_model=Matern32"),
        ]
    regs = {(r["cls"], r["label"]): r for r in regressor_settings(thorough)}
    return [regs[k] for k in want]


def input_formats(values: dict, model_order: list[str], other_names: list[str], all_orders: bool) -> list[tuple[str, str, dict]]:
    """(format class, label, mapping): model order, every other key order, mappings with an extra non-input entry."""
    import itertools

    out = [("dict-model-order", ",".join(model_order), {n: values[n] for n in model_order})]
    perms = [p for p in itertools.permutations(model_order) if list(p) != model_order]
    if not all_orders:
        perms = perms[-1:]  # the reversed order
    for perm in perms:
        out.append(("dict-other-key-order", ",".join(perm), {n: values[n] for n in perm}))
    extra = np.full_like(values[model_order[0]], 7.5)
    out.append(("dict-with-extra-entry", "extra-first", {"zz_not_an_input": extra, **{n: values[n] for n in model_order}}))
    rev = list(reversed(model_order))
    mixed = {rev[0]: values[rev[0]], other_names[0]: extra}  # an *output* name among the keys, keys in reverse order
    mixed.update({n: values[n] for n in rev[1:]})
    out.append(("dict-with-extra-entry", "output-name-inside,reversed", mixed))
    return out


def check_fmt(case, res) -> None:
    from gemseo.disciplines.surrogate import SurrogateDiscipline

    s = make_set(case["table"], case["set"])
    viol = res["violations"]
    reg = case["reg"]
    try:
        model = build_model(case, s)
    except Exception as e:  # noqa: BLE001
        if third_party_training_failure(e):
            res["outcome"] = f"fmt:training-failed-in-third-party({type(e).__name__})"
            return
        raise
    sizes = dict(s["ins"]) | dict(s["outs"])
    in_names, out_names = list(model.input_names), list(model.output_names)
    cols, off = {}, 0
    for nm, sz in s["ins"]:
        cols[nm] = slice(off, off + sz)
        off += sz

    def same(a, b) -> bool:
        a, b = np.asarray(a), np.asarray(b)
        return a.shape == b.shape and np.array_equal(a, b, equal_nan=True)

    def bad(entry, fclass, label, msg):
        viol.append((f"input-format:{entry}:{fclass}", f"{entry} called with {fclass} ({label}), model.input_names={in_names}, output_names={out_names}: {msg}"))

    n_calls = 0
    available = True
    point_dependent = False
    disc = SurrogateDiscipline(model)
    for shape, rows in (("one sample", s["Q"][0]), ("3 samples", s["Q"][:3])):
        values = {nm: np.array(rows[..., cols[nm]]) for nm in sizes if nm in cols}
        arr = np.concatenate([values[n] for n in in_names], axis=-1)  # (i) the array format, in the model's order
        ref_p = np.asarray(model.predict(arr.copy()))
        try:
            ref_j = np.asarray(model.predict_jacobian(arr.copy()))
        except NotImplementedError:
            available, ref_j = False, None
        if ref_j is not None and rows.ndim == 2:
            point_dependent = not np.allclose(ref_j[0], ref_j[1], rtol=1e-6, atol=0)
        extras = {}
        if reg["cls"] == "MOERegressor":
            extras["predict_class"] = lambda x: model.predict_class(x)
            extras["predict_local_model"] = lambda x: model.predict_local_model(x, 0)
        if reg["cls"] == "OTGaussianProcessRegressor":
            extras["predict_std"] = lambda x: model.predict_std(x)
            extras["compute_samples"] = lambda x: model.compute_samples(x, 2, seed=3)
        ref_x = {k: f(arr.copy()) for k, f in extras.items()}
        for fclass, label, mapping in input_formats(values, in_names, out_names, case["orders"] == "all"):
            label = f"{label}; {shape}"
            keys_before = list(mapping)
            cp = lambda: {k: v.copy() for k, v in mapping.items()}  # noqa: E731
            # predict
            p = model.predict(cp())
            n_calls += 1
            if not isinstance(p, dict) or set(p) != set(out_names):
                bad("predict", fclass, label, f"returns {type(p).__name__} with keys {list(p) if isinstance(p, dict) else None}")
            elif not same(np.concatenate([np.asarray(p[n]) for n in out_names], axis=-1), ref_p):
                bad("predict", fclass, label, f"{ {k: np.asarray(v).tolist() for k, v in p.items()} } but the array form gives {ref_p.tolist()} (outputs {out_names})")
            # predict_jacobian
            if ref_j is not None:
                j = model.predict_jacobian(cp())
                n_calls += 1
                ro = 0
                for on in out_names:
                    co = 0
                    for inn in in_names:
                        exp = ref_j[..., ro : ro + sizes[on], co : co + sizes[inn]]
                        got = j.get(on, {}).get(inn) if isinstance(j, dict) else None
                        if got is None or set(j) != set(out_names) or set(j[on]) != set(in_names):
                            bad("predict_jacobian", fclass, label, f"labels {({k: list(v) for k, v in j.items()} if isinstance(j, dict) else type(j).__name__)}")
                        elif not same(got, exp):
                            bad("predict_jacobian", fclass, label, f"d{on}/d{inn} = {np.asarray(got).tolist()} but the array form (same point) gives {exp.tolist()}")
                        co += sizes[inn]
                    ro += sizes[on]
            # class-specific entry points accepting mappings
            for name, f in extras.items():
                try:
                    got = f(cp())
                except NotImplementedError:
                    continue
                n_calls += 1
                exp = ref_x[name]
                if isinstance(got, dict):
                    got = np.concatenate([np.asarray(got[n]) for n in (out_names if set(got) == set(out_names) else list(got))], axis=-1)
                if isinstance(exp, dict):
                    exp = np.concatenate([np.asarray(exp[n]) for n in out_names], axis=-1)
                if not same(np.squeeze(np.asarray(got)), np.squeeze(np.asarray(exp))):
                    bad(name, fclass, label, f"{np.asarray(got).tolist()} but the array form gives {np.asarray(exp).tolist()}")
            if list(mapping) != keys_before:
                bad("predict", fclass, label, f"the caller's mapping was reordered/modified: {keys_before} -> {list(mapping)}")
            # surrogate discipline (single sample only; extra entries are not part of its grammar)
            if rows.ndim == 1 and fclass != "dict-with-extra-entry":
                out = disc.execute(cp())
                n_calls += 1
                if not same(np.concatenate([np.asarray(out[n]).ravel() for n in out_names]), ref_p.ravel()):
                    bad("SurrogateDiscipline.execute", fclass, label, f"{ {n: np.asarray(out[n]).tolist() for n in out_names} } but model.predict(array) gives {ref_p.tolist()}")
                if ref_j is not None:
                    jl = disc.linearize(cp(), compute_all_jacobians=True)
                    ro = 0
                    for on in out_names:
                        co = 0
                        for inn in in_names:
                            exp = ref_j[ro : ro + sizes[on], co : co + sizes[inn]]
                            if not same(jl[on][inn], exp):
                                bad("SurrogateDiscipline.linearize", fclass, label, f"d{on}/d{inn} = {np.asarray(jl[on][inn]).tolist()} but model.predict_jacobian(array) gives {exp.tolist()}")
                            co += sizes[inn]
                        ro += sizes[on]
    res["obs"].update(calls=n_calls, input_names=in_names, output_names=out_names, jacobian_depends_on_point=bool(point_dependent))
    res["sharp"] = bool(point_dependent) or not available
    res["outcome"] = "fmt:" + ("jacobian-depends-on-point" if point_dependent else "constant-jacobian" if available else "no-jacobian")


def run_fmt(case, tally) -> None:
    res = _safe_check(check_fmt, case)
    key = ("fmt", case["table"], case["set"], case["reg"]["cls"], case["reg"]["label"], reg_label(case), case["names"], case["orders"])
    tally.case(key, nontrivial=res["sharp"], outcome=res["outcome"], sample={"case": case, "observed": res["obs"]} if sampled(key) else None)
    tally.count("format_calls", res["obs"].get("calls", 0))
    seen = set()
    for inv, msg in res["violations"]:
        if inv in seen:
            continue
        seen.add(inv)
        # the defect site is a data formatter (entry point x format class), not a regressor: the regressor is kept out of
        # the signature except for crashes, whose site is named by the traceback
        if inv == "raises":
            sig = {"invariant": "raises", "family": "input-format", "regressor": case["reg"]["cls"], "site": res["obs"].get("site")}
        else:
            _, entry, fclass = inv.split(":")
            sig = {"invariant": "input-format", "entry": entry, "format": fclass}
        tally.violation(sig, case, f"{inv}: {case['reg']['cls']}({case['reg']['label']}) {reg_label(case)} names={case['names']} on {case['set']} (table {case['table']})\n{msg}")


_QUIET = False


def _quiet() -> None:
    global _QUIET
    if not _QUIET:
        import openturns as ot

        ot.Log.Show(ot.Log.NONE)
        _QUIET = True


def run_case(case, tally) -> None:
    _quiet()
    {"reg": run_reg, "tr": run_tr, "byname": run_byname, "hist": run_hist, "fmt": run_fmt}[case["family"]](case, tally)


# ------------------------------------------------------------------------------------------------------------------
# enumeration
# ------------------------------------------------------------------------------------------------------------------
def enumerate_cases(table: int, thorough: bool, only: str | None = None):
    sets = [k for k in SETS if k not in FORMAT_SETS] if thorough else QUICK_SETS
    regs = regressor_settings(thorough)
    pairs = transformer_pairs(thorough)
    dropped = 0
    cases = []
    # transformers alone
    for c in product.full({"pipe": tr_pipelines(thorough), "matrix": MATRICES}):
        cases.append({"family": "tr", "table": table, **c})
    # regressors: transformer pairs outermost so that the simplest configurations come first
    valid = {sn: boxcox_valid(table, sn) for sn in sets}
    for c in product.full({"pair": pairs, "set": sets, "reg": regs}):
        tin, tout = c["pair"]
        ok_in, ok_out = valid[c["set"]]
        if ("BoxCox" in spec_atoms(tin) and not ok_in) or ("BoxCox" in spec_atoms(tout) and not ok_out):
            dropped += 1  # oracle boundary: Box-Cox needs positive data
            continue
        cases.append({"family": "reg", "table": table, "set": c["set"], "reg": c["reg"], "tin": tin, "tout": tout})
    # discipline by class name
    for c in product.full({"set": sets, "reg": [r for r in regs if not (r.get("moe") or r.get("moe_candidates") or r.get("chain") or r.get("callable"))], "how": ["default", "explicit-none", "explicit-standard"]}):
        tin = tout = [] if c["how"] != "explicit-standard" else ["StandardScaler"]
        if c["reg"]["cls"] == "PCERegressor":
            tin = []
        cases.append({"family": "byname", "table": table, "set": c["set"], "reg": c["reg"], "transformer": "default" if c["how"] == "default" else "explicit", "tin": tin, "tout": tout})
    # histories: learn; predict; resampling-based quality measure; predict
    hsets = ["S1:x1->y1", "S2:x2->y1,z1"] if thorough else ["S2:x2->y1,z1"]
    # thorough: every resampling variant with MSE + every measure class with plain cross-validation (the measure class only
    # changes the formula applied to the predictions of the sub-models, not the resampling machinery)
    histories = [(r, "MSEMeasure") for r in RESAMPLINGS] + [("cross_validation", m) for m in MEASURES[1:]] if thorough else QUICK_HISTORIES
    hpairs = HIST_TRANSFORMERS if thorough else [p for p in HIST_TRANSFORMERS if bool(p[0]) == bool(p[1]) or "YeoJohnson" in p[1]]
    for c in product.full({"pair": hpairs, "history": histories, "set": hsets, "reg": hist_regressors(thorough)}):
        tin, tout = c["pair"]
        if c["reg"]["cls"] == "PCERegressor" and tin:
            continue  # documented: no input transformer for PCE
        cases.append({"family": "hist", "table": table, "set": c["set"], "reg": c["reg"], "tin": tin, "tout": tout, "resampling": c["history"][0], "measure": c["history"][1]})
    # input formats: array / dict in model order / every other key order / extra entries, on >= 2 named input variables
    fsets = ["S3:a1,b1->y1", *FORMAT_SETS]
    for c in product.full({"pair": FMT_TRANSFORMERS, "names": ["default", "reversed"], "set": fsets, "reg": fmt_regressors(thorough)}):
        tin, tout = c["pair"]
        if c["reg"]["cls"] == "PCERegressor" and tin:
            continue
        if "YeoJohnson" in spec_atoms(tin) and c["names"] == "reversed" and not thorough:
            continue
        cases.append({"family": "fmt", "table": table, "set": c["set"], "reg": c["reg"], "tin": tin, "tout": tout, "names": c["names"], "orders": "all"})
    # the histories are the most expensive cases (5-16 trainings each): scheduled first so that they do not form a tail
    cases = [c for c in cases if c["family"] == "hist"] + [c for c in cases if c["family"] != "hist"]
    if only:
        cases = [c for c in cases if only in (c["family"] + ":" + str(c.get("reg", {}).get("cls", "")) + ":" + str(c.get("reg", {}).get("label", "")) + ":" + (reg_label(c) if "tin" in c else spec_label(c["pipe"])) + ":" + c.get("set", c.get("matrix", "")) + ":" + c.get("resampling", "") + ":" + c.get("measure", "") + ":" + c.get("names", ""))]
    return cases, dropped, {"sets": sets, "regressor_settings": len(regs), "transformer_pairs": len(pairs), "group_pipelines": sum(len(x) for x in group_pipelines(thorough)), "transformer_family_pipelines": len(tr_pipelines(thorough))}


def run(ctx):
    table = ctx.seed % len(TABLES)
    cases, dropped, sizes = enumerate_cases(table, ctx.thorough, getattr(ctx, "only", None))
    with_jac = classes_with_jacobian()
    covered = sorted({r["cls"] for r in regressor_settings(ctx.thorough)})
    ctx.tally.notes["regressor_classes_with_jacobian_in_factory"] = with_jac
    ctx.tally.notes["regressor_classes_enumerated"] = covered
    ctx.tally.notes["boxcox_cases_removed_from_alphabet"] = dropped
    if set(with_jac) - set(covered):  # a new differentiable regressor must not be silently skipped
        ctx.tally.violation({"invariant": "alphabet-incomplete"}, {"missing": sorted(set(with_jac) - set(covered))}, f"regressors with a Jacobian not enumerated: {sorted(set(with_jac) - set(covered))}")
    pmap(run_case, cases, ctx.tally, jobs=ctx.jobs, chunk=24, timeout=120)
    fam = {}
    for c in cases:
        fam[c["family"]] = fam.get(c["family"], 0) + 1
    return {
        "level": LEVEL,
        "samples": cases[:3],  # only used when no executed case was sampled (tiny --only runs)
        "rule": "full product (regressor setting x input pipeline x output pipeline x learning set), transformer pipelines x data matrices, "
        "by-name surrogate disciplines, and 3-step histories (learn; predict; resampling-based quality measure; predict again: regressor class x "
        "transformer setting x resampling method x measure); 8 query points per case.  A case is non-trivial when the model offered a Jacobian and, for at least one "
        "query point, the a-posteriori error estimate of the Richardson reference was below 1e-5 x the derivative scale (so a wrong derivative "
        "cannot hide in the tolerance); transformer cases: idem for compute_jacobian, or the inverse identity for power transforms; histories: the "
        "quality measure was computed (sub-models were trained) between the two observations",
        "exhaustive": not getattr(ctx, "only", None),
        "bounds": {
            "table": table,
            "query_points_per_case": NQ,
            "pipeline_length": 3 if ctx.thorough else 2,
            "transformer_product": "short x short complete, length-2 x {none, MinMaxScaler, PCA, YeoJohnson} both ways, length-2 on both groups" if ctx.thorough else "<= 1 transformed group + same/different single transformer on both groups",
            "cases_per_family": fam,
            "history": "learn; predict/predict_jacobian on 8 query points and on the learning inputs; compute measure; same observations, bitwise equal",
            "resampling_methods": list(RESAMPLINGS) if ctx.thorough else sorted({r for r, _ in QUICK_HISTORIES}),
            **sizes,
        },
        "assumptions": [
            "value alphabet: 3 tables (box, test functions) rotated by VERIF_SEED; structural axes are complete",
            "the reference derivative is a Richardson-extrapolated central difference of the model's own predict with an a-posteriori error estimate; "
            "cases whose estimate exceeds 1e-5 x the derivative scale are counted as 'reference-unreliable', not as checked",
            "NotImplementedError from predict_jacobian / compute_jacobian is the documented 'no derivative' answer (power transforms, per-variable transformers, soft MOE)",
            "whether a resampling-based measure can be computed at all (a resampled RegressorChain has no member) is not the statement: the model must be unchanged either way",
            "Box-Cox only on strictly positive groups; lossy reductions, GP/chain interpolation and the way Pipeline fits its members are outside the statement",
        ],
    }


def replay(case, ctx):
    _quiet()
    fam = case.get("family", "reg")
    res = _safe_check({"reg": check_reg, "tr": check_tr, "byname": check_byname, "hist": check_hist, "fmt": check_fmt}[fam], case)
    return {
        "case": case,
        "outcome": res["outcome"],
        "observed": res["obs"],
        "violations": [{"invariant": i, "message": m} for i, m in res["violations"]],
    }
