"""C03 - drivers respect the evaluation budget and always return a result (engine E2).

Deviation-bounded enumeration of *driver executions* on tiny harness problems whose original callables
carry counters:

    algorithm  (every name of OptimizationLibraryFactory().algorithms and DOELibraryFactory().algorithms)
  x budget N   in {1, 2, 3, 5, 12}
  x problem    in {quad, ineq, eq, nan, nan_ineq, raise, linear, mixed, milp, biobj}
  x settings   (normalize_design_space, use_database, round_ints, reset_iteration_counters, store_jacobian,
                differentiation in {user, finite differences}, [DOE: eval_jac, n_processes])      <= k deviations
  x the termination criterion forced to fire first in {budget, ftol, xtol, max_time (virtual clock), KKT}
    (the NaN criterion is carried by the problems nan / nan_ineq)
  + histories: ordered pairs of executions on the same problem with / without counter reset;
  + histories "pre-populated database": before the execution the database holds, at the very points the algorithm is
    going to visit (dry reference run of the same deterministic algorithm / the DOE samples), empty entries
    (Database.store(x, {})), entries with only the objective / the constraints / the Jacobians, or complete entries;
    budgets smaller and larger than the number of pre-registered points;
  + parallel (n_processes=2) and serial DOEs of 20 samples on functions that take normalized inputs
    (normalize_design_space=True, or after a normalized optimizer on the same problem) on bounds that are not exactly
    representable ([-3.3, 7.1], [0.1, 0.7]).

Unsuitable (algorithm, problem) pairs are rejected by the library itself ("... is not adapted to the problem")
and counted per algorithm (coverage.rejected), never silently.

Oracle = the statement, evaluated per execution (see ``judge``):

  optimizers   B1 new database entries <= N;  B2 distinct physical points at which the ORIGINAL objective /
               constraints were called <= N (finite-difference probes excepted, see ``_in_fd``);
               R1 no exception escapes when the budget / a tolerance / the time limit / a NaN / KKT stops the run;
               R2 the returned object is an OptimizationResult (GEMSEO-stopped runs carry a message);
               R3 it is built from the recorded history (x_opt is a database key, f_opt its recorded value).
               A *user* exception (problem ``raise``): nothing is promised but B1/B2 up to the raise and that
               the escaping exception is the user's own.
  DOEs         D1 the new database keys are exactly the distinct generated samples (``library.samples``) that
               were not yet in the database, in generation order;  D2 each of them is evaluated exactly once by
               every original function;  D3 a failing sample only loses (part of) its own entry;  B1; R1-R3.
  composites   MultiStart and MNBI evaluate through the main problem's functions and are held to the global
               budget (B1, B2); the augmented Lagrangians solve sub-problems on the original functions: main
               database <= N, every sub-problem database <= its own ``max_iter``, distinct points <= N + sum of
               the sub-budgets.  Reported under family "composite".

Oracle boundaries (accepted readings, documented where they are applied):
  * FD probe rule: a call of an original callable is a derivative-approximation probe iff a frame of
    ``gemseo/utils/derivatives/*`` is on the Python call stack (exact tag, no distance threshold).
  * "new entry" = a key absent before the execution, or present with an EMPTY output dictionary and filled by it; an empty
    or partial entry is not an evaluated point.  B2 first counts the points that had no recorded output at all
    (budget-points); the calls of original functions at points whose entry held only SOME outputs are never tested against
    the budget by GEMSEO and are reported under budget-points-completing-partial-entries (coarse signature, known finding).
    Derivative calls are reported under their own id (budget-points-with-jacobians).
  * in a parallel DOE the keys must be the generated samples BITWISE (the samples are pre-registered and the results are
    stored under them), whatever the normalization; in a serial DOE on normalized functions the tolerance below applies.
  * ``use_database=False``: nothing is recorded, the evaluation counter never moves, so GEMSEO has no means to
    enforce N; B1 is trivially true and B2 is reported under its own invariant id (budget-points-no-database).
    A run that has made 40 N + 100 real evaluations is aborted by the harness functions (``Runaway``).
  * R1 covers what the statement covers: a TerminationCriterion that escapes, or an exception raised while the
    result is built / delivered after the run (_get_result, _get_early_stopping_result, _post_run).  An error of
    the wrapped library that no stop provoked (e.g. Scipy_MILP on a non-linear problem: AttributeError) is listed in
    coverage.errors_of_the_wrapped_library_unrelated_to_a_stop, not reported as a violation.
  * R3 is demanded of the runs stopped by GEMSEO ("... GEMSEO stopped the driver."); the LP / MILP solvers read the
    coefficients, evaluate the starting point (base class) and the solution they report (outside the database, as a
    post-processing): N + 1 points are accepted for them.
  * linear functions are replaced by GEMSEO's own normalized twin when normalize_design_space=True and no
    integer has to be rounded: the user's callable is then never called and only the database invariants apply.
  * a DOE started with reset_iteration_counters=False after another run, or stopped by max_time, may record
    only a prefix of its samples (the statement's budget clause wins over the DOE clause), and the criterion fires at
    the first store of an entry, so the last recorded entry may be partial.
  * DOE on functions that take normalized inputs: keys are unnormalize(normalize(sample)); equality is demanded up
    to 8 eps * max(|lb|, |ub|, ub - lb) (four roundings of the affine map and its inverse).
  * the number of samples a DOE generates for a requested n_samples is C14's business; here the budget of a DOE
    is len(library.samples).  PYDOE_CCDESIGN is run with face="faced" (the default star points lie outside the
    design space by definition), OATDOE from a point of the unit cube.
  * no time clause: a case of an isolated library (NLopt) that has not returned after HANG_TIMEOUT s of CPU is
    killed and reported as a cap (coverage.caps), not as a violation.
"""
from __future__ import annotations

import json
import os
import sys
import tempfile

import numpy as np

from mc import product
from mc.core import pmap

LEVEL = "exploration"
BUDGETS = [1, 2, 3, 5, 12]
PROBLEMS = ["ineq", "quad", "eq", "nan", "nan_ineq", "raise", "linear", "mixed", "milp", "biobj"]
DEVIATION_PROBLEMS = ["ineq", "quad", "linear", "milp", "biobj", "mixed"]  # quick: first two accepted of these
SUB_MAX_ITER = 4  # budget of one augmented-Lagrangian sub-optimization
SCRATCH = None  # ctx.scratch (set by run / replay; inherited by the forked workers)
CASE_TIMEOUT = 300  # wall seconds, backstop only: runaway runs are stopped by the evaluation cap of the probe

# value alphabets (rotated by VERIF_SEED; the enumerated structure never changes)
TABLES = [
    {"lb": -2.0, "ub": 3.0, "x0": [1.5, -1.0], "c": [1.0, 0.5], "ilb": 0, "iub": 4, "i0": 1, "ic": 2.3},
    {"lb": -1.0, "ub": 4.0, "x0": [3.0, 0.5], "c": [0.5, 2.0], "ilb": -2, "iub": 3, "i0": 2, "ic": -0.6},
    {"lb": 0.5, "ub": 2.5, "x0": [2.25, 0.75], "c": [1.25, 1.5], "ilb": 1, "iub": 6, "i0": 5, "ic": 2.4},
    # bounds that are not exactly representable: unnormalize(normalize(x)) != x for a large share of the points
    # (used by the phases "pre-populated database" and "parallel DOE on normalized functions" for every seed)
    {"lb": -3.3, "ub": 7.1, "x0": [0.5, 0.5], "c": [0.3, -0.2], "ilb": -1, "iub": 4, "i0": 1, "ic": 1.7},
    {"lb": 0.1, "ub": 0.7, "x0": [0.6, 0.2], "c": [0.3, 0.45], "ilb": 0, "iub": 3, "i0": 2, "ic": 1.2},
]
N_SEED_TABLES = 3  # the first tables rotate with VERIF_SEED
ROUNDING_TABLES = [3, 4]

SETTING_AXES = {
    "normalize": ["default", "flip"],
    "use_database": [True, False],
    "round_ints": [True, False],
    "reset": [True, False],
    "store_jacobian": [True, False],
    "diff": ["user", "finite_differences"],
    "stop": ["budget", "ftol", "xtol", "time", "kkt", "kkt_armed"],  # kkt_armed: criterion active, tolerance never met
    "eval_jac": [False, True],  # DOE only
    "n_processes": [1, 2],  # DOE only
}
DEFAULTS = {k: v[0] for k, v in SETTING_AXES.items()}

COMPOSITE_SUB = {
    "MultiStart": {"opt_algo_name": "SLSQP", "n_start": 2},
    "MNBI": {"sub_optim_algo": "SLSQP", "n_sub_optim": 3, "sub_optim_max_iter": 5},
    "Augmented_Lagrangian_order_0": {"sub_algorithm_name": "NLOPT_COBYLA", "sub_algorithm_settings": {"max_iter": SUB_MAX_ITER}},
    "Augmented_Lagrangian_order_1": {"sub_algorithm_name": "L-BFGS-B", "sub_algorithm_settings": {"max_iter": SUB_MAX_ITER}},
}
AUGMENTED = ("Augmented_Lagrangian_order_0", "Augmented_Lagrangian_order_1")

STOP_MESSAGES = {
    "Maximum number of iterations reached": "max-iter",
    "is NaN": "nan",
    "Design variables are NaN": "x-nan",
    "xtol_rel or xtol_abs": "xtol",
    "ftol_rel or ftol_abs": "ftol",
    "Maximum time reached": "time",
    "KKT residual norm": "kkt",
}


# ------------------------------------------------------------------------------------------------
# harness: virtual clock, call probe, problems
# ------------------------------------------------------------------------------------------------
class VClock:
    """Every reading of the driver's clock advances it by one second."""

    def __init__(self):
        self.t = 0.0

    def __call__(self):
        self.t += 1.0
        return self.t


def install_clock():
    import gemseo.algos.base_driver_library as bdl

    bdl.time = VClock()
    return bdl.time


def _in_fd():
    """Whether the current call comes from a derivative approximator (exact stack tag)."""
    f = sys._getframe(2)
    while f is not None:
        if "/utils/derivatives/" in f.f_code.co_filename:
            return True
        f = f.f_back
    return False


class UserBoom(ValueError):
    """The exception raised by the user's constraint in the problem ``raise``."""


class Runaway(Exception):
    """Raised by the harness functions when a run has made 40 N + 100 real evaluations: the budget is lost
    (the run is aborted instead of waiting for a convergence that may never come)."""


class Probe:
    def __init__(self, raise_at=None):
        self.calls = []  # (function name, "f"|"j", bytes of the physical point, is FD probe)
        self.raise_at = raise_at  # the constraint raises at its k-th distinct (non-probe) point
        self.g_points = []
        self.raised = []
        self.raise_log = None  # file collecting the failing points (hex) of every process
        self.cap = None  # maximum number of real calls in the current execution
        self.n_real = 0
        self.runaway = False

    def rec(self, fname, kind, x):
        x = np.array(x, dtype=float)
        fd = _in_fd()
        self.calls.append((fname, kind, x.tobytes(), fd))
        if not fd:
            self.n_real += 1
            if self.cap is not None and self.n_real > self.cap:
                self.runaway = True
                raise Runaway(f"more than {self.cap} real evaluations in one execution")
        return x, fd

    def maybe_raise(self, x, fd):
        if self.raise_at is None:
            return
        key = x.tobytes()
        if key not in self.g_points:
            if fd:
                return
            self.g_points.append(key)
        if self.g_points.index(key) == self.raise_at - 1:
            e = UserBoom("boom-c03: the user's constraint fails at this point")
            self.raised.append(e)
            if self.raise_log:  # the worker processes of a parallel DOE have their own copy of this probe
                with open(self.raise_log, "a") as f:
                    f.write(key.hex() + "\n")
            raise e


def build_problem(name, T, diff="user"):
    """Return (problem, probe, info) for one of the harness problems."""
    from gemseo.algos.design_space import DesignSpace
    from gemseo.algos.optimization_problem import OptimizationProblem
    from gemseo.core.mdo_functions.mdo_function import MDOFunction
    from gemseo.core.mdo_functions.mdo_linear_function import MDOLinearFunction

    probe = Probe(raise_at=2 if name == "raise" else None)
    c0, c1 = T["c"]
    x0 = np.array(T["x0"], dtype=float)
    # unconstrained minimiser of the quadratic: [[2,1],[1,2]] x = 2c
    xopt = np.linalg.solve(np.array([[2.0, 1.0], [1.0, 2.0]]), 2.0 * np.array([c0, c1]))
    s_mid = 0.5 * (x0.sum() + xopt.sum())
    sg = -1.0 if x0.sum() - s_mid > 0 else 1.0  # the start is feasible, the unconstrained optimum is not
    thr = 0.5 * (x0[0] + xopt[0])
    nan_sign = 1.0 if x0[0] > thr else -1.0  # NaN on the optimum's side of the threshold
    with_nan = name in ("nan", "nan_ineq")
    mixed = name in ("mixed", "milp")

    ds = DesignSpace()
    if mixed:
        ds.add_variable("x", 1, lower_bound=T["lb"], upper_bound=T["ub"], value=x0[:1])
        ds.add_variable("n", 1, type_="integer", lower_bound=T["ilb"], upper_bound=T["iub"], value=np.array([T["i0"]]))
    else:
        ds.add_variable("x", 2, lower_bound=T["lb"], upper_bound=T["ub"], value=x0)

    def f(x):
        x, _ = probe.rec("f", "f", x)
        if with_nan and (x[0] - thr) * nan_sign < 0:
            return np.array([np.nan])
        return np.array([(x[0] - c0) ** 2 + (x[1] - c1) ** 2 + x[0] * x[1]])

    def df(x):
        x, _ = probe.rec("f", "j", x)
        return np.array([2 * (x[0] - c0) + x[1], 2 * (x[1] - c1) + x[0]])

    def g(x):
        x, fd = probe.rec("g", "f", x)
        probe.maybe_raise(x, fd)
        return np.array([sg * (x[0] + x[1] - s_mid)])

    def dg(x):
        probe.rec("g", "j", x)
        return np.array([[sg, sg]])

    def h(x):
        x, _ = probe.rec("h", "f", x)
        return np.array([x[0] - x[1] - (x0[0] - x0[1]) + 0.5])

    def dh(x):
        probe.rec("h", "j", x)
        return np.array([[1.0, -1.0]])

    ic = T["ic"]

    def fm(x):
        x, _ = probe.rec("f", "f", x)
        return np.array([(x[0] - c0) ** 2 + (x[1] - ic) ** 2 + 0.5 * x[0] * x[1]])

    def dfm(x):
        x, _ = probe.rec("f", "j", x)
        return np.array([2 * (x[0] - c0) + 0.5 * x[1], 2 * (x[1] - ic) + 0.5 * x[0]])

    gm_s = x0[0] + T["i0"] + 0.75

    def gm(x):
        x, fd = probe.rec("g", "f", x)
        return np.array([x[0] + x[1] - gm_s])

    def dgm(x):
        probe.rec("g", "j", x)
        return np.array([[1.0, 1.0]])

    def f2(x):
        x, _ = probe.rec("f", "f", x)
        return np.array([(x[0] - c0) ** 2 + (x[1] - c1) ** 2 + x[0] * x[1], (x[0] - c0 - 1.0) ** 2 + (x[1] - c1 + 1.0) ** 2])

    def df2(x):
        x, _ = probe.rec("f", "j", x)
        return np.array([[2 * (x[0] - c0) + x[1], 2 * (x[1] - c1) + x[0]], [2 * (x[0] - c0 - 1.0), 2 * (x[1] - c1 + 1.0)]])

    class CountingLinear(MDOLinearFunction):
        """The user's linear function, with the probe in its evaluation (only reached when GEMSEO does not
        replace it by its own normalized twin)."""

        def _func_to_wrap(self, x_vect):
            probe.rec(self.name, "f", x_vect)
            return super()._func_to_wrap(x_vect)

        def _jac_to_wrap(self, x_vect):
            probe.rec(self.name, "j", x_vect)
            return super()._jac_to_wrap(x_vect)

    p = OptimizationProblem(ds)
    names = ["f"]
    if name in ("linear", "milp"):
        p.objective = CountingLinear(np.array([1.0, -2.0]), "f", value_at_zero=0.5)
        span = (T["iub"] - T["ilb"]) if mixed else (T["ub"] - T["lb"])
        base = (T["lb"] + T["ilb"]) if mixed else 2 * T["lb"]
        p.add_constraint(CountingLinear(np.array([1.0, 1.0]), "g", value_at_zero=-(base + 1.3 * span)), constraint_type="ineq")
        names.append("g")
    elif mixed:
        p.objective = MDOFunction(fm, "f", jac=dfm)
        p.add_constraint(MDOFunction(gm, "g", jac=dgm), constraint_type="ineq")
        names.append("g")
    elif name == "biobj":
        p.objective = MDOFunction(f2, "f", jac=df2, dim=2)
    else:
        p.objective = MDOFunction(f, "f", jac=df)
        if name in ("ineq", "nan_ineq", "raise"):
            p.add_constraint(MDOFunction(g, "g", jac=dg), constraint_type="ineq")
            names.append("g")
        if name == "eq":
            p.add_constraint(MDOFunction(h, "h", jac=dh), constraint_type="eq")
            names.append("h")
    if diff != "user":
        p.differentiation_method = diff
    info = {
        "names": names,
        "has_int": mixed,
        "linear": name in ("linear", "milp"),
        "lb": np.concatenate([[T["lb"]], [T["ilb"] if mixed else T["lb"]]]).astype(float),
        "ub": np.concatenate([[T["ub"]], [T["iub"] if mixed else T["ub"]]]).astype(float),
    }
    return p, probe, info


def custom_samples(T, n, mixed):
    """n rows inside the box; row 2 repeats row 0 (a DOE must not evaluate a repeated sample twice)."""
    lb, ub = T["lb"], T["ub"]
    rows = []
    for i in range(n):
        j = 0 if i == 2 else i
        a = lb + (ub - lb) * ((0.137 + 0.31 * j) % 1.0)
        if mixed:
            b = T["ilb"] + (j * 2) % (T["iub"] - T["ilb"] + 1)
        else:
            b = lb + (ub - lb) * ((0.671 + 0.43 * j) % 1.0)
        rows.append([a, float(b)])
    return np.array(rows)


# ------------------------------------------------------------------------------------------------
# one execution
# ------------------------------------------------------------------------------------------------
_FACTORIES = {}


def factory(kind):
    if kind not in _FACTORIES:
        if kind == "opt":
            from gemseo.algos.opt.factory import OptimizationLibraryFactory as F
        else:
            from gemseo.algos.doe.factory import DOELibraryFactory as F
        _FACTORIES[kind] = F()
    return _FACTORIES[kind]


def algo_lists():
    return list(factory("opt").algorithms), list(factory("doe").algorithms)


def settings_for(kind, algo, lib, n, st, sub, T, mixed):
    """Translate the case record into driver settings; return (settings, not_applicable_reason)."""
    fields = lib.ALGORITHM_INFOS[algo].Settings.model_fields
    s = {}
    if kind == "opt":
        s["max_iter"] = n
        s.update(json.loads(json.dumps(sub or {})))
    elif "n_samples" in fields:
        s["n_samples"] = n
    elif algo == "CustomDOE":
        s["samples"] = custom_samples(T, n, mixed)
    if algo == "OATDOE":
        s["initial_point"] = np.array([0.4, 0.6])  # a point of the unit hypercube (the convention of this DOE)
    if algo == "PYDOE_CCDESIGN":
        # oracle boundary: the default (circumscribed) design puts its star points outside the design space by
        # definition (C14); the in-bounds variant is the one the statement can speak about
        s["face"] = "faced"
    if st["normalize"] == "flip":
        s["normalize_design_space"] = not fields["normalize_design_space"].default
    if not st["use_database"]:
        s["use_database"] = False
    if not st["round_ints"]:
        s["round_ints"] = False
    if not st["reset"]:
        s["reset_iteration_counters"] = False
    if not st["store_jacobian"]:
        s["store_jacobian"] = False
    stop = st["stop"]
    if stop == "time":
        s["max_time"] = 1.5  # virtual seconds: fires at the second new iteration
    elif stop in ("ftol", "xtol", "kkt", "kkt_armed"):
        key = {"ftol": "ftol_abs", "xtol": "xtol_abs", "kkt": "kkt_tol_abs", "kkt_armed": "kkt_tol_abs"}[stop]
        if key not in fields:
            return s, f"no-setting-{key}"
        s[key] = 1e-300 if stop == "kkt_armed" else 1e30
    if kind == "doe":
        if st.get("eval_jac"):
            s["eval_jac"] = True
        if st.get("n_processes", 1) > 1:
            s["n_processes"] = st["n_processes"]
    return s, None


def _keys(database):
    return [np.array(k.wrapped_array, dtype=float) for k in database]


def _chain_has(exc, target_list):
    seen = 0
    while exc is not None and seen < 10:
        if any(exc is t for t in target_list):
            return True
        exc = exc.__cause__ or exc.__context__
        seen += 1
    return False


def _chain_has_type(exc):
    from gemseo.algos.stop_criteria import TerminationCriterion

    seen = 0
    while exc is not None and seen < 10:
        if isinstance(exc, TerminationCriterion):
            return True
        exc = exc.__cause__ or exc.__context__
        seen += 1
    return False


RESULT_FRAMES = ("_get_early_stopping_result", "_get_result", "_post_run", "from_optimization_problem", "finalize_iter_observer", "_clear_listeners")


def execute_once(problem, probe, info, run, T, pname):
    """Run one driver on the problem and return the raw observation."""
    from gemseo.algos.optimization_result import OptimizationResult

    kind, algo, n, st = run["kind"], run["algo"], run["N"], run["settings"]
    lib = factory(kind).create(algo)
    settings, na = settings_for(kind, algo, lib, n, st, run.get("sub"), T, info["has_int"])
    obs = {"kind": kind, "algo": algo, "N": n, "status": "ran"}
    if na:
        obs["status"] = "not-applicable"
        obs["reason"] = na
        return obs
    if pname == "biobj" and kind == "opt" and not lib.ALGORITHM_INFOS[algo].handle_multiobjective:
        # the libraries have no suitability error for this: the description flag is used
        obs["status"] = "rejected"
        obs["reason"] = "description: handle_multiobjective is False"
        return obs
    if pname == "biobj" and algo == "MultiStart":
        obs["status"] = "rejected"
        obs["reason"] = "harness: the sub-algorithm of the case record (SLSQP) is mono-objective"
        return obs
    db = problem.database
    keys0 = _keys(db)
    filled0 = {np.asarray(k_.wrapped_array, dtype=float).tobytes(): bool(v_) for k_, v_ in db.items()}
    mark = len(probe.calls)
    obs["counter_before"] = problem.evaluation_counter.current
    probe.cap, probe.n_real, probe.runaway = 40 * n + 100, 0, False
    result = exc = None
    try:
        result = lib.execute(problem, **settings)
    except Exception as e:  # classified below
        exc = e
    calls = probe.calls[mark:]
    obs["n_calls"] = len(calls)
    keys1 = _keys(db)
    obs["prefix_kept"] = len(keys1) >= len(keys0) and all(np.array_equal(a, b) for a, b in zip(keys0, keys1))
    # "recorded before" = an entry with at least one output; an empty entry (Database.store(x, {}), what a parallel DOE
    # pre-registers, what Database.filter leaves) is not an evaluated point.  "new" = absent before, or empty before and
    # filled by this execution (database order).
    obs["all_keys"] = keys1
    obs["old_keys"] = [k_ for k_ in keys0 if filled0[k_.tobytes()]]
    fresh = [(k_, dict(v_)) for k_, (_, v_) in zip(keys1, db.items()) if k_.tobytes() not in filled0 or (not filled0[k_.tobytes()] and v_)]
    obs["new_keys"] = [k_ for k_, _ in fresh]
    obs["new_entries"] = [v_ for _, v_ in fresh]
    obs["preregistered"] = sum(1 for f_ in filled0.values() if not f_)
    obs["counter_after"] = problem.evaluation_counter.current
    obs["counter_max"] = problem.evaluation_counter.maximum
    real = [c for c in calls if not c[3]]
    obs["func_points"] = list(dict.fromkeys(c[2] for c in real if c[1] == "f"))
    obs["jac_points"] = list(dict.fromkeys(c[2] for c in real if c[1] == "j"))
    obs["fd_probes"] = len(calls) - len(real)
    mult = {}
    for c in real:
        if c[1] == "f":
            mult[(c[0], c[2])] = mult.get((c[0], c[2]), 0) + 1
    obs["func_mult"] = mult
    if kind == "doe":
        smp = np.array(getattr(lib, "samples", []), dtype=float)
        obs["samples"] = smp.reshape(-1, 2) if smp.size else np.zeros((0, 2))
    if algo in AUGMENTED:
        obs["sub_db_sizes"] = [len(sp.database) for sp in getattr(lib, "_sub_problems", [])]
    if exc is not None:
        msg = str(exc)
        obs["exception"] = f"{type(exc).__name__}: {msg[:300]}"
        obs["exc_type"] = type(exc).__name__
        obs["exc_is_user"] = _chain_has(exc, probe.raised)
        obs["runaway"] = probe.runaway
        import traceback

        tb = traceback.extract_tb(exc.__traceback__)
        obs["exc_where"] = f"{tb[-1].filename.split('/src/')[-1]}:{tb[-1].name}" if tb else ""
        obs["exc_frames"] = [f"{fr.filename.split('/src/')[-1]}:{fr.name}" for fr in tb[-6:]]
        # raised by a listener of the database that is not a function of the problem (progress bar, stop testers, stale
        # listeners of an earlier execution): the frame below Database.__notify_listeners is not an evaluation
        names = [fr.name for fr in tb]
        obs["exc_in_listener"] = any(
            nm.endswith("__notify_listeners") and j + 1 < len(tb) and tb[j + 1].name not in ("evaluate", "__call__")
            for j, nm in enumerate(names)
        ) and not _chain_has(exc, probe.raised)
        if isinstance(exc, ValueError) and msg.startswith("Multi-start optimization: "):
            # MultiStart's own consistency error between max_iter, n_start and opt_algo_max_iter (raised by _run, after
            # the evaluation of the starting point)
            obs["status"] = "settings-rejected"
            obs["reason"] = "ValueError: " + msg[:100]
        elif isinstance(exc, ValueError) and ("is not adapted to the problem" in msg or "not suitable for mono-objective" in msg):
            # the library's (or, for a composite, its sub-algorithm's) own suitability error; the optimization
            # libraries raise some of them after the evaluation of the starting point
            obs["status"] = "rejected"
            obs["reason"] = (msg.split("because")[-1] if "because" in msg else msg).strip().replace("\n", " ")[:80]
        elif not calls and len(keys1) == len(keys0) and (type(exc).__name__ == "ValidationError" or isinstance(exc, (ValueError, TypeError))):
            # nothing was evaluated: the library refused the settings
            obs["status"] = "settings-rejected"
            obs["reason"] = f"{type(exc).__name__}: " + msg.replace("\n", " ")[:100]
        obs["exc_has_termination"] = _chain_has_type(exc)
    obs["result_type"] = type(result).__name__
    if isinstance(result, OptimizationResult):
        obs["message"] = result.message
        obs["x_opt"] = None if result.x_opt is None else np.array(result.x_opt, dtype=float)
        obs["f_opt"] = result.f_opt
        obs["is_feasible"] = result.is_feasible
        obs["optimum_index"] = result.optimum_index
    obs["functions_normalized"] = bool(getattr(problem.objective, "expects_normalized_inputs", False))
    obs["objective_name"] = problem.objective.name
    obs["std_objective_name"] = problem.standardized_objective_name
    # leave no listener of a crashed run behind (user exceptions skip the library's own clean-up)
    if exc is not None:
        try:
            db.clear_listeners()
        except Exception:
            pass
    return obs


# ------------------------------------------------------------------------------------------------
# the oracle
# ------------------------------------------------------------------------------------------------
PROBLEM_CLASS = {
    "ineq": "constrained",
    "eq": "constrained",
    "quad": "unconstrained",
    "nan": "nan-objective",
    "nan_ineq": "nan-objective",
    "raise": "raising-constraint",
    "linear": "linear",
    "mixed": "mixed-integer",
    "milp": "mixed-integer-linear",
    "biobj": "multi-objective",
}
_LIBS = {}


def library_of(kind, algo):
    if (kind, algo) not in _LIBS:
        _LIBS[kind, algo] = type(factory(kind).create(algo)).__name__
    return _LIBS[kind, algo]


def family(kind, algo):
    if kind == "doe":
        return "doe"
    if algo in COMPOSITE_SUB:
        return "composite"
    return "optimizer"


def stop_class(obs):
    if obs.get("runaway"):
        return "runaway"
    if obs.get("exception"):
        return "user-exception" if obs.get("exc_is_user") else ("library-error" if obs.get("library_error") else "exception")
    m = obs.get("message")
    if not m:
        return "no-message"
    if not isinstance(m, str):
        m = str(m)
    for frag, cls in STOP_MESSAGES.items():
        if frag in m and "GEMSEO stopped" in m:
            return cls
    return "library"


def _non_default(run):
    st = run["settings"]
    return {k: v for k, v in st.items() if DEFAULTS.get(k) != v}


def judge(obs, run, pname, info, history="single", first=None, tags=None):
    """Return the list of (signature, message) broken by one execution (empty when the statement holds)."""
    bad = []
    kind, algo, n, st = run["kind"], run["algo"], run["N"], run["settings"]
    fam = family(kind, algo)
    # algorithm for the optimizers (each wraps different code), library class for the DOEs (they share one loop)
    shape = {"family": fam, "algorithm": algo if kind == "opt" else library_of(kind, algo), "problem_class": PROBLEM_CLASS[pname], "history": history, **_non_default(run)}
    shape.update(tags or {})
    if first is not None:
        shape["after"] = first["algo"] if first["kind"] == "opt" else library_of("doe", first["algo"])
        shape.update({f"after_{k_}": v_ for k_, v_ in _non_default(first).items()})

    def v(inv, msg, **extra):
        sig = {"invariant": inv, **shape, **extra}
        if inv == "budget-points-completing-partial-entries":
            # one root cause in ProblemFunction, whatever the algorithm: coarse signature
            sig = {"invariant": inv, "family": fam, "history": history, "entries": (tags or {}).get("prefill", "left-by-the-first-execution")}
        bad.append((sig, f"{inv}: {msg}"))

    n_new = len(obs["new_keys"])
    # B2 first counts the points without any recorded output before the execution (budget-points); the calls that complete
    # an entry holding only some outputs (e.g. the objective where only a constraint was stored) create no entry and are
    # never tested against the budget by GEMSEO: they are reported under budget-points-completing-partial-entries
    old_bytes = {np.asarray(k_, dtype=float).tobytes() for k_ in obs["old_keys"]}
    n_pts = len([p_ for p_ in obs["func_points"] if p_ not in old_bytes])
    use_db = st["use_database"]
    serial = st.get("n_processes", 1) == 1
    if not obs["prefix_kept"]:
        v("database-prefix", "entries recorded before the execution were removed or reordered")

    # ---- budget ---------------------------------------------------------------------------------
    if kind == "opt":
        budget = n
        extra_pts = 0
        if algo in AUGMENTED:
            sizes = obs.get("sub_db_sizes", [])
            sub_budget = run["sub"]["sub_algorithm_settings"]["max_iter"]
            if any(s > sub_budget for s in sizes):
                v("composite-sub-budget", f"a sub-optimization recorded {max(sizes)} entries for max_iter={sub_budget} (sizes {sizes})")
            # documented per-level budgets: at most N outer iterations, each one sub-optimization of at most
            # sub_budget evaluations on the original functions (a sub-problem that raises is not listed)
            extra_pts = n * sub_budget
        if library_of(kind, algo) in ("ScipyLinprog", "ScipyMILP"):
            # oracle boundary: these solvers read the coefficients, never iterate on evaluations, and evaluate the
            # solution they report once, outside the database and the counter (no_db_no_norm=True), as a
            # post-processing; the starting point is evaluated by the base class: N + 1 points are accepted
            extra_pts = 1
        if n_new > budget:
            v("budget-database", f"{n_new} new database entries for max_iter={n}")
        inv = "budget-points" if use_db else "budget-points-no-database"
        n_pts_all = len(obs["func_points"])
        if n_pts > budget + extra_pts:
            v(inv, f"the original functions were called at {n_pts} distinct points for max_iter={n}" + (f" (+{extra_pts} sub-problem entries)" if extra_pts else "") + f"; {n_new} new database entries")
        elif use_db and n_pts_all > budget + extra_pts:
            # the literal statement: a point whose entry held only some outputs was not a fully evaluated point, and the
            # original functions are called there without any budget test (the guard is "the entry is empty")
            v(
                "budget-points-completing-partial-entries",
                f"the original functions were called at {n_pts_all} distinct points for max_iter={n}: {n_pts} unrecorded points and "
                f"{n_pts_all - n_pts} points whose entry held only some of the outputs before the execution; {n_new} new database entries",
            )
        elif use_db:
            # derivatives asked at a point recorded by an earlier execution create nothing: only unrecorded points count
            n_all_new = len([p_ for p_ in dict.fromkeys(obs["func_points"] + obs["jac_points"]) if p_ not in old_bytes])
            if n_all_new > budget + extra_pts:
                v("budget-points-with-jacobians", f"original functions and derivatives were called at {n_all_new} distinct unrecorded points for max_iter={n}")
    else:
        n_samples = len(obs["samples"])
        if n_new > n_samples:
            v("budget-database", f"{n_new} new database entries for {n_samples} generated samples")

    # ---- exceptions / result --------------------------------------------------------------------
    exc = obs.get("exception")
    if exc and obs.get("runaway"):
        pass  # aborted by the harness; the budget invariants above have fired
    elif exc:
        if obs.get("exc_is_user"):
            if kind == "doe" and serial:
                v("doe-failing-sample-aborts", f"the user's ValueError escaped from the DOE: {exc}")
        elif pname == "raise" and obs.get("exc_type") == "UserBoom":
            pass
        else:
            where = obs.get("exc_where", "")
            frames = obs.get("exc_frames", [])
            building = any(fr.split(":")[-1] in RESULT_FRAMES for fr in frames)
            if obs.get("exc_type") == "KeyError" and any("from_optimization_problem" in fr for fr in frames):
                v("result-keyerror-no-usable-objective", f"the driver raised instead of returning a result: {exc}; frames {frames[-4:]}", where=where)
            elif obs.get("exc_has_termination") or building or obs.get("exc_in_listener"):
                # R1: a termination criterion escaped, the result could not be built / delivered after the run, or the
                # new-iteration / store listener protocol that enforces the stops raised by itself
                v("exception-escaped", f"{exc}; frames {frames[-4:]}", exc_type=obs.get("exc_type"), where=where)
            else:
                # an error of the wrapped library unrelated to a stop: outside the statement, listed in the coverage notes
                obs["library_error"] = True
    else:
        if obs["result_type"] != "OptimizationResult" and not obs["result_type"].endswith("Result"):
            v("result-missing", f"execute returned {obs['result_type']}")
        else:
            m = obs.get("message")
            if len(obs["all_keys"]) > 0 and isinstance(m, str) and "GEMSEO stopped the driver" in m:
                # R3 (only promised for the runs stopped by GEMSEO; an LP solver, e.g., reports its own solution)
                xo = obs.get("x_opt")
                allk = obs["all_keys"]
                if xo is None:
                    v("result-not-from-history", "x_opt is None although the database is not empty")
                else:
                    idx = [i for i, k in enumerate(allk) if np.array_equal(k, xo)]
                    if not idx:
                        v("result-not-from-history", f"x_opt={xo.tolist()} is not a database key")
            if m is not None and not isinstance(m, (str, bytes)):
                v("result-message-type", f"message is a {type(m).__name__}")

    # ---- DOE clauses ----------------------------------------------------------------------------
    if kind == "doe" and not exc:
        samples = obs["samples"]
        old = obs["old_keys"]
        # the functions take normalized inputs when this DOE asked for it (its default is an unnormalized design
        # space) or when an earlier execution preprocessed them so
        normalized = st["normalize"] == "flip" or obs.get("functions_normalized", False)
        tol_pts = 8 * np.finfo(float).eps * float(max(np.abs(info["lb"]).max(), np.abs(info["ub"]).max(), (info["ub"] - info["lb"]).max())) if normalized else 0.0
        # a parallel DOE pre-registers the exact samples and its callback stores the results under the exact samples:
        # there the keys are the generated samples bitwise, whatever the normalization
        tol = tol_pts if serial else 0.0

        def same(a, b):
            return np.array_equal(a, b) if tol == 0.0 else bool(np.all(np.abs(a - b) <= tol))

        expected, optional = [], []
        for srow in samples:
            if not any(same(srow, e) for e in expected):
                known = any(np.array_equal(srow, o) for o in old)
                if known:
                    continue
                # with normalized functions the database compares unnormalize(normalize(sample)) bitwise with its keys:
                # a sample equal to an old key up to the rounding tolerance may or may not be recorded again
                optional.append(bool(tol) and any(same(srow, o) for o in old))
                expected.append(srow)
        new = obs["new_keys"]
        failing_pts = obs.get("failing_points", [])

        def is_failing(pt):
            # the failing points are logged as the constraint saw them (round trip of the sample in normalized mode)
            return any(bool(np.all(np.abs(np.asarray(pt, dtype=float) - f_) <= tol_pts)) for f_ in failing_pts)

        prefix_allowed = (not st["reset"] and obs["counter_before"] > 0) or st["stop"] == "time"
        if use_db:
            # D3: the entry of a failing sample may be absent (parallel run) or partial (serial run); all the others are there
            exp = [(e, o_) for e, o_ in zip(expected, optional) if not is_failing(e)]
            got = [k for k in new if not is_failing(k)]
            j_ = 0
            ok = True
            for e, opt_ in exp:
                if j_ < len(got) and same(got[j_], e):
                    j_ += 1
                elif opt_:
                    continue
                elif j_ >= len(got) and prefix_allowed:
                    break
                else:
                    ok = False
                    break
            ok = ok and j_ == len(got)
            if not ok:
                v(
                    "doe-keys-are-samples",
                    f"new database keys {[k.tolist() for k in new][:6]} vs distinct generated samples not yet recorded {[e.tolist() for e in expected][:6]}"
                    + (f" (failing samples {[f_.tolist() for f_ in failing_pts]} set aside)" if failing_pts else ""),
                )
            else:
                stopped = prefix_allowed and stop_class(obs) in ("time", "max-iter")
                entries = list(zip(obs["new_keys"], obs["new_entries"]))
                if stopped and not serial:
                    # a parallel DOE creates the (empty) entries of all its samples first and removes the empty ones at
                    # the end; a stop skips the clean-up: empty entries of never evaluated samples are tolerated (counted)
                    obs["empty_entries_left"] = sum(1 for _, e_ in entries if not e_)
                    entries = [(k_, e_) for k_, e_ in entries if e_]
                for j_, (k, entry) in enumerate(entries):
                    if is_failing(k):
                        continue
                    if stopped and j_ == len(entries) - 1:
                        continue  # the criterion fires at the first store of an entry: the last one may be partial
                    missing = [nm for nm in info["names"] if nm not in entry]
                    if missing:
                        v("doe-entry-incomplete", f"sample {k.tolist()} has no value for {missing}")
                        break
        elif n_new:
            v("doe-no-database", f"{n_new} entries recorded with use_database=False")
        if serial and use_db and tol == 0.0:
            # "records them": every point at which an original function was really called is a database key
            rec = {np.asarray(k_, dtype=float).tobytes() for k_ in obs["all_keys"]}
            lost_pts = [p_ for p_ in obs["func_points"] if p_ not in rec]
            if lost_pts:
                v("doe-evaluated-not-recorded", f"original functions were called at {[np.frombuffer(p_, dtype=float).tolist() for p_ in lost_pts][:4]} but these samples have no database entry")
        if serial and not (info["linear"] and normalized and not (info["has_int"] and st["round_ints"])):
            # D2: exactly one call of every original function per distinct evaluated sample
            rows = [r for r in samples]
            evaluated = obs["new_keys"] if use_db else rows
            last_partial = use_db and prefix_allowed and stop_class(obs) in ("time", "max-iter")
            for j_, pt in enumerate(evaluated):
                if tol:
                    continue  # call points are compared bitwise only in the unnormalized mode
                if last_partial and j_ == len(evaluated) - 1:
                    continue
                want = 1 if use_db else sum(1 for r in rows if np.array_equal(r, pt))
                for nm in info["names"]:
                    got_n = obs["func_mult"].get((nm, np.array(pt, dtype=float).tobytes()), 0)
                    if is_failing(pt):
                        continue
                    if got_n != want:
                        v("doe-evaluated-once", f"original function {nm} was called {got_n} time(s) at sample {np.array(pt).tolist()} (expected {want})")
                        break
                else:
                    continue
                break
    return bad


def observe_raise(obs, probe):
    """The points at which the user's constraint raised during the execution (in any process)."""
    pts = []
    if probe.raise_log and os.path.exists(probe.raise_log):
        with open(probe.raise_log) as f:
            for line in f.read().split():
                pts.append(np.frombuffer(bytes.fromhex(line), dtype=float).copy())
        os.remove(probe.raise_log)
    obs["failing_points"] = pts


PREFILL_MODES = ["empty", "objective", "constraints", "jacobian", "complete"]


def prefill_database(problem, pname, T, run, pre):
    """History axis "pre-populated database": before the execution the database holds entries at the very points the
    (deterministic) algorithm is going to visit, taken from a dry reference run of the same algorithm with the budget
    pre["ref_N"] on a twin problem: empty entries (Database.store(x, {})), entries with only some outputs, or complete ones.
    Returns None, or the reason why the case cannot be built."""
    ref_problem, ref_probe, ref_info = build_problem(pname, T, run["settings"]["diff"])
    install_clock()
    ref_obs = execute_once(ref_problem, ref_probe, ref_info, dict(run, N=pre["ref_N"]), T, pname)
    if ref_obs["status"] != "ran":
        return ref_obs["status"] + ": " + str(ref_obs.get("reason", ""))[:60]
    if ref_obs.get("exception"):
        return "the reference run raised " + ref_obs["exception"][:60]
    mode = pre["mode"]
    constraint_names = set(ref_info["names"][1:])
    n_stored = 0
    for key, entry in ref_problem.database.items():
        if mode == "empty":
            data = {}
        elif mode == "objective":
            data = {k: v for k, v in entry.items() if k == ref_info["names"][0]}
        elif mode == "constraints":
            data = {k: v for k, v in entry.items() if k in constraint_names}
        elif mode == "jacobian":
            data = {k: v for k, v in entry.items() if k.startswith("@")}
        else:
            data = dict(entry)
        problem.database.store(np.array(key.wrapped_array), data)
        n_stored += 1
    return None if n_stored else "the reference run recorded nothing"


def run_history(case):
    """Execute the runs of a case on one problem; return [(run, obs, violations)]."""
    T = TABLES[case.get("table", 0)]
    pname = case["problem"]
    runs = case["runs"]
    problem, probe, info = build_problem(pname, T, runs[0]["settings"]["diff"])
    if probe.raise_at:
        fd, probe.raise_log = tempfile.mkstemp(prefix="c03_raised_", dir=SCRATCH or None)
        os.close(fd)
    out = []
    history = "single" if len(runs) == 1 else "second-run"
    tags = {}
    if case.get("table", 0) in ROUNDING_TABLES:
        tags["bounds"] = "not-representable"
    pre = case.get("prefill")
    if pre:
        tags["prefill"] = pre["mode"]
        status = prefill_database(problem, pname, T, runs[0], pre)
        if status is not None:
            return [(runs[0], {"status": "not-applicable", "reason": f"prefill: {status}"}, [])]
    for i, run in enumerate(runs):
        install_clock()
        obs = execute_once(problem, probe, info, run, T, pname)
        if obs["status"] != "ran":
            out.append((run, obs, []))
            break
        observe_raise(obs, probe)
        bad = judge(obs, run, pname, info, history="single" if i == 0 else history, first=runs[0] if i else None, tags=tags)
        out.append((run, obs, bad))
        if obs.get("exception"):
            break
    if probe.raise_log and os.path.exists(probe.raise_log):
        os.remove(probe.raise_log)
    return out


def _slim(obs):
    keep = ("status", "reason", "exception", "exc_where", "message", "counter_before", "counter_after", "counter_max", "fd_probes", "is_feasible", "f_opt", "sub_db_sizes")
    d = {k: obs[k] for k in keep if k in obs}
    if "new_keys" in obs:
        d["new_entries"] = len(obs["new_keys"])
        d["new_keys"] = [k.tolist() for k in obs["new_keys"][:14]]
        d["distinct_func_points"] = len(obs["func_points"])
        d["distinct_jac_points"] = len(obs["jac_points"])
    if "samples" in obs:
        d["samples"] = np.asarray(obs["samples"]).tolist()[:14]
    if obs.get("x_opt") is not None:
        d["x_opt"] = obs["x_opt"].tolist()
    return d


HANG_TIMEOUT = 5  # seconds of CPU after which an isolated case is killed (a normal case takes 0.01-0.3 s)
ISOLATED_LIBRARIES = ("Nlopt",)  # C code that a Python-level alarm cannot interrupt; parallel DOEs are isolated too


def check_case(case, tally):
    """Run one case; the cases of ISOLATED_LIBRARIES run in a forked child that can be killed."""
    runs = case["runs"]
    parallel = any(r["settings"].get("n_processes", 1) > 1 for r in runs)
    if not parallel and not any(library_of(r["kind"], r["algo"]) in ISOLATED_LIBRARIES for r in runs):
        return _check_case(case, tally)
    import os
    import pickle
    import select
    import signal
    import time

    from mc.core import Tally

    rfd, wfd = os.pipe()
    pid = os.fork()
    if pid == 0:  # child
        code = 0
        try:
            os.close(rfd)
            signal.alarm(0)
            os.setpgrp()  # the manager / worker processes of a parallel DOE die with this group
            t = Tally()
            try:
                _check_case(case, t)
            except Exception:  # same treatment as in mc.core.pmap: never a silent pass
                import traceback

                t.violation({"invariant": "harness-error", "where": traceback.format_exc().strip().splitlines()[-1][:120]}, case, traceback.format_exc())
            payload = pickle.dumps(t)
            with os.fdopen(wfd, "wb") as f:  # length-prefixed: processes left behind by the case keep the pipe open
                f.write(len(payload).to_bytes(8, "little") + payload)
        except BaseException:
            code = 3
        finally:
            os._exit(code)
    os.close(wfd)
    data = b""
    t_start = time.time()
    hung = reaped = False
    tick = os.sysconf("SC_CLK_TCK")
    while True:
        ready, _, _ = select.select([rfd], [], [], 1.0)
        if ready:
            chunk = os.read(rfd, 1 << 16)
            data += chunk
            if not chunk or (len(data) >= 8 and len(data) - 8 >= int.from_bytes(data[:8], "little")):
                break
            continue
        if os.waitpid(pid, os.WNOHANG)[0] == pid:  # the child is gone without (complete) report
            reaped = True
            break
        # the cap is on the CPU time of the child (the machine may be oversubscribed), with a generous wall limit
        try:
            with open(f"/proc/{pid}/stat") as f:
                fields = f.read().rsplit(")", 1)[1].split()
            cpu = (int(fields[11]) + int(fields[12])) / tick
        except (OSError, IndexError, ValueError):
            cpu = 0.0
        if cpu > HANG_TIMEOUT or time.time() - t_start > 20 * HANG_TIMEOUT:
            hung = True
            break
    os.close(rfd)
    if hung:
        os.kill(pid, signal.SIGKILL)
    if not reaped:
        os.waitpid(pid, 0)
    complete = len(data) >= 8 and len(data) - 8 >= int.from_bytes(data[:8], "little")
    data = data[8:] if complete else b""
    try:
        os.killpg(pid, signal.SIGKILL)  # whatever the case left behind (multiprocessing manager servers)
    except OSError:
        pass
    last = runs[-1]
    if hung:
        # A cap of the harness, not a violation: the statement has no time clause.  (NLOPT_NEWUOA stalls for about a
        # minute inside nlopt after GEMSEO's MaxIterReachedException for a few budgets, then returns the right result;
        # reproduced with nlopt alone by raising from the objective callback.)
        tally.case(json.dumps(case, sort_keys=True), nontrivial=True, outcome="capped/killed-after-%ds-cpu" % HANG_TIMEOUT)
        tally.count(f"capped:{last['algo']}")
        tally.sets.setdefault("capped", set()).add(json.dumps(case, sort_keys=True))
        return
    if not data:
        sig = {
            "invariant": "driver-process-died",
            "family": family(last["kind"], last["algo"]),
            "algorithm": last["algo"],
            "problem_class": PROBLEM_CLASS[case["problem"]],
            "history": "single" if len(runs) == 1 else "second-run",
            **_non_default(last),
        }
        tally.case(json.dumps(case, sort_keys=True), nontrivial=True, outcome="died")
        tally.violation(sig, case, f"driver-process-died: the forked process running the case ended without reporting\n  case={json.dumps(case, sort_keys=True)}")
        return
    tally.merge(pickle.loads(data))


def _check_case(case, tally):
    results = run_history(case)
    pname = case["problem"]
    for i, (run, obs, bad) in enumerate(results):
        algo = run["algo"]
        last = i == len(results) - 1
        if obs["status"] != "ran":
            tally.count(f"{obs['status']}:{algo}")
            tally.sets.setdefault(obs["status"], set()).add((algo, pname, obs.get("reason", "")))
            if last:
                tally.case(json.dumps(case, sort_keys=True), nontrivial=False, outcome=f"{obs['status']}")
            return
        if i == 0:
            tally.sets.setdefault("accepted", set()).add((run["kind"], algo, pname))
        n_new = len(obs["new_keys"])
        cls = stop_class(obs)
        fill = "none" if n_new == 0 else ("full" if n_new >= run["N"] else "part")
        if last:
            tally.case(
                json.dumps(case, sort_keys=True),
                nontrivial=obs["n_calls"] > 0 or n_new > 0,
                outcome=f"{family(run['kind'], algo)}/{'pair' if len(case['runs']) > 1 else 'single'}/{cls}/{fill}",
                sample={"case": case, "observed": _slim(obs)},
            )
        tally.count(f"stop:{cls}")
        if run["settings"]["stop"] != "budget":
            tally.count(f"forced:{run['settings']['stop']}:{'fired' if cls == run['settings']['stop'] else 'other:' + cls}")
        if not run["settings"]["reset"] and i > 0:
            remaining = max(0, run["N"] - obs["counter_before"])
            tally.count("no-reset:" + ("within-remaining-budget" if n_new <= remaining else "beyond-remaining-budget"))
        if i > 0 and cls == "kkt" and run["settings"]["stop"] != "kkt":
            tally.count("second-run-stopped-by-the-kkt-listener-of-the-first-run")
        if obs.get("empty_entries_left"):
            tally.count("parallel-doe-stopped-by-max_time-leaves-empty-entries")
        if cls == "no-message":
            tally.sets.setdefault("no-message", set()).add(algo)
        if obs.get("library_error"):
            tally.sets.setdefault("library-error", set()).add((algo, pname, f"{obs.get('exc_type')} in {obs.get('exc_where')}"))
        for sig, msg in bad:
            tally.violation(sig, case, msg + f"\n  case={json.dumps(case, sort_keys=True)}\n  observed={json.dumps(_jsonable(_slim(obs)))[:900]}")


def _jsonable(o):
    from mc.core import jsonable

    return jsonable(o)


# ------------------------------------------------------------------------------------------------
# enumeration
# ------------------------------------------------------------------------------------------------
def make_run(kind, algo, n, st):
    run = {"kind": kind, "algo": algo, "N": n, "settings": {k: st[k] for k in SETTING_AXES}}
    if algo in COMPOSITE_SUB:
        run["sub"] = COMPOSITE_SUB[algo]
    return run


def relevant(kind, algo, pname, st, kkt_algos):
    """Drop combinations that the code itself turns into no-ops (counted as pruned)."""
    if not st["round_ints"] and pname not in ("mixed", "milp"):
        return False  # preprocess_functions drops round_ints without integer variables
    if kind == "opt":
        if st["eval_jac"] or st["n_processes"] != 1:
            return False
        if st["stop"] in ("kkt", "kkt_armed") and algo not in kkt_algos:
            return False
    else:
        if st["stop"] in ("ftol", "xtol", "kkt", "kkt_armed"):
            return False
        if (not st["store_jacobian"] or st["diff"] != "user") and not st["eval_jac"]:
            return False  # a DOE only touches derivatives with eval_jac=True
    return True


def run(ctx):
    global SCRATCH
    SCRATCH = ctx.scratch
    tally = ctx.tally
    table = ctx.seed % N_SEED_TABLES
    opt_algos, doe_algos = algo_lists()
    algos = [("opt", a) for a in opt_algos] + [("doe", a) for a in doe_algos]
    if ctx.only:
        algos = [ka for ka in algos if ctx.only in ka[1]] or algos
    kkt_algos = {a for a in opt_algos if "kkt_tol_abs" in factory("opt").create(a).ALGORITHM_INFOS[a].Settings.model_fields}
    tally.notes["algorithms"] = {"optimizers": len(opt_algos), "does": len(doe_algos)}

    # phase 1: default settings, every algorithm x every problem x every budget
    def phase1():
        for kind, algo in algos:
            for pname in PROBLEMS:
                for n in BUDGETS:
                    yield {"problem": pname, "table": table, "runs": [make_run(kind, algo, n, DEFAULTS)]}

    pmap(check_case, phase1(), tally, jobs=ctx.jobs, chunk=3, timeout=CASE_TIMEOUT)
    accepted = sorted(tally.sets.get("accepted", set()))
    acc = {}
    for kind, algo, pname in accepted:
        acc.setdefault((kind, algo), []).append(pname)

    # phase 2: deviations of the settings on the accepted pairs
    k = 2 if ctx.thorough else 1
    pruned = 0

    def phase2():
        nonlocal pruned
        for kind, algo in algos:
            names = acc.get((kind, algo), [])
            if ctx.thorough:
                plist = [p for p in PROBLEMS if p in names]
            else:
                plist = [p for p in DEVIATION_PROBLEMS if p in names][:2]
            for st in product.deviations(SETTING_AXES, k):
                d = st.pop("_deviations")
                if d == 0:
                    continue
                for pname in plist:
                    if not relevant(kind, algo, pname, st, kkt_algos):
                        pruned += len(BUDGETS)
                        continue
                    for n in BUDGETS:
                        yield {"problem": pname, "table": table, "runs": [make_run(kind, algo, n, st)]}

    pmap(check_case, phase2(), tally, jobs=ctx.jobs, chunk=3, timeout=CASE_TIMEOUT)

    # phase 3: histories - ordered pairs of executions on the same problem, with and without counter reset
    if ctx.thorough:
        pair_algos = algos
        pair_problems = ["ineq", "quad"]
        budgets = [(3, 3), (3, 5)]
    else:
        quick_names = ["SLSQP", "NLOPT_COBYLA", "L-BFGS-B", "DIFFERENTIAL_EVOLUTION", "MultiStart", "Augmented_Lagrangian_order_1", "LHS", "PYDOE_FULLFACT", "CustomDOE", "OT_SOBOL"]
        pair_algos = [ka for ka in algos if ka[1] in quick_names]
        pair_problems = ["ineq", "quad"]
        budgets = [(3, 3)]

    def phase3():
        for pname in pair_problems:
            for k1, a1 in pair_algos:
                if pname not in acc.get((k1, a1), []):
                    continue
                for k2, a2 in pair_algos:
                    if pname not in acc.get((k2, a2), []):
                        continue
                    for n1, n2 in budgets:
                        for reset in (True, False):
                            st2 = dict(DEFAULTS, reset=reset)
                            yield {"problem": pname, "table": table, "runs": [make_run(k1, a1, n1, DEFAULTS), make_run(k2, a2, n2, st2)]}
                    if a1 in kkt_algos:
                        # the KKT checker of the first execution is a store listener that the driver never removes
                        st1 = dict(DEFAULTS, stop="kkt")
                        yield {"problem": pname, "table": table, "runs": [make_run(k1, a1, budgets[0][0], st1), make_run(k2, a2, budgets[0][1], DEFAULTS)]}

    pmap(check_case, phase3(), tally, jobs=ctx.jobs, chunk=4, timeout=CASE_TIMEOUT)

    # phase 4: histories with a pre-populated database (empty / partial / complete entries at the points the algorithm
    # visits), budgets smaller and larger than the number of pre-registered points
    def phase4():
        tables4 = [table, ROUNDING_TABLES[0]] if ctx.thorough else [table]
        for kind, algo in algos:
            names = acc.get((kind, algo), [])
            plist = [p for p in DEVIATION_PROBLEMS if p in names][: 2 if ctx.thorough else 1]
            if kind == "opt":
                budgets4 = [(8, 3), (4, 8)] + ([(12, 5), (3, 12)] if ctx.thorough else [])
            else:
                budgets4 = [(3, 3), (12, 12)]
            variants = [DEFAULTS] + ([dict(DEFAULTS, normalize="flip")] if ctx.thorough else [])
            for pname in plist:
                for mode in PREFILL_MODES:
                    if mode == "constraints" and pname in ("quad", "biobj"):
                        continue
                    for tb in tables4:
                        for st in variants:
                            for ref_n, n in budgets4:
                                yield {"problem": pname, "table": tb, "prefill": {"mode": mode, "ref_N": ref_n}, "runs": [make_run(kind, algo, n, st)]}

    pmap(check_case, phase4(), tally, jobs=ctx.jobs, chunk=3, timeout=CASE_TIMEOUT)

    # phase 5: parallel (and serial) DOEs on functions that take normalized inputs - normalize_design_space=True, or after
    # a normalized optimizer on the same problem - on bounds for which the normalization round trip is not bit-exact, with
    # 20 samples: the keys must be the generated samples, bitwise in parallel mode, in generation order
    def phase5():
        for kind, algo in algos:
            if kind != "doe":
                continue
            for pname in ["ineq", "quad"] if ctx.thorough else ["ineq"]:
                if pname not in acc.get((kind, algo), []):
                    continue
                for tb in ROUNDING_TABLES:
                    for n_proc in (2, 1):
                        flips = [dict(DEFAULTS, normalize="flip", n_processes=n_proc)]
                        if ctx.thorough:
                            flips.append(dict(DEFAULTS, normalize="flip", n_processes=n_proc, eval_jac=True))
                        for st in flips:
                            yield {"problem": pname, "table": tb, "runs": [make_run(kind, algo, 20, st)]}
                        for first in ["SLSQP"] + (["L-BFGS-B", "NLOPT_COBYLA"] if ctx.thorough else []):
                            if first in opt_algos:
                                st2 = dict(DEFAULTS, n_processes=n_proc)
                                yield {"problem": pname, "table": tb, "runs": [make_run("opt", first, 3, DEFAULTS), make_run(kind, algo, 20, st2)]}

    pmap(check_case, phase5(), tally, jobs=ctx.jobs, chunk=4, timeout=CASE_TIMEOUT)

    rejected = {}
    for algo, pname, reason in sorted(tally.sets.get("rejected", set())):
        rejected.setdefault(algo, {})[pname] = reason
    tally.notes["rejected_by_the_library"] = rejected
    srej = {}
    for algo, pname, reason in sorted(tally.sets.get("settings-rejected", set())):
        srej.setdefault(algo, set()).add(reason)
    tally.notes["settings_rejected_by_the_library"] = {a: sorted(r)[:6] for a, r in srej.items()}
    tally.notes["accepted_pairs"] = len(accepted)
    tally.notes["algorithms_with_an_accepted_problem"] = len(acc)
    tally.notes["algorithms_without_accepted_problem"] = sorted(a for _, a in algos if not any(a == b for _, b in acc))
    tally.notes["results_without_message"] = sorted(tally.sets.get("no-message", set()))
    lerr = {}
    for algo, pname, what in sorted(tally.sets.get("library-error", set())):
        lerr.setdefault(f"{algo}: {what}", []).append(pname)
    tally.notes["errors_of_the_wrapped_library_unrelated_to_a_stop"] = {k_: sorted(set(v_)) for k_, v_ in lerr.items()}
    tally.notes["pruned_noop_combinations"] = pruned
    capped = sorted(tally.sets.get("capped", set()))
    caps = {}
    if capped:
        caps = {
            f"cases_killed_after_{HANG_TIMEOUT}s_of_cpu": len(capped),
            "algorithms": sorted({json.loads(c)["runs"][-1]["algo"] for c in capped}),
            "first": json.loads(capped[0]),
            "meaning": "the driver had not returned yet (no time clause in the statement: not a violation); the budget and result "
            "invariants of these cases are not evaluated",
        }
    meta_caps = {"caps": caps} if caps else {}
    return {
        **meta_caps,
        "level": LEVEL,
        "rule": "one case = one execution history (1 or 2 driver executions) on a fresh harness problem; phase 1: every algorithm "
        "x problem x budget at default settings; phase 2: every assignment of the setting axes with <= k deviations on the "
        "accepted pairs; phase 3: ordered pairs of executions x counter reset; phase 4: executions on a database pre-populated "
        "with empty / partial / complete entries at the points of a dry reference run; phase 5: parallel and serial DOEs (20 samples) on "
        "normalized functions over bounds that are not exactly representable. Non-trivial = the library accepted the case and "
        "at least one original function was really called (or an entry recorded) during the last execution.",
        "exhaustive": not caps,
        "bounds": {
            "budgets": BUDGETS,
            "problems": PROBLEMS,
            "deviations": k,
            "axes": {a: len(v) for a, v in SETTING_AXES.items()},
            "pair_algorithms": len(pair_algos),
            "pair_budgets": budgets,
            "prefill_modes": PREFILL_MODES,
            "rounding_bound_tables": [[TABLES[i]["lb"], TABLES[i]["ub"]] for i in ROUNDING_TABLES],
            "parallel_doe_samples": 20,
            "value_table": table,
        },
        "assumptions": [
            "third-party optimizers are black boxes: the check bounds what they may evaluate, it does not explore their choices",
            "problems have 2 design variables; one value table per seed (3 tables)",
            "wall clock = virtual clock bound to gemseo.algos.base_driver_library.time (+1 s per reading)",
            "finite-difference probes are the calls issued from gemseo/utils/derivatives (stack tag)",
            "with use_database=False GEMSEO records nothing and cannot count: budget-points is reported under its own invariant id",
            "composite algorithms use one sub-algorithm each (case record field 'sub')",
            "quick: deviations on the first two accepted problems of each algorithm; thorough: all accepted problems",
        ],
    }


def replay(case, ctx):
    global SCRATCH
    SCRATCH = getattr(ctx, "scratch", None)
    results = run_history(case)
    out = {"case": case, "executions": [], "violations": []}
    for run_, obs, bad in results:
        out["executions"].append({"algo": run_["algo"], "N": run_["N"], **_jsonable(_slim(obs))})
        for sig, msg in bad:
            out["violations"].append({"signature": sig, "message": msg})
    return out
