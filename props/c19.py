"""C19 - probability distributions and parameter spaces are self-consistent (engine E2).

Part A  every class of ``DistributionFactory`` (a class without a recipe is reported, never dropped) x a parameter
        alphabet per family (4 vectors: the wrapper defaults, shifted / scaled, edge shapes; OpenTURNS wrappers
        also truncated on both / one side and transformed by ``2*x+1``, ``-x``, ``exp(x)``) x p in
        {0.01, 0.1, 0.5, 0.9, 0.99}; dimension 1.
        Plus the "falsy but valid" alphabet (never imaged by VERIF_SEED): every wrapper with no argument at all,
        with one argument exactly 0 / 0.0 / int 0 (locations, minima, maxima, modes, means) or exactly 1 (scales,
        rates, shapes), OpenTURNS truncation bounds exactly 0.0 (lower only, upper only, both with one of them 0,
        0 on the support bound, after a transformation, int 0), identity transformations ("x", " x ", "1*x+0",
        "x+0", "" given explicitly), threshold 0.0 / 1.0, generic interfaces with empty / zero native parameters.
Part J  dimension 2: every ordered pair of Part-A recipes of one library as ``SPJointDistribution`` /
        ``OTJointDistribution`` (+ a Gaussian copula for OpenTURNS on the plain recipes).
Part X  SciPy <-> OpenTURNS: every (family, parameter vector) that both libraries wrap, compared directly.
Part S  parameter spaces: every arrival order of <= 2 random and <= 1 deterministic variables (8 shapes) x random
        variable alphabet (per family: 2 scalar variables, 1 vector of size 2 with per-component parameters, 1
        broadcast vector; truncated / transformed / Dirac / generic-interface ones) x deterministic alphabet
        (bounded, bounded size 2 with lb == ub, half-bounded, integer, lower bound = value = 0, upper bound = 0 and
        lb == ub == 0) x size given / left to the default (alternating with the parameter vector) x construction path (direct, renamed,
        built with an extra random variable that is removed).
Part T  statistics: EmpiricalStatistics / ParametricStatistics on fixed seeded datasets.

Oracles: the reference of every law is written in props/_c19_laws.py with math / scipy.special only.

Tolerances (EPS = 2^-52; M = largest magnitude among |x|, the finite support bounds and |mean|;
Q'(p) = slope of the reference quantile function, 1 / pdf)
---------------------------------------------------------------------------------------------------
closed-form wrappers (no truncation, no transformation): both libraries evaluate F and Q by formulas, so only
rounding remains.  A relative perturbation EPS of x - loc moves F by EPS * M / Q'(p); assembling loc + scale * z
and forming 1 - p move Q by EPS * (M + Q'(p)).  Budget 64 such roundings:
    tol_F = 64 EPS (1 + M / Q'(p))            tol_Q = 64 EPS (M + Q'(p))
numerical wrappers (OpenTURNS TruncatedDistribution / CompositeDistribution): OpenTURNS documents its solver
accuracies in its ResourceMap (Distribution-DefaultQuantileEpsilon = 1e-12, Distribution-DefaultCDFEpsilon = 1e-14,
CompositeDistribution-SolverEpsilon = 1e-14) - absolute numbers, in x for the quantile solver; the tolerance of
DESIGN.md, 1e-9 = 10^3 times that, is added to the rounding budget both relative and absolute:
    tol_Q += 1e-9 (1 + |x| + sigma)           tol_F += 1e-9 (1 + 1 / Q'(p))   (an x-error seen through the slope)
round trips:  |F(Q(p)) - p| <= tol_F + 2 tol_Q / Q'(p),   |Q(F(x)) - x| <= tol_Q + 2 tol_F Q'(p).
moments: closed forms are a handful of flops with cancellation <= 100 on the alphabet (Weibull: Gamma(1+2/k) -
Gamma(1+1/k)^2) and library constants tabulated to 13 digits (OpenTURNS' pi / sqrt(6)): relative 1e-11.
Numerically integrated moments (truncated / transformed): OpenTURNS integrates over its numerical range (mass
2e-14 left out) with GaussKronrod-MaximumError = 1e-12 per sub-interval (<= 100) and forms E X^2 - (E X)^2
(amplification <= 100 on the alphabet): 1e-8 relative to |mean| + sigma, plus the error estimate of the
reference quadrature when the reference itself is a quadrature.
A wrong parameter mapping or formula moves every one of these quantities by >= 1e-3 on this alphabet.

Oracle boundaries
-----------------
* OTDiracDistribution is discrete: F and Q cannot be mutual inverses; the generalized-inverse inequalities
  F(Q(p)) >= p, Q(F(x)) <= x are checked instead, with exact moments.
* ``range`` is the libraries' numerical range: asked to lie inside the support and to contain the
  (1e-6, 1 - 1e-6) quantile interval, not to equal the support.
* ``support`` of a *transformed* OpenTURNS distribution is OpenTURNS' numerical range of the composite
  (``transformation='-x'`` of N(1, 2) reports [-16.3, 14.3]); the statement only asks samples to lie in the
  reported support, so it is asked to contain the range and lie inside the analytic support.  Untransformed
  wrappers must report the analytic support.
* truncation / transformation are not enumerated on laws with an unbounded density (Beta(0.5, 0.5)):
  OpenTURNS' composite / truncated algorithms integrate and interpolate the density and lose accuracy at an
  integrable singularity (cdf off by 6e-7, mean by 4e-8 for '2*x+1' of Beta(0.5, 0.5)) - an accuracy of the
  interfaced library the statement does not speak about; the plain wrappers of these laws are enumerated.
* Q(0) and Q(1) are conventions; only F(lower bound) = 0 and F(upper bound) = 1 are checked at the ends.
* the ``out`` argument of transform_vect / untransform_vect is not part of the statement and not checked.
* statistics: biased or unbiased standard deviation / variance (but variance == std^2), any of numpy's nine
  quantile definitions (but median / quartile / percentile == own quantile), >= or > at a threshold equal to a
  sample are all accepted.  Tolerance intervals, A/B-values and goodness-of-fit values are not checked
  (no deterministic reference); selection is checked against the criteria the object itself reports.
* statistical statements proper (a sample "follows" its law) are not checked - that would be sampling.
"""
from __future__ import annotations

import functools
import json
import math

import numpy as np

from mc import product
from mc.core import pmap
from props import _c19_laws as L

LEVEL = "exploration"
EPS = 2.0**-52
P_GRID = [0.01, 0.1, 0.5, 0.9, 0.99]
T_GRID = [0.0, 0.25, 1.0]
NUM_TOL = 1e-9
MOM_RTOL_CLOSED = 1e-11
MOM_RTOL_NUMERIC = 1e-8
N_SAMPLES = 64

FAMILIES = ["uniform", "normal", "triangular", "exponential", "beta", "weibull", "lognormal"]
WRAPPER = {"uniform": "Uniform", "normal": "Normal", "triangular": "Triangular", "exponential": "Exponential", "beta": "Beta", "weibull": "Weibull", "lognormal": "LogNormal"}
OT_DEFAULT_MODS = {"transformation": "", "lower_bound": None, "upper_bound": None}


# ------------------------------------------------------------------------------------------------------------
# recipes: how a law of the alphabet is asked from each class of the factory
# ------------------------------------------------------------------------------------------------------------
def wrapper_kwargs(kind, p):
    if kind == "uniform":
        return dict(minimum=p["a"], maximum=p["b"])
    if kind == "normal":
        return dict(mu=p["mu"], sigma=p["sigma"])
    if kind == "triangular":
        return dict(minimum=p["a"], mode=p["c"], maximum=p["b"])
    if kind == "exponential":
        return dict(rate=p["rate"], loc=p["loc"])
    if kind == "beta":
        return dict(alpha=p["alpha"], beta=p["beta"], minimum=p["a"], maximum=p["b"])
    if kind == "weibull":
        return dict(location=p["loc"], scale=p["scale"], shape=p["shape"], use_weibull_min=p["min"])
    if kind == "lognormal":
        return dict(mu=p["mu"], sigma=p["sigma"], location=p["location"], set_log=p["set_log"])
    raise ValueError(kind)


def generic_kwargs(lib, kind, p):
    """Native parametrization of the interfaced library for the generic SPDistribution / OTDistribution."""
    if lib == "SP":
        name, prm = {
            "uniform": lambda: ("uniform", dict(loc=p["a"], scale=p["b"] - p["a"])),
            "normal": lambda: ("norm", dict(loc=p["mu"], scale=p["sigma"])),
            "exponential": lambda: ("expon", dict(loc=p["loc"], scale=1 / p["rate"])),
            "gumbel": lambda: ("gumbel_r", dict(loc=p["loc"], scale=p["scale"])),
            "logistic": lambda: ("logistic", dict(loc=p["loc"], scale=p["scale"])),
        }[kind]()
        return dict(interfaced_distribution=name, parameters=prm)
    name, prm = {
        "uniform": lambda: ("Uniform", [p["a"], p["b"]]),
        "normal": lambda: ("Normal", [p["mu"], p["sigma"]]),
        "exponential": lambda: ("Exponential", [p["rate"], p["loc"]]),
        "gumbel": lambda: ("Gumbel", [p["scale"], p["loc"]]),
        "logistic": lambda: ("Logistic", [p["loc"], p["scale"]]),
    }[kind]()
    return dict(interfaced_distribution=name, parameters=prm)


GENERIC_KINDS = ["uniform", "normal", "exponential", "gumbel", "logistic"]
MODS = ["T2", "TL", "TU", "A+", "A-", "AT"]


def _modified(rec, mod):
    """An OpenTURNS recipe with a truncation and / or transformation; bounds are reference quantiles of the law."""
    base = L.make_law(rec["law"])
    kw = dict(rec["kwargs"])
    law = list(rec["law"])
    q = base.quantile
    if mod == "T2":
        lo, hi = q(0.2), q(0.9)
        kw.update(lower_bound=lo, upper_bound=hi)
        law.append(["trunc", lo, hi])
    elif mod == "TL":
        lo = q(0.3)
        kw.update(lower_bound=lo)
        law.append(["trunc", lo, None])
    elif mod == "TU":
        hi = q(0.8)
        kw.update(upper_bound=hi)
        law.append(["trunc", None, hi])
    elif mod == "A+":
        kw.update(transformation="2*x+1")
        law.append(["affine", 2.0, 1.0])
    elif mod == "A-":
        kw.update(transformation="-x")
        law.append(["affine", -1.0, 0.0])
    elif mod == "AT":
        lo, hi = 2 * q(0.2) + 1, 2 * q(0.9) + 1
        kw.update(transformation="2*x+1", lower_bound=lo, upper_bound=hi)
        law += [["affine", 2.0, 1.0], ["trunc", lo, hi]]
    else:
        raise ValueError(mod)
    return dict(rec, kwargs=kw, law=law, numeric=True, transformed=rec["transformed"] or mod[0] == "A", id=f"{rec['id']}+{mod}", mods=rec["mods"] + 1)


def recipes(lib, thorough, img):
    """All recipes of one library, simplest first."""
    A, K = L.IMAGES[img]
    out = []
    for kind in FAMILIES:
        for i, p0 in enumerate(L.BASE[kind]):
            p = L.image(kind, p0, A, K)
            out.append(dict(cls=f"{lib}{WRAPPER[kind]}Distribution", kwargs=wrapper_kwargs(kind, p), law=L.spec_of(kind, p), numeric=False, transformed=False, family=kind, pidx=i, id=f"{kind}#{i}", mods=0))
    plain = list(out)
    for kind in GENERIC_KINDS:
        vectors = L.BASE[kind] if thorough else L.BASE[kind][1:2]
        for i, p0 in enumerate(vectors):
            p = L.image(kind, p0, A, K)
            out.append(dict(cls=f"{lib}Distribution", kwargs=generic_kwargs(lib, kind, p), law=L.spec_of(kind, p), numeric=False, transformed=False, family=kind, pidx=i, id=f"generic-{kind}#{i}", mods=0))
    # the generic classes with their own defaults (library defaults: SciPy U(0, 1), OpenTURNS U(-1, 1))
    out.append(dict(cls=f"{lib}Distribution", kwargs={}, law=["uniform", dict(a=0.0 if lib == "SP" else -1.0, b=1.0)], numeric=False, transformed=False, family="uniform", pidx=-1, id="generic-default", mods=0))
    if lib == "OT":
        for i, p0 in enumerate(L.BASE["dirac"]):
            p = L.image("dirac", p0, A, K)
            out.append(dict(cls="OTDiracDistribution", kwargs=dict(variable_value=p["v"]), law=["dirac", p], numeric=False, transformed=False, family="dirac", pidx=i, id=f"dirac#{i}", mods=0))
        for rec in plain:
            if L.make_law(rec["law"]).unbounded_pdf:
                continue  # oracle boundary: see the module docstring
            if thorough or rec["pidx"] == 1:
                out.extend(_modified(rec, m) for m in MODS)
        # exp(N(mu, sigma)) is LogNormal(mu, sigma, 0): parameters of the un-imaged alphabet (exp is not affine)
        for i, p0 in enumerate(L.BASE["normal"][:3] if thorough else L.BASE["normal"][1:2]):
            s = p0["sigma"] / 2
            out.append(dict(cls="OTNormalDistribution", kwargs=dict(mu=p0["mu"], sigma=s, transformation="exp(x)"), law=["lognormal", dict(m=p0["mu"], s=s, loc=0.0)], numeric=True, transformed=True, family="normal", pidx=i, id=f"normal#{i}+EXP", mods=1))
        g = [r for r in out if r["id"].startswith("generic-logistic")][0]
        m = _modified(_modified(dict(g, mods=0), "A-"), "TL")
        out.append(m)
    out.extend(zero_recipes(lib))
    out.sort(key=lambda r: r["mods"])
    return out


def zero_recipes(lib):
    """The falsy-but-valid alphabet (props/_c19_laws.py): arguments exactly 0 / 0.0 / 1 / "" / identity, arguments
    left to the defaults, truncation bounds exactly 0.  Not imaged by VERIF_SEED."""
    out = []

    def rec(cls, kw, spec, name, family, k, numeric, transformed):
        return dict(cls=cls, kwargs=kw, law=L.resolve_spec(spec), numeric=numeric, transformed=transformed, family=family, pidx=k, id="z:" + name, mods=int(numeric), zero=True)

    for k, (name, family, kw, spec, libs) in enumerate(L.ZERO_PLAIN):
        if lib in libs:
            cls = "OTDiracDistribution" if family == "dirac" else f"{lib}{WRAPPER[family]}Distribution"
            out.append(rec(cls, dict(kw), spec, name, family, k, False, False))
    if lib == "OT":
        for k, (name, family, kw, spec, mkw, mods, transformed) in enumerate(L.ZERO_MODS):
            numeric = bool(mods)
            out.append(rec(f"OT{WRAPPER[family]}Distribution", {**kw, **mkw}, list(spec) + [list(m) for m in mods], name, family, k, numeric, transformed))
    for k, (name, glib, idist, prm, extra, spec, transformed) in enumerate(L.ZERO_GENERIC):
        if glib == lib:
            numeric = len(spec) > 2
            out.append(rec(f"{lib}Distribution", dict(interfaced_distribution=idist, parameters=prm, **extra), spec, name, "generic", k, numeric, transformed))
    return out


def _ctor_kwargs(rec):
    kw = dict(rec["kwargs"])
    if rec["cls"] == "OTDistribution" and "parameters" in kw:
        kw["parameters"] = tuple(kw["parameters"])
    return kw


def build(rec):
    from gemseo.uncertainty.distributions.factory import DistributionFactory

    return DistributionFactory().create(rec["cls"], **_ctor_kwargs(rec))


@functools.lru_cache(maxsize=4096)
def _law_cached(key):
    return L.make_law(json.loads(key))


def law_of(rec):
    return _law_cached(json.dumps(rec["law"]))


# ------------------------------------------------------------------------------------------------------------
# tolerances
# ------------------------------------------------------------------------------------------------------------
def magnitude(law, x):
    vals = [abs(x), abs(law.mean)] + [abs(b) for b in law.support if math.isfinite(b)]
    return max(vals)


def tol_F(law, x, p, numeric):
    dq = max(L.dq_dp(law, p), 1e-300)
    return 64 * EPS * (1 + magnitude(law, x) / dq) + (NUM_TOL * (1 + 1 / dq) if numeric else 0.0)


def tol_Q(law, x, p, numeric):
    dq = L.dq_dp(law, p)
    return 64 * EPS * (magnitude(law, x) + dq) + (NUM_TOL * (1 + abs(x) + law.std) if numeric else 0.0)


def tol_mean(law, numeric):
    s = abs(law.mean) + law.std
    return (MOM_RTOL_NUMERIC if numeric else MOM_RTOL_CLOSED) * s + law.moments_err


def tol_std(law, numeric):
    if numeric:
        return MOM_RTOL_NUMERIC * (abs(law.mean) + law.std) + law.moments_err
    return MOM_RTOL_CLOSED * law.std


def seed_library(lib, seed):
    if lib == "OT":
        import openturns

        openturns.RandomGenerator.SetSeed(int(seed))
    else:
        np.random.seed(int(seed))


# ------------------------------------------------------------------------------------------------------------
# oracles of one marginal (used by parts A, J and S): F and Q are callables of a float
# ------------------------------------------------------------------------------------------------------------
def check_marginal(rec, F, Q, mean, std, support, rng, p_grid):
    """Yield (invariant, focus, message)."""
    law = law_of(rec)
    numeric = rec["numeric"]
    lo, hi = float(support[0]), float(support[1])
    rlo, rhi = float(rng[0]), float(rng[1])
    # ---- support ----
    slo, shi = law.support
    mag = magnitude(law, 0.0)
    slack = 8 * EPS * mag + (NUM_TOL * (mag + law.std) if numeric else 0.0)

    def same(a, b):
        return a == b if not (math.isfinite(a) and math.isfinite(b)) else abs(a - b) <= slack

    if rec["transformed"]:
        ok = (lo >= slo - slack) and (hi <= shi + slack) and lo <= rlo and rhi <= hi
    else:
        ok = same(lo, slo) and same(hi, shi)
    if not ok:
        yield "support", {}, f"support={[lo, hi]} analytic support={[slo, shi]} range={[rlo, rhi]}"
    # ---- range ----
    if law.discrete:
        if not (rlo == rhi == law.quantile(0.5)):
            yield "range", {}, f"range={[rlo, rhi]} of a Dirac at {law.quantile(0.5)}"
    else:
        q0, q1 = law.quantile(1e-6), law.quantile(1 - 1e-6)
        sl = NUM_TOL * (max(abs(q0), abs(q1)) + law.std)
        if not (lo - sl <= rlo <= q0 + sl and q1 - sl <= rhi <= hi + sl):
            yield "range", {}, f"range={[rlo, rhi]} support={[lo, hi]} reference quantiles(1e-6, 1-1e-6)={[q0, q1]}"
    # ---- moments ----
    if not abs(mean - law.mean) <= tol_mean(law, numeric):
        yield "mean", {}, f"mean={mean!r} closed form={law.mean!r} tol={tol_mean(law, numeric):.3g}"
    if not abs(std - law.std) <= tol_std(law, numeric):
        yield "standard_deviation", {}, f"standard_deviation={std!r} closed form={law.std!r} tol={tol_std(law, numeric):.3g}"
    # ---- cdf / inverse cdf ----
    if law.discrete:
        v = law.quantile(0.5)
        for p in p_grid:
            x = Q(p)
            if not (x == v and F(x) >= p and Q(F(v)) <= v and F(v - 1.0) == 0.0 and F(v + 1.0) == 1.0):
                yield "cdf-inverse-cdf(discrete)", {"p": p}, f"Dirac at {v}: Q({p})={x} F(Q)={F(x)} F(v-1)={F(v - 1.0)} F(v+1)={F(v + 1.0)}"
        return
    for b, want in ((lo, 0.0), (hi, 1.0)):
        if math.isfinite(b) and not rec["transformed"]:
            got = F(b)
            if not abs(got - want) <= 64 * EPS + (NUM_TOL if numeric else 0.0):
                yield "cdf-at-support-bound", {"x": b}, f"cdf({b!r})={got!r} expected {want}"
    for p in p_grid:
        x = law.quantile(p)
        dq = max(L.dq_dp(law, p), 1e-300)
        tf, tq = tol_F(law, x, p, numeric), tol_Q(law, x, p, numeric)
        xq = Q(p)
        fx = F(x)
        if not abs(xq - x) <= tq:
            yield "inverse_cdf-vs-closed-form", {"p": p}, f"inverse_cdf({p})={xq!r} closed form={x!r} tol={tq:.3g}"
        if not abs(fx - p) <= tf:
            yield "cdf-vs-closed-form", {"p": p}, f"cdf({x!r})={fx!r} closed form={p} tol={tf:.3g}"
        fq = F(xq)
        if not abs(fq - p) <= tf + 2 * tq / dq:
            yield "cdf(inverse_cdf(p))=p", {"p": p}, f"p={p} inverse_cdf(p)={xq!r} cdf(inverse_cdf(p))={fq!r} tol={tf + 2 * tq / dq:.3g}"
        qf = Q(fx)
        if not abs(qf - x) <= tq + 2 * tf * dq:
            yield "inverse_cdf(cdf(x))=x", {"p": p}, f"x={x!r} cdf(x)={fx!r} inverse_cdf(cdf(x))={qf!r} tol={tq + 2 * tf * dq:.3g}"


def check_samples(lib, sampler, support, dim, n=N_SAMPLES, seed=7):
    """Seeded samples lie in the reported support and are reproducible. Yield (invariant, focus, message)."""
    seed_library(lib, seed)
    s1 = np.asarray(sampler(n), dtype=float)
    seed_library(lib, seed)
    s2 = np.asarray(sampler(n), dtype=float)
    want = (n,) if dim == 0 else (n, dim)
    if s1.shape != want:
        yield "samples-shape", {}, f"compute_samples({n}).shape={s1.shape} expected {want}"
        return
    if not np.array_equal(s1, s2):
        yield "samples-seeded-reproducible", {}, "two draws with the same library seed differ"
    sup = np.asarray(support, dtype=float).reshape(-1, 2)
    cols = s1.reshape(n, -1)
    for j in range(cols.shape[1]):
        bad = (cols[:, j] < sup[j, 0]) | (cols[:, j] > sup[j, 1]) | ~np.isfinite(cols[:, j])
        if bad.any():
            yield "samples-in-support", {"component": j}, f"sample {cols[bad, j][0]!r} outside the reported support {sup[j].tolist()}"


# ------------------------------------------------------------------------------------------------------------
# Part A / J / X executors.  Each returns (violations, observation): violations = [(signature, focus, message)]
# ------------------------------------------------------------------------------------------------------------
def _lib(rec):
    return rec["cls"][:2]


def exec_dist(case):
    rec = case["rec"]
    out = []
    try:
        d = build(rec)
    except Exception as e:  # an admissible parameter vector must be constructible
        return [({"invariant": "constructible", "class": rec["cls"]}, {}, f"{rec['cls']}(**{rec['kwargs']}) raised {type(e).__name__}: {e}")], {"outcome": "raised"}
    F = lambda x: float(d.compute_cdf(float(x)))  # noqa: E731
    Q = lambda p: float(d.compute_inverse_cdf(float(p)))  # noqa: E731
    for inv, focus, msg in check_marginal(rec, F, Q, float(d.mean), float(d.standard_deviation), d.support, d.range, case.get("p_grid", P_GRID)):
        out.append(({"invariant": inv, "class": rec["cls"], "modifier": rec["id"].partition("+")[2]}, focus, f"{rec['cls']}(**{rec['kwargs']}): {msg}"))
    lib = _lib(rec)
    sampler = (lambda n: d.compute_samples(n)) if lib == "OT" else (lambda n: d.compute_samples(n, random_state=7))
    for inv, focus, msg in check_samples(lib, sampler, d.support, 0):
        out.append(({"invariant": inv, "class": rec["cls"], "modifier": rec["id"].partition("+")[2]}, focus, f"{rec['cls']}(**{rec['kwargs']}): {msg}"))
    obs = {"outcome": f"{'numeric' if rec['numeric'] else 'closed'}:{'bounded' if np.isfinite(d.support).all() else 'unbounded'}", "mean": float(d.mean), "std": float(d.standard_deviation), "support": [float(v) for v in d.support], "range": [float(v) for v in d.range]}
    return out, obs


def exec_joint(case):
    recs = case["marginals"]
    lib = _lib(recs[0])
    cls = f"{lib}JointDistribution"
    out = []
    from gemseo.uncertainty.distributions.factory import DistributionFactory

    try:
        marg = [build(r) for r in recs]
        copula = None
        if case.get("copula") is not None:
            import openturns

            cm = openturns.CorrelationMatrix(2)
            cm[0, 1] = case["copula"]
            copula = openturns.NormalCopula(cm)
        j = DistributionFactory().create(cls, distributions=marg, copula=copula)
    except Exception as e:
        return [({"invariant": "constructible", "class": cls}, {}, f"{cls}({[r['id'] for r in recs]}) raised {type(e).__name__}: {e}")], {"outcome": "raised"}
    sig0 = {"class": cls, "copula": case.get("copula") is not None}
    if j.dimension != 2 or len(j.marginals) != 2:
        out.append(({"invariant": "joint-dimension", **sig0}, {}, f"dimension={j.dimension}"))
    sup, rng, mean, std = np.asarray(j.support), np.asarray(j.range), np.asarray(j.mean, dtype=float), np.asarray(j.standard_deviation, dtype=float)
    if sup.shape != (2, 2) or rng.shape != (2, 2) or mean.shape != (2,) or std.shape != (2,):
        out.append(({"invariant": "joint-shapes", **sig0}, {}, f"support{sup.shape} range{rng.shape} mean{mean.shape} std{std.shape}"))
        return out, {"outcome": "bad-shapes"}
    # the joint evaluates component-wise: feed the other component with its own median so that both are valid
    med = [law_of(r).quantile(0.5) for r in recs]
    for k, rec in enumerate(recs):
        def F(x, k=k):
            v = np.array(med, dtype=float)
            v[k] = x
            return float(j.compute_cdf(v)[k])

        def Q(p, k=k):
            v = np.array([0.5, 0.5])
            v[k] = p
            return float(j.compute_inverse_cdf(v)[k])

        for inv, focus, msg in check_marginal(rec, F, Q, mean[k], std[k], sup[k], rng[k], case.get("p_grid", P_GRID)):
            out.append(({"invariant": inv, **sig0, "marginal": rec["cls"], "modifier": rec["id"].partition("+")[2]}, dict(focus, component=k), f"{cls} component {k} = {rec['cls']}(**{rec['kwargs']}): {msg}"))
        # the joint and its marginal object agree bit for bit
        x = law_of(rec).quantile(0.9)
        if F(x) != float(marg[k].compute_cdf(float(x))) or Q(0.9) != float(marg[k].compute_inverse_cdf(0.9)):
            out.append(({"invariant": "joint-vs-marginal", **sig0, "marginal": rec["cls"]}, {"component": k}, f"{cls} component {k}: joint cdf/inverse cdf differ from the marginal's"))
    for inv, focus, msg in check_samples(lib, lambda n: j.compute_samples(n), sup, 2):
        out.append(({"invariant": inv, **sig0, "marginal": recs[focus.get("component", 0)]["cls"]}, focus, f"{cls}({[r['id'] for r in recs]}): {msg}"))
    return out, {"outcome": f"joint:{'copula' if copula is not None else 'independent'}", "mean": mean.tolist()}


def exec_cross(case):
    """SciPy and OpenTURNS wrappers of one law, compared directly (no reference except for the grid points)."""
    rs, ro = case["sp"], case["ot"]
    law = law_of(rs)
    try:
        a, b = build(rs), build(ro)
    except Exception as e:
        return [({"invariant": "constructible", "class": rs["cls"]}, {}, f"{type(e).__name__}: {e}")], {"outcome": "raised"}
    out = []
    sig = {"class": f"{rs['cls']}|{ro['cls']}"}
    head = f"{rs['cls']}(**{rs['kwargs']}) vs {ro['cls']}"
    worst = 0.0
    if not abs(float(a.mean) - float(b.mean)) <= 2 * tol_mean(law, False):
        out.append(({"invariant": "scipy-openturns-mean", **sig}, {}, f"{head}: mean {a.mean!r} vs {b.mean!r}"))
    if not abs(float(a.standard_deviation) - float(b.standard_deviation)) <= 2 * tol_std(law, False):
        out.append(({"invariant": "scipy-openturns-standard_deviation", **sig}, {}, f"{head}: standard deviation {a.standard_deviation!r} vs {b.standard_deviation!r}"))
    sa, sb = np.asarray(a.support, dtype=float), np.asarray(b.support, dtype=float)
    if not all((x == y) if not (np.isfinite(x) and np.isfinite(y)) else abs(x - y) <= 16 * EPS * magnitude(law, 0.0) for x, y in zip(sa, sb)):
        out.append(({"invariant": "scipy-openturns-support", **sig}, {}, f"{head}: support {sa.tolist()} vs {sb.tolist()}"))
    for p in case.get("p_grid", P_GRID):
        x = law.quantile(p)
        fa, fb = float(a.compute_cdf(x)), float(b.compute_cdf(x))
        qa, qb = float(a.compute_inverse_cdf(p)), float(b.compute_inverse_cdf(p))
        worst = max(worst, abs(fa - fb), abs(qa - qb) / (abs(x) + law.std))
        if not abs(fa - fb) <= 2 * tol_F(law, x, p, False):
            out.append(({"invariant": "scipy-openturns-cdf", **sig}, {"p": p}, f"{head}: cdf({x!r}) = {fa!r} vs {fb!r}"))
        if not abs(qa - qb) <= 2 * tol_Q(law, x, p, False):
            out.append(({"invariant": "scipy-openturns-inverse_cdf", **sig}, {"p": p}, f"{head}: inverse_cdf({p}) = {qa!r} vs {qb!r}"))
    return out, {"outcome": "cross:" + ("<1e-15" if worst < 1e-15 else "<1e-13" if worst < 1e-13 else ">=1e-13"), "max_difference": worst}


# ------------------------------------------------------------------------------------------------------------
# Part S - parameter spaces
# ------------------------------------------------------------------------------------------------------------
INT_IMAGES = [(0, 1), (2, 2), (-3, 1)]


def det_alphabet(img):
    A, K = L.IMAGES[img]
    Ai, Ki = INT_IMAGES[img]
    f = lambda v: [A + K * t for t in v]  # noqa: E731
    return {
        "b1": dict(size=1, type="float", lb=f([2.0]), ub=f([6.0]), value=f([3.0])),
        "b2": dict(size=2, type="float", lb=f([-1.0, 0.5]), ub=f([1.0, 0.5]), value=f([0.0, 0.5])),  # second component: lb == ub
        "h1": dict(size=1, type="float", lb=f([0.0]), ub=[math.inf], value=f([1.5])),
        "i1": dict(size=1, type="integer", lb=[Ai + Ki * 0], ub=[Ai + Ki * 4], value=[Ai + Ki * 1]),
        "z1": dict(size=1, type="float", lb=[0.0], ub=[1.0], value=[0.0]),  # lower bound and value exactly 0
        "z2": dict(size=2, type="float", lb=[-2.0, 0.0], ub=[0.0, 0.0], value=[0.0, 0.0]),  # upper bound 0; lb == ub == 0
    }


def random_alphabet(lib, thorough, img):
    """Random variables: per wrapper family 2 scalar variables (vectors 0, 1), a size-2 vector with per-component
    parameters (vectors 2, 3), a broadcast size-2 vector (vector 0); then the other recipes as scalar variables."""
    recs = recipes(lib, thorough, img)
    by_id = {r["id"]: r for r in recs}
    out = []
    for kind in FAMILIES:
        r = [by_id[f"{kind}#{i}"] for i in range(4)]
        out.append(dict(cls=r[0]["cls"], form="scalar", comps=[r[0]]))
        out.append(dict(cls=r[1]["cls"], form="scalar", comps=[r[1]]))
        out.append(dict(cls=r[2]["cls"], form="vector", comps=[r[2], r[3]]))
        if thorough:
            out.append(dict(cls=r[0]["cls"], form="broadcast", comps=[r[0], r[0]]))
    for r in recs:
        if "#" in r["id"] and r["id"].split("+")[0] in by_id and r["mods"] == 0 and r["family"] in FAMILIES and not r["id"].startswith("generic"):
            continue  # plain wrapper vectors: already there
        out.append(dict(cls=r["cls"], form="scalar", comps=[r]))
    # a generic-interface vector with per-component native parameters
    g = [r for r in recs if r["id"].startswith("generic-normal") or r["id"].startswith("generic-uniform")]
    for kind in ("normal",):
        gg = [r for r in g if r["family"] == kind and r["mods"] == 0 and r["pidx"] >= 0]
        if gg:
            A, K = L.IMAGES[img]
            p2 = L.image(kind, L.BASE[kind][2], A, K)
            second = dict(gg[0], kwargs=generic_kwargs(lib, kind, p2), law=L.spec_of(kind, p2), id=f"generic-{kind}#v")
            out.append(dict(cls=gg[0]["cls"], form="vector", comps=[gg[0], second]))
    for rv in out:
        rv["mods"] = max(c["mods"] for c in rv["comps"])
        rv["id"] = rv["form"] + ":" + ",".join(c["id"] for c in rv["comps"])
    return out


PAIR_QUICK = ["generic-normal", "dirac#1", "normal#1+T2", "normal#1+A-", "normal#1+AT", "beta#1+TL", "exponential#1+TU", "normal#1+EXP", "z:normal-default+TL0", "z:normal+ID"]
JOINT_ZERO_QUICK = ["z:normal-default", "z:uniform-min0", "z:exponential-default", "z:dirac-0", "z:normal-default+TL0", "z:normal-default+TU0", "z:uniform+T0hi", "z:beta+TU0", "z:normal+ID", "z:normal+A-+TL0", "z:generic-norm-01+TL0", "z:generic-norm-empty"]


def pair_alphabet(lib, thorough, img):
    """Random variables of the shapes with two random variables (the full product of pairs is taken).
    thorough: the whole quick alphabet; quick: per family one scalar (vector 1) and the size-2 vector (vectors 2, 3),
    plus a Dirac, a generic-interface vector and one representative of each modifier."""
    rvs = random_alphabet(lib, False, img)
    if thorough:
        return [rv for rv in rvs if not rv["comps"][0].get("zero") or rv["comps"][0]["id"] in PAIR_QUICK]
    keep = []
    for rv in rvs:
        ids = [c["id"] for c in rv["comps"]]
        if (rv["form"] == "vector" and not ids[0].startswith("z:")) or (rv["form"] == "scalar" and (ids[0].endswith("#1") and "+" not in ids[0] and not ids[0].startswith("generic")) or ids[0] in PAIR_QUICK):
            keep.append(rv)
    return keep


SHAPES = ["R", "D", "RR", "RD", "DR", "RRD", "RDR", "DRR"]
RNAMES = ["u", "a"]  # arrival order u, a: differs from the sorted order
DNAME = "m"
PATHS = ["direct", "renamed", "extra-removed"]


def _add_random(ps, name, rv):
    comps = rv["comps"]
    cls = rv["cls"]
    generic = cls in ("SPDistribution", "OTDistribution")
    if rv["form"] == "scalar" or rv["form"] == "broadcast":
        kw = dict(comps[0]["kwargs"])
        size = 1 if rv["form"] == "scalar" else 2
        if size == 1 and comps[0]["pidx"] % 2 == 0:
            # dimension 1 left to the default of add_random_variable (odd-numbered vectors pass size=1 explicitly)
            add = lambda name, cls, size, **k: ps.add_random_variable(name, cls, **k)  # noqa: E731
        else:
            add = ps.add_random_variable
        if generic:
            prm = kw.pop("parameters", None)
            extra = {}
            if "interfaced_distribution" in kw:
                extra["interfaced_distribution"] = kw.pop("interfaced_distribution")
                extra["interfaced_distribution_parameters"] = tuple(prm) if cls == "OTDistribution" else prm
            add(name, cls, size=size, **extra, **kw)
        else:
            add(name, cls, size=size, **kw)
        return
    # vector with per-component parameters
    kws = [dict(c["kwargs"]) for c in comps]
    if generic:
        prms = [k.pop("parameters") for k in kws]
        idist = kws[0].pop("interfaced_distribution")
        for k in kws[1:]:
            k.pop("interfaced_distribution")
        if cls == "OTDistribution":
            idp = tuple([p[i] for p in prms] for i in range(len(prms[0])))
        else:
            idp = {key: [p[key] for p in prms] for key in prms[0]}
        keys = sorted(set().union(*kws))
        ps.add_random_vector(name, cls, size=len(comps), interfaced_distribution=idist, interfaced_distribution_parameters=idp, **{key: [k.get(key, OT_DEFAULT_MODS.get(key)) for k in kws] for key in keys})
        return
    keys = list(kws[0])
    for k in kws[1:]:
        keys += [key for key in k if key not in keys]
    # size=0 (the default) asks add_random_vector to deduce the size from the parameters
    size = {} if comps[0]["family"] in FAMILIES[::2] else {"size": len(comps)}
    ps.add_random_vector(name, cls, **size, **{key: [k.get(key, OT_DEFAULT_MODS.get(key)) for k in kws] for key in keys})


def _add_det(ps, name, det):
    dt = float if det["type"] == "float" else int
    ps.add_variable(name, det["size"], det["type"], np.array(det["lb"], dtype=float), np.array(det["ub"], dtype=float), np.array(det["value"], dtype=dt))


def build_space(case):
    from gemseo.algos.parameter_space import ParameterSpace

    ps = ParameterSpace()
    path = case.get("path", "direct")
    lib = case["lib"]
    if path == "extra-removed":
        ps.add_random_variable("zz", f"{lib}UniformDistribution", minimum=-5.0, maximum=-4.0)
    for k, v in enumerate(case["vars"]):
        name = v["name"] + ("_tmp" if path == "renamed" and k == 0 else "")
        if v["kind"] == "R":
            _add_random(ps, name, v["rv"])
        else:
            _add_det(ps, name, v["det"])
    if path == "renamed":
        ps.rename_variable(case["vars"][0]["name"] + "_tmp", case["vars"][0]["name"])
    if path == "extra-removed":
        ps.remove_variable("zz")
    return ps


def _layout(case):
    """Flat component table: (variable index, name, kind, component record or det dict, component index)."""
    rows = []
    for k, v in enumerate(case["vars"]):
        if v["kind"] == "R":
            for c, rec in enumerate(v["rv"]["comps"]):
                rows.append((k, v["name"], "R", rec, c))
        else:
            for c in range(v["det"]["size"]):
                rows.append((k, v["name"], "D", v["det"], c))
    return rows


def exec_space(case):
    shape = "".join(v["kind"] for v in case["vars"])
    lib = case["lib"]
    out = []

    def bad(inv, cls, msg, focus=None):
        out.append(({"invariant": inv, "class": cls, "shape": shape, "path": case.get("path", "direct")}, focus or {}, f"space {[(v['name'], v['rv']['id'] if v['kind'] == 'R' else v['det']) for v in case['vars']]} path={case.get('path', 'direct')}: {msg}"))

    def geo(inv, cls, msg, focus=None):
        # the geometric (use_dist=False) normalization does not depend on the law, the shape or the path
        out.append(({"invariant": "geometric:" + inv, "class": cls}, focus or {}, f"space {[(v['name'], v['rv']['id'] if v['kind'] == 'R' else v['det']) for v in case['vars']]}: {msg}"))

    try:
        ps = build_space(case)
    except Exception as e:
        bad("constructible", "ParameterSpace", f"raised {type(e).__name__}: {e}")
        return out, {"outcome": "raised"}
    rows = _layout(case)
    n = len(rows)
    names = [v["name"] for v in case["vars"]]
    rnames = [v["name"] for v in case["vars"] if v["kind"] == "R"]
    if list(ps.variable_names) != names or list(ps.uncertain_variables) != rnames or ps.dimension != n or list(ps.deterministic_variables) != [x for x in names if x not in rnames]:
        bad("space-views", "ParameterSpace", f"variable_names={ps.variable_names} uncertain={ps.uncertain_variables} deterministic={ps.deterministic_variables} dimension={ps.dimension}; expected {names} / {rnames} / {n}")
        return out, {"outcome": "bad-views"}
    cls_of = [r[3]["cls"] if r[2] == "R" else "deterministic" for r in rows]
    laws = [law_of(r[3]) if r[2] == "R" else None for r in rows]
    israndom = np.array([r[2] == "R" for r in rows])
    # ---- bounds / current value: random = reported support / mean of the marginal, deterministic = as given ----
    lb, ub, cur, ints = np.empty(n), np.empty(n), np.empty(n), np.zeros(n, dtype=bool)
    for i, (k, name, kind, rec, c) in enumerate(rows):
        if kind == "R":
            sup = np.asarray(ps.distributions[name].support, dtype=float)
            lb[i], ub[i], cur[i] = sup[c, 0], sup[c, 1], np.asarray(ps.distributions[name].mean, dtype=float)[c]
        else:
            lb[i], ub[i], cur[i], ints[i] = rec["lb"][c], rec["ub"][c], rec["value"][c], rec["type"] == "integer"
    glb, gub, gcur = ps.get_lower_bounds(), ps.get_upper_bounds(), np.asarray(ps.get_current_value(), dtype=float)
    if not (np.array_equal(glb, lb) and np.array_equal(gub, ub) and np.array_equal(gcur, cur)):
        bad("space-bounds-are-supports-value-is-mean", "ParameterSpace", f"bounds={glb},{gub} current={gcur}; marginals / given: {lb},{ub} value {cur}")
    # per-marginal oracles through the parameter space's own evaluate_cdf
    for name in rnames:
        dist = ps.distributions[name]
        comps = [r for r in rows if r[1] == name]
        sup, rng, mean, std = np.asarray(dist.support), np.asarray(ps.get_range(name)), np.asarray(dist.mean, dtype=float), np.asarray(dist.standard_deviation, dtype=float)
        if not np.array_equal(np.asarray(ps.get_support(name)), sup):
            bad("space-get_support", comps[0][3]["cls"], "get_support differs from the marginal's support")
        # evaluate_cdf wants every uncertain variable: the other components sit at their medians
        med = {nm: np.array([law_of(r[3]).quantile(0.5) for r in rows if r[1] == nm], dtype=float) for nm in rnames}
        for (k, _, _, rec, c) in comps:
            def F(x, c=c, name=name):
                v = {nm: a.copy() for nm, a in med.items()}
                v[name][c] = x
                return float(ps.evaluate_cdf(v)[name][c])

            def Q(p, c=c, name=name):
                v = {nm: np.full(len(a), 0.5) for nm, a in med.items()}
                v[name][c] = p
                return float(ps.evaluate_cdf(v, inverse=True)[name][c])

            for inv, focus, msg in check_marginal(rec, F, Q, mean[c], std[c], sup[c], rng[c], [P_GRID[(k + c) % len(P_GRID)]]):  # the probes below cover the whole grid
                bad("evaluate_cdf:" + inv, rec["cls"], f"variable {name}[{c}] = {rec['cls']}(**{rec['kwargs']}): {msg}", focus)
    # ---- probe points ----
    fin = np.isfinite(lb) & np.isfinite(ub)
    pts, unit = [], []
    for k in range(len(P_GRID)):
        x, u = np.empty(n), np.empty(n)
        for i, row in enumerate(rows):
            if row[2] == "R":
                p = P_GRID[(k + i) % len(P_GRID)]
                x[i], u[i] = laws[i].quantile(p), p
            else:
                t = T_GRID[(k + i) % len(T_GRID)]
                x[i] = lb[i] + t * (ub[i] - lb[i]) if fin[i] else (lb[i] if np.isfinite(lb[i]) else 0.0) + 0.5 + t
                if ints[i]:
                    x[i] = np.round(x[i])
                u[i] = t
        pts.append(x)
        unit.append(u)
    int_norm = bool(ps.enable_integer_variables_normalization)
    normable = fin & (~ints | int_norm)
    span = np.where(normable, ub - lb, 1.0)
    fac = np.where(span == 0.0, 1.0, span)
    lb0 = np.where(normable, lb, 0.0)

    def tolF(i, x, p):
        return tol_F(laws[i], x, p, rows[i][3]["numeric"])

    def tolQ(i, x, p):
        return tol_Q(laws[i], x, p, rows[i][3]["numeric"])

    def affine_tol(i):
        return 8 * EPS * (1 + (abs(lb[i]) + abs(ub[i])) / abs(fac[i])) if normable[i] else 0.0

    X = np.vstack(pts)
    try:
        T2 = ps.transform_vect(X)
        B2 = ps.untransform_vect(T2)
    except Exception as e:
        bad("transform-raises", "ParameterSpace", f"2-D transform / untransform raised {type(e).__name__}: {e}")
        return out, {"outcome": "transform-raised"}
    if np.shape(T2) != X.shape or np.shape(B2) != X.shape:
        bad("transform-shape", "ParameterSpace", f"shapes {np.shape(T2)} {np.shape(B2)} for input {X.shape}")
        return out, {"outcome": "bad-shape"}
    for k, x in enumerate(pts):
        t = ps.transform_vect(x)
        back = ps.untransform_vect(t)
        direct = ps.untransform_vect(unit[k]) if not ints.any() else None
        if not (np.array_equal(t, T2[k]) and np.array_equal(back, B2[k])):
            bad("transform-1d-vs-2d", "ParameterSpace", f"row {k} of the 2-D result differs from the 1-D result: {t} vs {T2[k]}; {back} vs {B2[k]}", {"point": k})
        # transform_vect == evaluate_cdf on the random variables (same functions: bit for bit)
        cdf = ps.evaluate_cdf({nm: x[[i for i, r in enumerate(rows) if r[1] == nm]] for nm in rnames})
        for i, row in enumerate(rows):
            p = unit[k][i]
            if row[2] == "R":
                law = laws[i]
                if law.discrete:
                    ok_t, ok_b = t[i] >= p, back[i] == x[i]
                    ok_d = direct is None or direct[i] == x[i]
                    tt = tb = 0.0
                else:
                    dq = max(L.dq_dp(law, p), 1e-300)
                    tt, tb = tolF(i, x[i], p), tolQ(i, x[i], p) + 2 * tolF(i, x[i], p) * dq
                    ok_t, ok_b = abs(t[i] - p) <= tt, abs(back[i] - x[i]) <= tb
                    ok_d = direct is None or abs(direct[i] - x[i]) <= tolQ(i, x[i], p)
                own = float(cdf[row[1]][row[4]])
                if t[i] != own:
                    bad("transform_vect-is-evaluate_cdf", row[3]["cls"], f"component {i} ({row[1]}[{row[4]}]): transform_vect={t[i]!r} evaluate_cdf={own!r} at x={x[i]!r}", {"point": k, "component": i})
                if not ok_t:
                    bad("transform_vect-random", row[3]["cls"], f"component {i} ({row[1]}[{row[4]}] = {row[3]['cls']}(**{row[3]['kwargs']})): transform_vect(x)[{i}]={t[i]!r} at x={x[i]!r}, closed-form cdf={p} tol={tt:.3g}", {"point": k, "component": i})
                if not ok_b:
                    bad("untransform(transform(x))=x", row[3]["cls"], f"component {i} ({row[1]}[{row[4]}] = {row[3]['cls']}(**{row[3]['kwargs']})): x={x[i]!r} transform={t[i]!r} back={back[i]!r} tol={tb:.3g}", {"point": k, "component": i})
                if not ok_d:
                    bad("untransform_vect-random", row[3]["cls"], f"component {i} ({row[1]}[{row[4]}] = {row[3]['cls']}(**{row[3]['kwargs']})): untransform_vect(u)[{i}]={direct[i]!r} for u={p}, closed-form inverse cdf={x[i]!r}", {"point": k, "component": i})
            else:
                want = (x[i] - lb0[i]) / fac[i] if normable[i] else x[i]
                at = affine_tol(i)
                if not abs(t[i] - want) <= at:
                    bad("transform_vect-deterministic-affine", "deterministic", f"component {i} ({row[1]}[{row[4]}] in [{lb[i]}, {ub[i]}]): transform_vect(x)[{i}]={t[i]!r} at x={x[i]!r}, affine map gives {want!r}", {"point": k, "component": i})
                if not abs(back[i] - x[i]) <= at * abs(fac[i]) + 4 * EPS * abs(x[i]):
                    bad("untransform(transform(x))=x", "deterministic", f"component {i} ({row[1]}[{row[4]}]): x={x[i]!r} back={back[i]!r}", {"point": k, "component": i})
                if direct is not None:
                    wantx = p * span[i] + lb0[i] if normable[i] else p
                    if not abs(direct[i] - wantx) <= at * abs(fac[i]) + 4 * EPS * abs(wantx):
                        bad("untransform_vect-deterministic-affine", "deterministic", f"component {i} ({row[1]}[{row[4]}] in [{lb[i]}, {ub[i]}]): untransform_vect(u)[{i}]={direct[i]!r} for u={p}, affine map gives {wantx!r}", {"point": k, "component": i})
    # ---- geometric normalization (use_dist=False) follows the DesignSpace formulas, gradients included ----
    g = np.linspace(0.7, 1.9, n)
    jac = np.vstack([g, 2 * g])
    v = pts[1]
    u = np.where(normable, np.linspace(0.2, 0.8, n), np.where(ints, np.round(v), v))
    rt = 1e-14
    checks = [
        ("normalize_vect", lambda: ps.normalize_vect(v), np.where(normable, (v - lb0) / fac, v)),
        ("normalize_vect(minus_lb=False)", lambda: ps.normalize_vect(v, minus_lb=False), np.where(normable, v / fac, v)),
        ("unnormalize_vect", lambda: ps.unnormalize_vect(u), np.where(ints, np.round(np.where(normable, u * span + lb0, u)), np.where(normable, u * span + lb0, u))),
        ("unnormalize_vect(minus_lb=False)", lambda: ps.unnormalize_vect(u, minus_lb=False), np.where(normable, u * span, u)),
        ("normalize_grad", lambda: ps.normalize_grad(g), np.where(normable, g * span, g)),
        ("unnormalize_grad", lambda: ps.unnormalize_grad(g), np.where(normable, g / fac, g)),
        ("normalize_grad(2-D)", lambda: ps.normalize_grad(jac), np.where(normable, jac * span, jac)),
        ("unnormalize_grad(2-D)", lambda: ps.unnormalize_grad(jac), np.where(normable, jac / fac, jac)),
    ]
    for label, call, want in checks:
        try:
            got = np.asarray(call(), dtype=float)
        except Exception as e:
            bad(label + "-raises", "ParameterSpace", f"{type(e).__name__}: {e}")
            continue
        if got.shape != want.shape:
            bad(label, "ParameterSpace", f"shape {got.shape} expected {want.shape}")
            continue
        err = np.abs(got - want) > rt * (np.abs(want) + (np.abs(lb0) + 1) / np.abs(fac))
        if err.any():
            i = int(np.argwhere(err.reshape(-1, n).any(axis=0))[0, 0])
            geo(label, "deterministic" if not israndom[i] else "random", f"component {i} ({rows[i][1]}[{rows[i][4]}] bounds [{lb[i]}, {ub[i]}]): {label} gives {got.reshape(-1, n)[:, i].tolist()} expected {want.reshape(-1, n)[:, i].tolist()} (DesignSpace formula)", {"component": i})
    # use_dist=True with minus_lb=False: "for the components of the deterministic variables, use the approach defined
    # in DesignSpace.normalize_vect with minus_lb" (docstrings of ParameterSpace.normalize_vect / unnormalize_vect);
    # the random components keep the probability transform.
    if (~israndom).any() and not ints.any():
        det = ~israndom
        for label, call, want in (
            ("normalize_vect(minus_lb=False,use_dist=True)", lambda: ps.normalize_vect(v, minus_lb=False, use_dist=True), np.where(normable, v / fac, v)),
            ("unnormalize_vect(minus_lb=False,use_dist=True)", lambda: ps.unnormalize_vect(unit[1], minus_lb=False, use_dist=True), np.where(normable, unit[1] * span, unit[1])),
        ):
            try:
                got = np.asarray(call(), dtype=float)
            except Exception as e:
                bad(label + "-raises", "ParameterSpace", f"{type(e).__name__}: {e}")
                continue
            err = det & (np.abs(got - want) > rt * (np.abs(want) + (np.abs(lb0) + 1) / np.abs(fac)))
            if err.any():
                i = int(np.argwhere(err)[0, 0])
                geo(label, "deterministic", f"component {i} ({rows[i][1]}[{rows[i][4]}] bounds [{lb[i]}, {ub[i]}]): {label} gives {got[i]!r} expected {want[i]!r} (DesignSpace formula with minus_lb=False)", {"component": i})
    # ---- samples ----
    nr = int(israndom.sum())
    if nr:
        sup = np.column_stack([lb[israndom], ub[israndom]])
        for inv, focus, msg in check_samples(lib, lambda m: ps.compute_samples(m), sup, nr, n=16):
            rr = [r for r in rows if r[2] == "R"]
            bad("space-" + inv, rr[focus.get("component", 0)][3]["cls"], msg, focus)
        seed_library(lib, 11)
        s = np.asarray(ps.compute_samples(4), dtype=float)
        seed_library(lib, 11)
        sd = ps.compute_samples(4, as_dict=True)
        try:
            again = np.vstack([np.concatenate([np.atleast_1d(row[nm]) for nm in rnames]) for row in sd])
            if list(sd[0]) != rnames or not np.array_equal(again, s):
                bad("space-samples-as_dict", "ParameterSpace", f"as_dict samples {sd[0]} vs array row {s[0]}")
        except Exception as e:
            bad("space-samples-as_dict", "ParameterSpace", f"{type(e).__name__}: {e}")
        # transform_vect of samples == evaluate_cdf of samples (deterministic components at their value)
        if s.shape == (4, nr):
            full = np.tile(cur, (4, 1))
            full[:, israndom] = s
            ts = ps.transform_vect(full)
            off = 0
            dct = {}
            for nm in rnames:
                k = len(ps.distributions[nm].marginals)
                dct[nm] = s[:, off : off + k]
                off += k
            ec = ps.evaluate_cdf(dct)
            want = np.hstack([ec[nm] for nm in rnames])
            if not np.array_equal(ts[:, israndom], want):
                bad("transform_vect(samples)-is-evaluate_cdf", "ParameterSpace", f"{ts[:, israndom][0]} vs {want[0]}")
            if ((ts[:, israndom] < 0) | (ts[:, israndom] > 1)).any():
                bad("transform_vect(samples)-in-unit-cube", "ParameterSpace", f"{ts[0]}")
        # the uncertain sub-space is the restriction (a deep copy: OpenTURNS objects are copied through a
        # temporary Study file, ~15 ms each, so OpenTURNS spaces do it on the <= 2-variable direct shapes only)
        if lib == "OT" and (len(case["vars"]) > 2 or case.get("path", "direct") != "direct"):
            us_check = False
        else:
            us_check = True
        try:
            if not us_check:
                raise StopIteration
            us = ps.extract_uncertain_space()
            tu = us.transform_vect(pts[0][israndom])
            if list(us.variable_names) != rnames or not np.array_equal(tu, ps.transform_vect(pts[0])[israndom]):
                bad("extract_uncertain_space", "ParameterSpace", f"{us.variable_names}: {tu} vs {ps.transform_vect(pts[0])[israndom]}")
        except StopIteration:
            pass
        except Exception as e:
            bad("extract_uncertain_space", "ParameterSpace", f"{type(e).__name__}: {e}")
    if nr < n:
        try:
            dsp = ps.extract_deterministic_space()
            td = dsp.normalize_vect(pts[1][~israndom])
            if not np.array_equal(td, ps.transform_vect(pts[1])[~israndom]):
                bad("extract_deterministic_space", "deterministic", f"{td} vs {ps.transform_vect(pts[1])[~israndom]}")
        except Exception as e:
            bad("extract_deterministic_space", "deterministic", f"{type(e).__name__}: {e}")
    kinds = sorted({("numeric" if r[3]["numeric"] else "closed") if r[2] == "R" else "det:" + ("affine" if normable[i] else "identity") for i, r in enumerate(rows)})
    return out, {"outcome": f"{shape}:{'+'.join(kinds)}", "transform": T2[0].tolist()}


# ------------------------------------------------------------------------------------------------------------
# Part T - statistics on fixed seeded datasets (deterministic consequences only)
# ------------------------------------------------------------------------------------------------------------
QUANTILE_METHODS = ["linear", "inverted_cdf", "averaged_inverted_cdf", "closest_observation", "interpolated_inverted_cdf", "hazen", "weibull", "median_unbiased", "normal_unbiased"]
FIT_LAWS = {  # OpenTURNS factory name -> (law kind of the harness, native parameter names in getParameter() order)
    "Normal": lambda q: ["normal", dict(mu=q[0], sigma=q[1])],
    "Uniform": lambda q: ["uniform", dict(a=q[0], b=q[1])],
    "Exponential": lambda q: ["exponential", dict(rate=q[0], loc=q[1])],
    "Triangular": lambda q: ["triangular", dict(a=q[0], c=q[1], b=q[2])],
    "WeibullMin": lambda q: ["weibull", dict(scale=q[0], shape=q[1], loc=q[2], min=True)],
    "LogNormal": lambda q: ["lognormal", dict(m=q[0], s=q[1], loc=q[2])],
}


def make_dataset(case):
    """Columns x (size 1) and y (size 2) of a fixed seeded sample; positive, mildly skewed, no ties."""
    from gemseo.datasets.dataset import Dataset

    rng = np.random.RandomState(1000 + case["data_seed"])
    n = case["n"]
    A, K = L.IMAGES[case["img"]]
    data = A + K * np.column_stack([2.0 * rng.triangular(0.0, 0.3, 1.0, n) + 1.0, rng.normal(2.0, 0.5, n), rng.uniform(1.0, 3.0, n)])
    return Dataset.from_array(data, variable_names=["x", "y"], variable_names_to_n_components={"x": 1, "y": 2}), {"x": data[:, :1], "y": data[:, 1:]}


def _cmp(out, sig, label, got, want_list, rtol, head, atol=None):
    """got (dict name -> array) must equal one of the accepted readings (atol: name -> per-component array)."""
    for name, accepted in want_list.items():
        g = np.asarray(got[name], dtype=float).ravel()
        at = rtol if atol is None else np.ravel(atol[name])
        ok = any(g.shape == np.ravel(w).shape and bool(np.all((g == np.ravel(w)) | (np.abs(g - np.ravel(w)) <= at + rtol * np.abs(np.ravel(w))))) for w in accepted)
        if not ok:
            out.append(({"invariant": label, **sig}, {"variable": name}, f"{head}: {label}[{name}]={g.tolist()} accepted readings={[np.ravel(w).tolist() for w in accepted]}"))


def exec_stats(case):
    out = []
    ds, cols = make_dataset(case)
    names = ["x", "y"]
    if case["kind"] == "empirical":
        from gemseo.uncertainty.statistics.empirical_statistics import EmpiricalStatistics

        st = EmpiricalStatistics(ds)
        sig = {"class": "EmpiricalStatistics"}
        head = f"EmpiricalStatistics(n={case['n']}, data_seed={case['data_seed']})"
        rt = 1e-12
        m = {k: v.mean(0) for k, v in cols.items()}
        sd = {k: [v.std(0), v.std(0, ddof=1)] for k, v in cols.items()}
        _cmp(out, sig, "mean", st.compute_mean(), {k: [m[k]] for k in names}, rt, head)
        _cmp(out, sig, "minimum", st.compute_minimum(), {k: [cols[k].min(0)] for k in names}, 0, head)
        _cmp(out, sig, "maximum", st.compute_maximum(), {k: [cols[k].max(0)] for k in names}, 0, head)
        _cmp(out, sig, "range", st.compute_range(), {k: [cols[k].max(0) - cols[k].min(0)] for k in names}, rt, head)
        got_sd = st.compute_standard_deviation()
        _cmp(out, sig, "standard_deviation", got_sd, sd, rt, head)
        _cmp(out, sig, "variance=std^2", st.compute_variance(), {k: [np.asarray(got_sd[k]) ** 2] for k in names}, rt, head)
        _cmp(out, sig, "variation_coefficient=std/mean", st.compute_variation_coefficient(), {k: [np.asarray(got_sd[k]) / m[k]] for k in names}, rt, head)
        for kf in (1.0, -2.0):
            _cmp(out, sig, "margin=mean+k*std", st.compute_margin(kf), {k: [m[k] + kf * np.asarray(got_sd[k])] for k in names}, rt, head)
        for order in (1, 2, 3):
            _cmp(out, sig, "moment-is-central", st.compute_moment(order), {k: [((cols[k] - m[k]) ** order).mean(0)] for k in names}, 1e-10, head)
        for p in P_GRID + [0.25, 0.75]:
            q = st.compute_quantile(p)
            _cmp(out, sig, "quantile", q, {k: [np.quantile(cols[k], p, axis=0, method=mt) for mt in QUANTILE_METHODS] for k in names}, rt, head + f" p={p}")
        _cmp(out, sig, "median=quantile(0.5)", st.compute_median(), {k: [st.compute_quantile(0.5)[k]] for k in names}, 0, head)
        for o in (1, 2, 3):
            _cmp(out, sig, "quartile=quantile(k/4)", st.compute_quartile(o), {k: [st.compute_quantile(o / 4)[k]] for k in names}, 0, head)
        for o in (1, 10, 50, 90):
            _cmp(out, sig, "percentile=quantile(n/100)", st.compute_percentile(o), {k: [st.compute_quantile(o / 100)[k]] for k in names}, 1e-15, head)
        # thresholds: between samples (a unique answer) and on a sample (>= or > accepted)
        srt = {k: np.sort(cols[k], axis=0) for k in names}
        i = case["n"] // 3
        for where in ("between", "on-sample"):
            th = {k: (srt[k][i] + srt[k][i + 1]) / 2 if where == "between" else srt[k][i].copy() for k in names}
            for greater in (True, False):
                strict = {k: ((cols[k] > th[k]) if greater else (cols[k] < th[k])).mean(0) for k in names}
                loose = {k: ((cols[k] >= th[k]) if greater else (cols[k] <= th[k])).mean(0) for k in names}
                _cmp(out, sig, "probability", st.compute_probability(th, greater=greater), {k: [strict[k], loose[k]] for k in names}, rt, head + f" thresh {where} greater={greater}")
                js = {k: [np.all((cols[k] > th[k]) if greater else (cols[k] < th[k]), axis=1).mean(), np.all((cols[k] >= th[k]) if greater else (cols[k] <= th[k]), axis=1).mean()] for k in names}
                _cmp(out, sig, "joint_probability", st.compute_joint_probability(th, greater=greater), js, rt, head + f" thresh {where} greater={greater}")
        return out, {"outcome": "empirical", "mean": {k: np.ravel(v).tolist() for k, v in st.compute_mean().items()}}
    # ---- parametric ----
    from gemseo.uncertainty.statistics.parametric_statistics import ParametricStatistics

    cands = case["candidates"]
    sig = {"class": "ParametricStatistics"}
    head = f"ParametricStatistics({cands}, {case['criterion']}, {case['selection']}, n={case['n']}, data_seed={case['data_seed']})"
    try:
        st = ParametricStatistics(ds, cands, fitting_criterion=case["criterion"], selection_criterion=case["selection"], level=case.get("level", 0.05))
    except Exception as e:
        if "InvalidArgumentException" in str(e) or "InternalException" in str(e):
            # OpenTURNS' own estimator rejects the data (e.g. TriangularFactory on a sample whose moments no
            # triangle has): a third-party precondition, not a statement about gemseo - recorded as an outcome
            return [], {"outcome": "parametric:fit-rejected-by-openturns", "error": str(e)[:120]}
        return [({"invariant": "constructible", **sig}, {}, f"{head} raised {type(e).__name__}: {e}")], {"outcome": "raised"}
    chosen = {}
    # selection agrees with the criteria the object reports
    for name, size in (("x", 1), ("y", 2)):
        sel = st.distributions[name]
        sel = [sel] if size == 1 else list(sel)
        chosen[name] = sel
        for c in range(size):
            crit, is_p = st.get_criteria(name, c)
            vals = [crit[d] for d in cands]
            if case["selection"] == "best" or not is_p:
                # 'first' on a criterion that is not a p-value: the level has no meaning - only 'best' is specified
                want = {cands[k] for k, val in enumerate(vals) if val == (max(vals) if is_p else min(vals))} if (case["selection"] == "best") else set(cands)
            else:
                ok = [d for d, val in zip(cands, vals) if val >= case.get("level", 0.05)]
                want = {ok[0]} if ok else {cands[k] for k, val in enumerate(vals) if val == max(vals)}
            if sel[c].name not in want:
                out.append(({"invariant": "selection-follows-reported-criteria", **sig, "criterion": case["criterion"], "selection": case["selection"]}, {"variable": name, "component": c}, f"{head}: {name}[{c}] selected {sel[c].name}, criteria {crit} -> {sorted(want)}"))
    laws = {k: [L.make_law(FIT_LAWS[d.name](list(d.value.distribution.getParameter()))) for d in v] for k, v in chosen.items()}
    # The fitted three-parameter laws (LogNormal, WeibullMin on data they do not suit) come out with extreme
    # parameters (|location| ~ 1e4 for data of spread 1): the closed forms then cancel.  Tolerances follow the
    # conditioning of the reference: the mean is a sum of terms of magnitude mean_mag, the standard deviation has
    # the condition number std_cond, a quantile is location + scale * z.  rt = NUM_TOL for OpenTURNS' algorithms.
    rt = NUM_TOL
    ref = lambda f: {k: [np.array([f(w) for w in laws[k]])] for k in names}  # noqa: E731
    own = lambda f: {k: [np.array([f(d.value) for d in chosen[k]])] for k in names}  # noqa: E731
    a_mean = {k: np.array([rt * w.mean_mag for w in laws[k]]) for k in names}
    a_std = {k: np.array([(rt + 256 * EPS * w.std_cond) * w.std + 64 * EPS * w.mean_mag for w in laws[k]]) for k in names}
    got_mean, got_std = st.compute_mean(), st.compute_standard_deviation()
    _cmp(out, sig, "mean-vs-closed-form-of-fitted-law", got_mean, ref(lambda w: w.mean), 0, head, a_mean)
    _cmp(out, sig, "standard_deviation-vs-closed-form-of-fitted-law", got_std, ref(lambda w: w.std), 0, head, a_std)
    _cmp(out, sig, "variance=std^2", st.compute_variance(), {k: [np.asarray(got_std[k]) ** 2] for k in names}, 1e-14, head)
    _cmp(out, sig, "mean-is-distribution-mean", got_mean, own(lambda d: d.mean), 0, head)
    _cmp(out, sig, "minimum-is-support", st.compute_minimum(), ref(lambda w: w.support[0]), rt, head)
    _cmp(out, sig, "maximum-is-support", st.compute_maximum(), ref(lambda w: w.support[1]), rt, head)
    finite = all(math.isfinite(b) for k in names for w in laws[k] for b in w.support)
    if finite:
        _cmp(out, sig, "range=max-min", st.compute_range(), ref(lambda w: w.support[1] - w.support[0]), rt, head)
    for p in P_GRID:
        a_q = {k: np.array([rt * (w.mean_mag + L.dq_dp(w, p)) for w in laws[k]]) for k in names}
        _cmp(out, sig, "quantile-vs-closed-form-of-fitted-law", st.compute_quantile(p), {k: [np.array([w.quantile(p) for w in laws[k]])] for k in names}, 0, head + f" p={p}", a_q)
    _cmp(out, sig, "median=quantile(0.5)", st.compute_median(), {k: [st.compute_quantile(0.5)[k]] for k in names}, 0, head)
    th = {k: np.array([w.quantile(0.3) for w in laws[k]]) for k in names}
    a_p = {k: np.array([rt * (1 + w.mean_mag / max(L.dq_dp(w, 0.3), 1e-300)) for w in laws[k]]) for k in names}
    for greater in (True, False):
        _cmp(out, sig, "probability-vs-closed-form-of-fitted-law", st.compute_probability(th, greater=greater), {k: [np.full(len(laws[k]), 0.7 if greater else 0.3)] for k in names}, 0, head + f" greater={greater}", a_p)
    for kf in (1.0, -2.0):
        _cmp(out, sig, "margin=mean+k*std", st.compute_margin(kf), {k: [np.asarray(got_mean[k]) + kf * np.asarray(got_std[k])] for k in names}, 1e-14, head)
    # BaseStatistics documents compute_moment as "a central moment, ... the expected value of a specified integer
    # power of the deviation from the mean" (and EmpiricalStatistics implements that)
    _cmp(out, sig, "moment-is-central", st.compute_moment(1), ref(lambda w: 0.0), rt, head + " order=1")
    _cmp(out, sig, "moment-is-central", st.compute_moment(2), ref(lambda w: w.std**2), rt, head + " order=2")
    if cands == ["Normal"]:
        _cmp(out, sig, "normal-fit-mean-is-sample-mean", st.compute_mean(), {k: [cols[k].mean(0)] for k in names}, 1e-12, head)
    return out, {"outcome": "parametric:" + "+".join(sorted({d.name for v in chosen.values() for d in v})), "selected": {k: [d.name for d in v] for k, v in chosen.items()}}


# ------------------------------------------------------------------------------------------------------------
# case generation (simplest first), dispatch, run, replay
# ------------------------------------------------------------------------------------------------------------
EXECUTORS = {"dist": exec_dist, "joint": exec_joint, "cross": exec_cross, "space": exec_space, "stats": exec_stats}


def cases_dist(thorough, img):
    from gemseo.uncertainty.distributions.factory import DistributionFactory

    classes = list(DistributionFactory().class_names)
    out, covered = [], set()
    for lib in ("SP", "OT"):
        for rec in recipes(lib, thorough, img):
            out.append({"part": "dist", "rec": rec})
            covered.add(rec["cls"])
    covered |= {"SPJointDistribution", "OTJointDistribution"}  # Part J
    return out, classes, sorted(set(classes) - covered)


def cases_joint(thorough, img):
    out = []
    for lib in ("SP", "OT"):
        recs = recipes(lib, thorough, img)
        if not thorough:
            recs = [r for r in recs if not r.get("zero") or r["id"] in JOINT_ZERO_QUICK]
        for c in product.full({"first": recs, "second": recs}):
            out.append({"part": "joint", "marginals": [c["first"], c["second"]], "copula": None})
        if lib == "OT":
            plain = [r for r in recs if r["mods"] == 0 and r["family"] != "dirac" and r["pidx"] in (0, 1)]
            for c in product.full({"first": plain, "second": plain}):
                out.append({"part": "joint", "marginals": [c["first"], c["second"]], "copula": 0.5})
    out.sort(key=lambda c: (c["copula"] is not None, c["marginals"][0]["mods"] + c["marginals"][1]["mods"]))
    return out


def cases_cross(thorough, img):
    sp = {r["id"]: r for r in recipes("SP", thorough, img)}
    ot = {r["id"]: r for r in recipes("OT", thorough, img)}
    return [{"part": "cross", "sp": sp[k], "ot": ot[k]} for k in sp if k in ot and k != "generic-default"]


def cases_space(thorough, img):
    dets = det_alphabet(img)
    out = []
    for lib in ("SP", "OT"):
        rvs = random_alphabet(lib, thorough, img)
        for shape in SHAPES:
            nr = shape.count("R")
            axes = {}
            for k in range(nr):
                axes[f"r{k}"] = rvs if nr == 1 else pair_alphabet(lib, thorough, img)
            if "D" in shape:
                axes["det"] = list(dets) if nr < 2 else (["b1", "b2", "h1", "i1"] if thorough else ["b1", "b2"])
            # the construction path multiplies the one-random-variable shapes and, for two random variables,
            # the spaces whose two variables are plain (the paths only touch names and the joint's rebuild)
            for c in product.full(axes):
                vs, k = [], 0
                for ch in shape:
                    if ch == "R":
                        vs.append({"kind": "R", "name": RNAMES[k], "rv": c[f"r{k}"]})
                        k += 1
                    else:
                        vs.append({"kind": "D", "name": DNAME, "det": dets[c["det"]]})
                if nr == 0 and lib == "OT":
                    continue  # no random variable: the library is irrelevant
                mods = sum(v["rv"]["mods"] for v in vs if v["kind"] == "R")
                paths = PATHS if (nr == 1 or (nr == 2 and mods == 0 and (thorough or len(shape) == 2))) else PATHS[:1]
                # (quick: the three-variable shapes are built directly; the paths are crossed with R, RD, DR, RR)
                # the falsy alphabets (zero recipes, deterministic z1 / z2) are crossed with each other and with one
                # ordinary partner on the direct path: they probe values, not the construction history
                zero_rv = any(c_.get("zero") for v in vs if v["kind"] == "R" for c_ in v["rv"]["comps"])
                zero_det = "det" in c and c["det"] in ("z1", "z2")
                if nr == 1 and zero_rv and "det" in c and c["det"] not in ("b1", "z1", "z2"):
                    continue
                if zero_rv or zero_det:
                    paths = PATHS[:1]
                for path in paths:
                    out.append({"part": "space", "lib": lib, "vars": vs, "path": path})
    out.sort(key=lambda c: (len(c["vars"]), sum(v["rv"]["mods"] + len(v["rv"]["comps"]) for v in c["vars"] if v["kind"] == "R"), PATHS.index(c["path"])))
    return out


def cases_stats(thorough, img):
    out = []
    for c in product.full({"n": [30, 31], "data_seed": [0, 1] if thorough else [0]}):
        out.append({"part": "stats", "kind": "empirical", "img": img, **c})
    singles = [[k] for k in FIT_LAWS]
    multi = [["Normal", "Uniform", "Exponential"], ["Uniform", "Triangular", "Normal"], ["LogNormal", "WeibullMin", "Normal"]]
    for c in product.full({"candidates": singles + multi, "criterion": ["BIC", "Kolmogorov"], "selection": ["best", "first"], "n": [30, 31] if thorough else [30], "data_seed": [0, 1] if thorough else [0]}):
        if len(c["candidates"]) == 1 and (c["criterion"], c["selection"]) != ("BIC", "best"):
            continue  # nothing to select
        out.append({"part": "stats", "kind": "parametric", "img": img, **c})
    return out


def _key(case):
    p = case["part"]
    if p == "dist":
        return (p, case["rec"]["cls"], case["rec"]["id"])
    if p == "joint":
        return (p, [(r["cls"], r["id"]) for r in case["marginals"]], case["copula"])
    if p == "cross":
        return (p, case["sp"]["id"])
    if p == "space":
        return (p, case["lib"], case["path"], [(v["name"], v["rv"]["cls"] + v["rv"]["id"]) if v["kind"] == "R" else (v["name"], json.dumps(v["det"])) for v in case["vars"]])
    return (p, json.dumps(case, sort_keys=True))


def _nontrivial(case):
    p = case["part"]
    if p == "dist":
        r = case["rec"]
        return r["mods"] > 0 or r["pidx"] != 0
    if p == "joint":
        return case["marginals"][0]["id"] != case["marginals"][1]["id"] or case["copula"] is not None
    if p == "space":
        return len(case["vars"]) > 1 or case["path"] != "direct" or any(len(v["rv"]["comps"]) > 1 for v in case["vars"] if v["kind"] == "R")
    return True


_NONTRIVIAL_RULE = (
    "one case = one configuration of the product (a constructor recipe, an ordered pair of marginals, a SciPy/OpenTURNS pair, a parameter "
    "space = shape x variables x construction path, a statistics object); every case evaluates the whole p-grid. Non-trivial: a distribution "
    "whose parameters are not the wrapper defaults or that is truncated / transformed; a joint of two different marginals or with a copula; "
    "a parameter space with more than one variable, a vector variable or a non-direct construction path; every cross-library and statistics case"
)


def check_case(case, tally):
    viols, obs = EXECUTORS[case["part"]](case)
    tally.case(_key(case), nontrivial=_nontrivial(case), outcome=f"{case['part']}:{obs.get('outcome')}", sample={"case": _brief(case), "observed": obs})
    tally.count(f"cases_{case['part']}")
    tally.count("probability_grid_evaluations", len(P_GRID) * {"dist": 1, "joint": 2, "cross": 2, "space": sum(len(v["rv"]["comps"]) for v in case.get("vars", []) if v["kind"] == "R"), "stats": 1}[case["part"]])
    for sig, focus, msg in viols:
        tally.violation({"part": case["part"], **sig}, dict(case, focus=focus), msg)


def _brief(case):
    return case


def run(ctx):
    img = ctx.seed % len(L.IMAGES)
    only = (getattr(ctx, "only", None) or "").upper()
    want = lambda letter: not only or letter in only  # noqa: E731
    dist, classes, missing = cases_dist(ctx.thorough, img)
    for cls in missing:  # a factory class without a recipe is a hole in the check, not a pass
        ctx.tally.violation({"invariant": "harness-no-recipe", "class": cls}, {"part": "none", "class": cls}, f"DistributionFactory class {cls} has no recipe in props/c19.py")
    cases = []
    if want("A"):
        cases += dist
    if want("X"):
        cases += cases_cross(ctx.thorough, img)
    if want("T"):
        cases += cases_stats(ctx.thorough, img)
    if want("J"):
        cases += cases_joint(ctx.thorough, img)
    if want("S"):
        cases += cases_space(ctx.thorough, img)
    per_part = {}
    for c in cases:
        per_part[c["part"]] = per_part.get(c["part"], 0) + 1
    ctx.tally.notes["factory_classes"] = classes
    ctx.tally.notes["cases_per_part"] = per_part
    ctx.tally.notes["recipes_per_library"] = {lib: len(recipes(lib, ctx.thorough, img)) for lib in ("SP", "OT")}
    ctx.tally.notes["random_variable_alphabet_per_library"] = {lib: len(random_alphabet(lib, ctx.thorough, img)) for lib in ("SP", "OT")}
    pmap(check_case, cases, ctx.tally, jobs=ctx.jobs, chunk=40, timeout=300)
    return {
        "level": LEVEL,
        "rule": _NONTRIVIAL_RULE,
        "exhaustive": True,
        "bounds": {
            "classes": "every class of DistributionFactory",
            "parameter_vectors_per_family": 4,
            "modifiers_openturns": MODS + ["exp(x)"] + ([] if ctx.thorough else ["(quick: on the second parameter vector of each family; thorough: on all)"]),
            "p_grid": P_GRID,
            "dimension": [1, 2],
            "parameter_space_shapes": SHAPES,
            "deterministic_alphabet": list(det_alphabet(img)),
            "construction_paths": PATHS,
            "value_alphabet": img,
        },
        "assumptions": [
            "structural axes (classes, modifiers, shapes, arrival orders, paths, estimators) are exhaustive; parameter values come from one finite alphabet (3 affine images rotated by VERIF_SEED) - not a proof over the reals",
            "references are closed forms in math / scipy.special; tolerances = rounding budget of 64 ulp scaled by the conditioning of the reference (+ 1e-9 for OpenTURNS' truncated / composite distributions, whose solvers are specified at 1e-12); moments 1e-11 (closed form) / 1e-8 (numerically integrated)",
            "statistical statements (samples follow the law) are checked only through deterministic consequences: support membership, seeded reproducibility, transform identities, estimators = numpy formulas, parametric statistics = closed forms of the fitted law",
            "OTDiracDistribution: generalized-inverse inequalities instead of mutual inverses; transformed OpenTURNS distributions: the reported support is OpenTURNS' numerical range of the composite, asked to contain the range and lie in the analytic support",
            "tolerance intervals, A/B-values, goodness-of-fit values and the out= argument of transform_vect are not checked",
        ],
    }


def replay(case, ctx):
    if case.get("part") not in EXECUTORS:
        return {"case": case, "violations": [], "note": "not an executable case"}
    focus = case.get("focus")
    case = {k: v for k, v in case.items() if k != "focus"}
    viols, obs = EXECUTORS[case["part"]](case)
    return {"focus": focus, "violations": [{"signature": s, "focus": f, "message": m} for s, f, m in viols], "observed": obs}
