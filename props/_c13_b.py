"""C13 part B - consequences of the pool guarantees, explored under the cooperative scheduler (thread mode) and through
forced completion orders (process mode):

B1  MDOParallelChain (threads) == MDOChain, data and Jacobians, every schedule with <= d deviations
B2  DiscParallelExecution / DiscParallelLinearization (threads) with one failing discipline: positional results
B3  two disciplines sharing one MemoryFullCache (virtual re-entrant lock = scheduling points)
B4  parallel finite differences (process back-end) under every forced completion order == serial
B5  parallel DOE (process back-end) under every forced completion order == sequential DOE database
B9  every history (<= 2 executions, thorough 3) of DiscParallelExecution / MDOParallelChain on disciplines with an optional
    input that is given or omitted, thread and process back-ends: returned data and the disciplines' own data == sequential twins
B8  every history (<= 2 calls, thorough 3) of f_gradient / compute_optimal_step with changing keyword arguments and
    component selections on the three approximators (process back-end; threads are refused by the pool) == the same history on a sequential twin
"""
from __future__ import annotations

import contextlib
import io
import itertools
import os
import tempfile
import time

import numpy as np

from mc import pool_model, sched
from mc.core import Tally, pmap

SIZES = {"a": 1, "b": 2, "c": 1, "d": 2, "e": 1}


def _lin_cls():
    from gemseo.core.discipline import Discipline

    class Lin(Discipline):
        """y_o = sum_i M[o,i] x_i + c_o with fixed integer coefficient blocks."""

        def __init__(self, name, ins, outs, seed, fail=False):
            super().__init__(name=name)
            self.ins, self.outs = list(ins), list(outs)
            self.input_grammar.update_from_names(self.ins)
            self.output_grammar.update_from_names(self.outs)
            rng = np.random.default_rng(seed)
            self.M = {(o, i): rng.integers(-3, 4, (SIZES[o], SIZES[i])).astype(float) for o in outs for i in ins}
            self.c = {o: rng.integers(-2, 3, SIZES[o]).astype(float) for o in outs}
            self.default_input_data = {i: np.ones(SIZES[i]) for i in ins}
            self.fail = fail
            self.runs = 0

        def f(self, data):
            return {o: sum(self.M[o, i] @ data[i] for i in self.ins) + self.c[o] for o in self.outs}

        def _run(self, input_data):
            self.runs += 1
            if self.fail:
                raise ValueError(f"{self.name} fails")
            return self.f(input_data)

        def _compute_jacobian(self, input_names=(), output_names=()):
            self.jac = {o: {i: self.M[o, i].copy() for i in self.ins} for o in self.outs}

    return Lin


def _discs(seed, fail=()):
    Lin = _lin_cls()
    return [Lin("D0", ["a", "b"], ["c"], 1 + 10 * seed, 0 in fail), Lin("D1", ["a"], ["d"], 2 + 10 * seed, 1 in fail), Lin("D2", ["b"], ["e"], 3 + 10 * seed, 2 in fail)]


X = {"a": np.array([0.5]), "b": np.array([1.0, -2.0])}


def _dense(m):
    return np.asarray(m.todense()) if hasattr(m, "todense") else np.asarray(m)


def _patches():
    import gemseo.core.parallel_execution.callable_parallel_execution as cpe

    return [(cpe, "queue", sched.FakeQueueModule), (cpe, "th", sched.FakeThreadingModule)]


# -- B1 ---------------------------------------------------------------------------------------
def _b1(prefix, tally, seed=0):
    from gemseo.core.chains.chain import MDOChain
    from gemseo.core.chains.parallel_chain import MDOParallelChain

    ref = MDOChain(_discs(seed))
    rout = ref.execute(X)
    rj = ref.linearize(X, compute_all_jacobians=True)
    holder = {}

    def body():
        pc = MDOParallelChain(_discs(seed), use_threading=True, n_processes=2)
        out = pc.execute(X)
        j = pc.linearize(X, compute_all_jacobians=True)
        holder["out"], holder["j"] = out, j

    x = sched.run(body, prefix, _patches(), horizon=4000)
    choices = [[t[0], t[1]] for t in x.trace]
    case = {"part": "B1", "schedule": choices, "seed": seed}
    bad = []
    if x.failure is not None or x.error is not None:
        bad.append(("parallel-chain-failure", f"{x.failure!r} {x.error!r}"))
    else:
        out, j = holder["out"], holder["j"]
        for k in ("c", "d", "e"):
            if not np.array_equal(out[k], rout[k]):
                bad.append(("parallel-chain-data", f"{k}: {out[k]} vs sequential {rout[k]}"))
        for o in ("c", "d", "e"):
            for i in ("a", "b"):
                if not np.array_equal(_dense(j[o][i]), _dense(rj[o][i])):
                    bad.append(("parallel-chain-jacobian", f"d{o}/d{i}: {_dense(j[o][i])} vs sequential {_dense(rj[o][i])}"))
    order = tuple(item[0] for kind, qid, item in x.events if kind == "put" and qid % 2 == 1 and item is not None)
    tally.case(("B1", tuple(map(tuple, choices))), nontrivial=list(order[:3]) != sorted(order[:3]) or list(order[3:]) != sorted(order[3:]), outcome=f"B1:orders={order}", sample={"part": "B1", "choices": [c[1] for c in choices]} if sum(1 for c in choices if c[1]) == 1 else None)
    tally.transitions += len(x.trace)
    tally.traces += 1
    for inv, msg in bad:
        tally.violation({"invariant": inv, "part": "B1"}, case, f"{inv}: {msg}")
    return x.trace


# -- B6: disciplines that modify their inputs in place need their own copies (use_deep_copy=True) ----------------
def _inplace_classes():
    from gemseo.core.discipline import Discipline

    class Scaler(Discipline):
        def __init__(self):
            super().__init__(name="Scaler")
            self.input_grammar.update_from_names(["a", "b"])
            self.output_grammar.update_from_names(["c"])
            self.default_input_data = {"a": np.ones(1), "b": np.ones(2)}

        def _run(self, input_data):
            b = input_data["b"]
            b *= 2.0  # in place: legal on the discipline's own copy of the data
            return {"c": np.array([b.sum() + input_data["a"][0]])}

    class Reader(Discipline):
        def __init__(self, name, out):
            super().__init__(name=name)
            self.input_grammar.update_from_names(["b"])
            self.output_grammar.update_from_names([out])
            self.default_input_data = {"b": np.ones(2)}
            self.out = out

        def _run(self, input_data):
            return {self.out: input_data["b"] + 1.0}

    return Scaler, Reader


def _b6(prefix, tally, seed=0):
    from gemseo.core.chains.parallel_chain import MDOParallelChain

    Scaler, Reader = _inplace_classes()
    x = {"a": np.array([0.5 + seed]), "b": np.array([1.0, -2.0 + seed])}
    exp_c = np.array([2 * x["b"].sum() + x["a"][0]])
    exp_r = x["b"] + 1.0
    holder = {}

    def body():
        pc = MDOParallelChain([Reader("R0", "d"), Scaler(), Reader("R1", "e")], use_threading=True, n_processes=2, use_deep_copy=True)
        holder["out"] = pc.execute({k: v.copy() for k, v in x.items()})

    xx = sched.run(body, prefix, _patches(), horizon=4000)
    choices = [[t[0], t[1]] for t in xx.trace]
    case = {"part": "B6", "schedule": choices, "seed": seed}
    bad = []
    if xx.failure is not None or xx.error is not None:
        bad.append(("parallel-chain-failure", f"{xx.failure!r} {xx.error!r}"))
    else:
        out = holder["out"]
        if not np.array_equal(out["c"], exp_c):
            bad.append(("parallel-chain-data", f"c={out['c']} expected {exp_c}"))
        for k in ("d", "e"):
            if not np.array_equal(out[k], exp_r):
                bad.append(("parallel-chain-data", f"{k}={out[k]} expected {exp_r}: a discipline saw the in-place modification another one made to ITS copy of the inputs"))
    tally.case(("B6", tuple(map(tuple, choices))), nontrivial=any(c[1] for c in choices), outcome=f"B6:{'bad' if bad else 'ok'}")
    tally.transitions += len(xx.trace)
    tally.traces += 1
    for inv, msg in bad:
        tally.violation({"invariant": inv, "part": "B6"}, case, f"{inv}: {msg}")
    return xx.trace


# -- B2 ---------------------------------------------------------------------------------------
_B2_FAIL = (1,)
_B2_KIND = "exec"


def _b2(prefix, tally, seed=0):
    from gemseo.core.parallel_execution.disc_parallel_execution import DiscParallelExecution
    from gemseo.core.parallel_execution.disc_parallel_linearization import DiscParallelLinearization

    fail, kind = _B2_FAIL, _B2_KIND
    discs = _discs(seed, fail)
    refs = _discs(seed)
    holder = {}

    def body():
        if kind == "exec":
            p = DiscParallelExecution(discs, n_processes=2, use_threading=True)
        else:
            for d in discs:
                d.add_differentiated_inputs()
                d.add_differentiated_outputs()
            p = DiscParallelLinearization(discs, n_processes=2, use_threading=True)
        holder["res"] = p.execute([dict(X) for _ in discs])

    x = sched.run(body, prefix, _patches(), horizon=4000)
    choices = [[t[0], t[1]] for t in x.trace]
    case = {"part": "B2", "kind": kind, "fail": list(fail), "schedule": choices, "seed": seed}
    bad = []
    if x.failure is not None or x.error is not None:
        bad.append(("parallel-disciplines-failure", f"{x.failure!r} {x.error!r}"))
    else:
        res = holder["res"]
        if len(res) != len(discs):
            bad.append(("positional-result-length", f"{kind}: {len(res)} results for {len(discs)} inputs (failing tasks {list(fail)}): a failure must only affect its own slot"))
        else:
            for k, (d, r) in enumerate(zip(refs, res)):
                if k in fail:
                    if r is not None:
                        bad.append(("failed-slot-not-none", f"slot {k}: {r}"))
                    continue
                if r is None:
                    bad.append(("positional-result", f"slot {k} is None but task {k} succeeded"))
                    continue
                if kind == "exec":
                    exp = d.f(X)
                    if any(not np.array_equal(r.get(o), exp[o]) for o in d.outs):
                        bad.append(("positional-result", f"slot {k}: {dict(r)} expected {exp}"))
                else:
                    if set(r) != set(d.outs) or any(not np.array_equal(_dense(r[o][i]), d.M[o, i]) for o in d.outs for i in d.ins):
                        bad.append(("positional-result", f"slot {k}: Jacobian {r} expected blocks of {d.name}"))
        # the discipline objects carry their own data
        for k, (d, r) in enumerate(zip(discs, refs)):
            if k in fail:
                continue
            exp = r.f(X)
            if any(not np.array_equal(d.io.data.get(o), exp[o]) for o in d.outs):
                bad.append(("discipline-data-after-parallel-run", f"{d.name}.io.data={dict(d.io.data)} expected outputs {exp}"))
    tally.case(("B2", kind, fail, tuple(map(tuple, choices))), nontrivial=True, outcome=f"B2:{kind}:fail={fail}")
    tally.transitions += len(x.trace)
    tally.traces += 1
    for inv, msg in bad:
        tally.violation({"invariant": inv, "part": "B2", "kind": kind, "fail": len(fail) > 0}, case, f"{inv}: {msg}")
    return x.trace


# -- B3 ---------------------------------------------------------------------------------------
_B3_SHARED_INPUT = True


def _b3(prefix, tally, seed=0):
    """Two structurally identical disciplines share one MemoryFullCache and are executed in parallel threads."""
    from gemseo.caches.memory_full_cache import MemoryFullCache
    from gemseo.core.parallel_execution.disc_parallel_execution import DiscParallelExecution

    Lin = _lin_cls()
    d0 = Lin("D", ["a", "b"], ["c"], 5 + seed)
    d1 = Lin("D", ["a", "b"], ["c"], 5 + seed)
    cache = MemoryFullCache(is_memory_shared=False)
    lock = sched.VLock("cache.lock")
    lock_h = sched.VLock("cache.lock_hashes")
    cache.lock = lock
    cache.lock_hashes = lock_h
    d0.cache = cache
    d1.cache = cache
    xa = dict(X)
    xb = dict(X) if _B3_SHARED_INPUT else {"a": np.array([0.25]), "b": np.array([3.0, 1.0])}
    holder = {}

    def body():
        p = DiscParallelExecution([d0, d1], n_processes=2, use_threading=True)
        holder["res"] = p.execute([xa, xb])

    x = sched.run(body, prefix, _patches(), horizon=6000)
    choices = [[t[0], t[1]] for t in x.trace]
    case = {"part": "B3", "same_input": _B3_SHARED_INPUT, "schedule": choices, "seed": seed}
    bad = []
    if x.failure is not None or x.error is not None:
        bad.append(("shared-cache-failure", f"{x.failure!r} {x.error!r}"))
    else:
        res = holder["res"]
        for r, xi in zip(res, (xa, xb)):
            exp = d0.f(xi)
            if r is None or not np.array_equal(r["c"], exp["c"]):
                bad.append(("shared-cache-wrong-output", f"{None if r is None else dict(r)} expected {exp} for {xi}"))
        n_exp = 1 if _B3_SHARED_INPUT else 2
        if len(cache) != n_exp:
            bad.append(("shared-cache-entry-count", f"{len(cache)} entries for {n_exp} distinct inputs"))
        for e in cache.get_all_entries():
            exp = d0.f(e.inputs)
            if not e.outputs or not np.array_equal(e.outputs["c"], exp["c"]):
                bad.append(("shared-cache-entry-mismatch", f"entry inputs={dict(e.inputs)} outputs={dict(e.outputs)} expected {exp}"))
        # the cache must serve both inputs correctly afterwards, without running the body
        runs = d0.runs + d1.runs
        for xi in (xa, xb):
            out = d0.execute(xi)
            if not np.array_equal(out["c"], d0.f(xi)["c"]):
                bad.append(("shared-cache-serves-wrong-value", f"{dict(out)}"))
        if d0.runs + d1.runs != runs:
            bad.append(("shared-cache-miss-after-parallel-fill", "the body ran again for an input both workers had stored"))
    tally.case(("B3", _B3_SHARED_INPUT, tuple(map(tuple, choices))), nontrivial=any(c[1] for c in choices), outcome=f"B3:same={_B3_SHARED_INPUT}:runs={d0.runs + d1.runs}:acq={lock.acquisitions}")
    tally.transitions += len(x.trace)
    tally.traces += 1
    for inv, msg in bad:
        tally.violation({"invariant": inv, "part": "B3", "same_input": _B3_SHARED_INPUT}, case, f"{inv}: {msg}")
    return x.trace


# -- B7: parallel linearization of two disciplines sharing one full cache ------------------------------
def _b7(prefix, tally, seed=0):
    from gemseo.caches.memory_full_cache import MemoryFullCache
    from gemseo.core.parallel_execution.disc_parallel_linearization import DiscParallelLinearization

    Lin = _lin_cls()
    d0 = Lin("D", ["a", "b"], ["c"], 5 + seed)
    d1 = Lin("D", ["a", "b"], ["c"], 5 + seed)
    cache = MemoryFullCache(is_memory_shared=False)
    cache.lock = sched.VLock("cache.lock")
    cache.lock_hashes = sched.VLock("cache.lock_hashes")
    d0.cache = cache
    d1.cache = cache
    xa = dict(X)
    xb = {"a": np.array([0.25]), "b": np.array([3.0, 1.0])}
    holder = {}

    def body():
        for d in (d0, d1):
            d.add_differentiated_inputs()
            d.add_differentiated_outputs()
        p = DiscParallelLinearization([d0, d1], n_processes=2, use_threading=True)
        holder["res"] = p.execute([xa, xb])

    x = sched.run(body, prefix, _patches(), horizon=8000)
    choices = [[t[0], t[1]] for t in x.trace]
    case = {"part": "B7", "schedule": choices, "seed": seed}
    bad = []
    if x.failure is not None or x.error is not None:
        bad.append(("shared-cache-failure", f"{x.failure!r} {x.error!r}"))
    else:
        res = holder["res"]
        for k, r in enumerate(res):
            if r is None or any(not np.array_equal(_dense(r["c"][i]), d0.M["c", i]) for i in ("a", "b")):
                bad.append(("positional-result", f"Jacobian of task {k}: {r}"))
        n_with_jac = 0
        for e in cache.get_all_entries():
            exp = d0.f(e.inputs)
            if e.outputs and not np.array_equal(e.outputs["c"], exp["c"]):
                bad.append(("shared-cache-entry-mismatch", f"entry inputs={dict(e.inputs)} outputs={dict(e.outputs)}"))
            if e.jacobian:
                n_with_jac += 1
                if any(not np.array_equal(_dense(e.jacobian["c"][i]), d0.M["c", i]) for i in ("a", "b")):
                    bad.append(("shared-cache-entry-jacobian-mismatch", f"entry inputs={dict(e.inputs)} jacobian={e.jacobian}"))
        if len(cache) != 2 or n_with_jac != 2:
            bad.append(("shared-cache-jacobian-not-stored-with-its-entry", f"{len(cache)} entries, {n_with_jac} with a Jacobian, for 2 inputs linearized in parallel (the sequential run stores one Jacobian per entry)"))
    tally.case(("B7", tuple(map(tuple, choices))), nontrivial=any(c[1] for c in choices), outcome=f"B7:{'bad' if bad else 'ok'}")
    tally.transitions += len(x.trace)
    tally.traces += 1
    for inv, msg in bad:
        tally.violation({"invariant": inv, "part": "B7"}, case, f"{inv}: {msg}")
    return x.trace


# -- B8: call histories of the gradient approximators, parallel twin vs sequential twin ------------------
def _b8_f(x, a=1.0, b=0.0):
    """Analytic in x (complex step works), depends on its keyword arguments."""
    return np.array([a * x[0] ** 2 + 2.0 * x[1] + b, a * x[0] * x[1] - b * x[1] ** 2])


_B8_KW = {"none": {}, "a2": {"a": 2.0}, "a3b": {"a": 3.0, "b": 0.5}}
_B8_CALLS = [("grad", "none", ()), ("grad", "a2", ()), ("grad", "a3b", ()), ("grad", "none", (1,)), ("opt", "none", ()), ("opt", "a2", ()), ("opt", "a3b", ())]


def _b8_cases(thorough):
    cases = []
    for cls in ("FirstOrderFD", "CenteredDifferences", "ComplexStep"):
        calls = [c for c in _B8_CALLS if not (cls == "ComplexStep" and c[0] == "opt")]
        hists = [[c] for c in calls] + [[c1, c2] for c1 in calls for c2 in calls]
        if thorough:
            hists += [[c1, c2, c3] for c1 in calls for c2 in calls for c3 in calls if len({c1, c2, c3}) > 1]
        # the approximators hand one bound method to every task, which the thread back-end refuses by design
        # ("all workers shall be different objects"): only the process back-end is a legal configuration here
        for threads in (False,):
            for h in hists:
                cases.append({"part": "B8", "cls": cls, "threads": threads, "history": [list(map(lambda v: list(v) if isinstance(v, tuple) else v, c)) for c in h]})
    return cases


def _b8(case, tally):
    import gemseo.utils.derivatives.centered_differences as cd
    import gemseo.utils.derivatives.complex_step as cs
    import gemseo.utils.derivatives.finite_differences as fd

    cls = {"FirstOrderFD": fd.FirstOrderFD, "CenteredDifferences": cd.CenteredDifferences, "ComplexStep": cs.ComplexStep}[case["cls"]]
    step = 1e-20 if case["cls"] == "ComplexStep" else 1e-4
    seq = cls(_b8_f, step=step)
    par = cls(_b8_f, step=step, parallel=True, n_processes=2, use_threading=case["threads"])
    x0 = np.array([1.5, -0.75])
    obs = {"seq": [], "par": []}
    err = io.StringIO()
    with contextlib.redirect_stderr(err):
        for name, ap in (("seq", seq), ("par", par)):
            for kind, kw, xi in case["history"]:
                try:
                    if kind == "grad":
                        r = ap.f_gradient(x0.copy(), x_indices=list(xi), **_B8_KW[kw])
                        obs[name].append(np.asarray(r).tolist())
                    else:
                        steps, errors = ap.compute_optimal_step(x0.copy(), **_B8_KW[kw])
                        obs[name].append([np.asarray(steps).tolist(), np.asarray(errors).tolist()])
                except Exception as e:  # both twins must then fail alike
                    obs[name].append(f"raised:{type(e).__name__}")
    tally.traces += 1
    kws = [c[1] for c in case["history"]]
    tally.case(("B8", case["cls"], case["threads"], str(case["history"])), nontrivial=len(set(kws)) > 1 or kws[0] != "none",
               outcome=f"B8:{case['cls']}:{'eq' if obs['seq'] == obs['par'] else 'diff'}")
    if obs["seq"] != obs["par"]:
        k = next(i for i, (a, b) in enumerate(zip(obs["seq"], obs["par"])) if a != b)
        tally.violation({"invariant": "parallel-approximation-differs-from-sequential", "part": "B8", "cls": case["cls"], "call": case["history"][k][0]}, case,
                        f"{case['cls']} threads={case['threads']} history={case['history']}: call {k} returns\n  sequential={obs['seq'][k]}\n  parallel  ={obs['par'][k]}")


# -- B9: execution histories with changing sets of provided inputs, both back-ends, vs sequential twins ----------
_B9_INPUTS = {
    "ab": [{"a": [1.0], "b": [10.0]}, {"a": [2.0], "b": [20.0]}],
    "a": [{"a": [3.0]}, {"a": [4.0]}],
    "ab2": [{"a": [-1.0], "b": [0.5]}, {"a": [5.0], "b": [-2.0]}],
}


def _b9_cls():
    from gemseo.core.discipline import Discipline

    class Opt(Discipline):
        """y_k = k a + b with an optional input b (0 when absent)."""

        def __init__(self, k):
            super().__init__(name=f"D{k}")
            self.k = k
            self.io.input_grammar.update_from_names(["a", "b"])
            self.io.input_grammar.required_names.remove("b")
            self.io.output_grammar.update_from_names([f"y{k}"])

        def _run(self, input_data):
            return {f"y{self.k}": self.k * input_data["a"] + input_data.get("b", np.array([0.0]))}

    return Opt


def _b9_cases(thorough):
    keys = list(_B9_INPUTS)
    hists = [[k] for k in keys] + [[k1, k2] for k1 in keys for k2 in keys]
    if thorough:
        hists += [[k1, k2, k3] for k1 in keys for k2 in keys for k3 in keys]
    return [{"part": "B9", "container": c, "threads": t, "history": h} for c in ("DiscParallelExecution", "MDOParallelChain") for t in (True, False) for h in hists]


def _b9(case, tally):
    from gemseo.core.chains.parallel_chain import MDOParallelChain
    from gemseo.core.parallel_execution.disc_parallel_execution import DiscParallelExecution

    Opt = _b9_cls()
    discs, twins = [Opt(1), Opt(2)], [Opt(1), Opt(2)]
    same = lambda d, e: set(d) == set(e) and all(np.array_equal(d[n], e[n]) for n in d)
    show = lambda d: {n: np.asarray(v).tolist() for n, v in sorted(d.items())}
    bad = []
    err = io.StringIO()
    with contextlib.redirect_stderr(err):
        if case["container"] == "DiscParallelExecution":
            par = DiscParallelExecution(discs, n_processes=2, use_threading=case["threads"])
        else:
            par = MDOParallelChain(discs, use_threading=case["threads"], n_processes=2)
        for step, key in enumerate(case["history"]):
            ins = [{n: np.array(v) for n, v in d.items()} for d in _B9_INPUTS[key]]
            if case["container"] == "DiscParallelExecution":
                outs = par.execute(ins)
                for twin, i in zip(twins, ins):
                    twin.execute({n: v.copy() for n, v in i.items()})
                for k, (o, twin) in enumerate(zip(outs, twins)):
                    if o is None or not same(o, twin.io.data):
                        bad.append(("parallel-returned-data-differ", step, f"task {k}: returned {show(o) if o is not None else None} sequential {show(twin.io.data)}"))
            else:
                out = par.execute(ins[0])
                for twin in twins:
                    twin.execute({n: v.copy() for n, v in ins[0].items()})
                exp = {n: v for twin in twins for n, v in twin.io.get_output_data().items()}
                got = {n: out[n] for n in exp if n in out}
                if not same(got, exp):
                    bad.append(("parallel-chain-outputs-differ", step, f"chain outputs {show(got)} sequential {show(exp)}"))
            for d, twin in zip(discs, twins):
                if not same(d.io.data, twin.io.data):
                    bad.append(("parallel-discipline-data-differ", step, f"{d.name}: data after the parallel execution {show(d.io.data)} after the sequential one {show(twin.io.data)}"))
    tally.traces += 1
    h = case["history"]
    tally.case(("B9", case["container"], case["threads"], tuple(h)), nontrivial=len({frozenset(_B9_INPUTS[k][0]) for k in h}) > 1,
               outcome=f"B9:{case['container']}:{'threads' if case['threads'] else 'processes'}:{'bad' if bad else 'ok'}")
    for inv, step, msg in bad:
        tally.violation({"invariant": inv, "part": "B9", "container": case["container"], "threads": case["threads"]}, case, f"history {h} execution {step}: {msg}")


# -- B4 / B5: forced completion orders on the process back-end -----------------------------------
class _GatedFunction:
    """f(x) = [x0^2 + 2 x1, x0 x1]; the evaluation of point number k waits for its turn in the forced order."""

    def __init__(self, points, order, gate_dir):
        self.points, self.order, self.gate_dir = points, order, gate_dir

    def __call__(self, x):
        x = np.asarray(x).real
        k = next((i for i, p in enumerate(self.points) if np.allclose(p, x, rtol=0, atol=1e-12)), None)
        if k is not None and self.gate_dir:
            pos = self.order.index(k)
            t0 = time.time()
            while not os.path.exists(os.path.join(self.gate_dir, f"turn{pos}")):
                time.sleep(0.0005)
                if time.time() - t0 > 20:
                    raise TimeoutError("gate")
            open(os.path.join(self.gate_dir, f"turn{pos + 1}"), "w").close()
        return np.array([x[0] ** 2 + 2 * x[1], x[0] * x[1]])


def _b4(case, tally):
    from gemseo.utils.derivatives.finite_differences import FirstOrderFD

    order = case["order"]
    x0 = np.array([1.0, 2.0])
    step = 1e-6
    points = [x0, x0 + np.array([step, 0.0]), x0 + np.array([0.0, step])]
    gate_dir = tempfile.mkdtemp(prefix="gates_", dir=case["scratch"])
    open(os.path.join(gate_dir, "turn0"), "w").close()
    f = _GatedFunction(points, [i - 1 for i in order], gate_dir)
    serial = FirstOrderFD(_GatedFunction(points, [], None), step=step).f_gradient(x0)
    err = io.StringIO()
    with contextlib.redirect_stderr(err):
        par = FirstOrderFD(f, step=step, parallel=True, n_processes=case["W"]).f_gradient(x0)
    tally.traces += 1
    tally.case(("B4", tuple(order), case["W"]), nontrivial=list(order) != sorted(order), outcome=f"B4:order={tuple(order)}", sample={"part": "B4", "forced_completion_order": list(order)})
    if not np.array_equal(np.asarray(par), np.asarray(serial)):
        tally.violation({"invariant": "parallel-fd-differs-from-serial", "part": "B4"}, {k: v for k, v in case.items() if k != "scratch"},
                        f"forced completion order {order}: parallel {par} serial {serial}")
    import shutil

    shutil.rmtree(gate_dir, ignore_errors=True)


class _GatedObjective:
    def __init__(self, samples, order, fail, gate_dir):
        self.samples, self.order, self.fail, self.gate_dir = samples, order, fail, gate_dir

    def __call__(self, x):
        k = next((i for i, p in enumerate(self.samples) if np.allclose(p, x, rtol=0, atol=1e-12)), None)
        if k is not None and self.gate_dir:
            pos = self.order.index(k)
            t0 = time.time()
            while not os.path.exists(os.path.join(self.gate_dir, f"turn{pos}")):
                time.sleep(0.0005)
                if time.time() - t0 > 20:
                    raise TimeoutError("gate")
            if k in self.fail:
                open(os.path.join(self.gate_dir, f"turn{pos + 1}"), "w").close()
                raise ValueError("sample fails")
        elif k in self.fail:
            raise ValueError("sample fails")
        return np.array([float(x[0] ** 2 + 3.0 * x[1])])

    def jac(self, x):
        return np.array([[2.0 * x[0], 3.0]])


def _doe_problem(f):
    from gemseo.algos.design_space import DesignSpace
    from gemseo.algos.optimization_problem import OptimizationProblem
    from gemseo.core.mdo_functions.mdo_function import MDOFunction

    ds = DesignSpace()
    ds.add_variable("x", 2, lower_bound=-1.0, upper_bound=2.0)
    pb = OptimizationProblem(ds)
    pb.objective = MDOFunction(f, "f", jac=f.jac)
    return pb


def _b5(case, tally):
    from gemseo.algos.doe.factory import DOELibraryFactory

    order = [i - 1 for i in case["order"]]
    fail = set(case["fail"])
    samples = np.array([[0.0, 1.0], [1.5, -0.5], [-1.0, 2.0], [0.5, 0.5]][: len(order)])
    gate_dir = tempfile.mkdtemp(prefix="gates_", dir=case["scratch"])
    open(os.path.join(gate_dir, "turn0"), "w").close()

    def open_next(index, _):
        open(os.path.join(gate_dir, f"turn{order.index(index) + 1}"), "w").close()

    eval_jac = bool(case.get("eval_jac"))
    seen = {"seq": {}, "par": {}}

    def recorder(which):
        def record(index, data):  # what a user callback is given: (outputs, Jacobians), snapshot at call time
            out, jac = data
            seen[which].setdefault(index, []).append(({k: np.asarray(v).tolist() for k, v in out.items()}, {k: np.asarray(v).tolist() for k, v in (jac or {}).items()}))

        return record

    err = io.StringIO()
    with contextlib.redirect_stderr(err):
        seq = _doe_problem(_GatedObjective(samples, [], fail, None))
        DOELibraryFactory().execute(seq, algo_name="CustomDOE", samples=samples, eval_jac=eval_jac, callbacks=[recorder("seq")])
        par = _doe_problem(_GatedObjective(samples, order, fail, gate_dir))
        DOELibraryFactory().execute(par, algo_name="CustomDOE", samples=samples, n_processes=case["W"], eval_jac=eval_jac, callbacks=[recorder("par"), open_next])

    def content(pb):
        return [(tuple(np.asarray(k.unwrap()).tolist()), {n: np.asarray(v).tolist() for n, v in val.items()}) for k, val in pb.database.items()]

    tally.traces += 1
    tally.case(("B5", tuple(order), tuple(sorted(fail)), case["W"], eval_jac), nontrivial=order != sorted(order), outcome=f"B5:order={tuple(case['order'])}:fail={sorted(fail)}:jac={eval_jac}")
    if seen["seq"] != seen["par"]:
        tally.violation({"invariant": "parallel-doe-callbacks-differ", "part": "B5", "fail": len(fail) > 0, "eval_jac": eval_jac}, {k: v for k, v in case.items() if k != "scratch"},
                        f"forced completion order {case['order']} fail={sorted(fail)} eval_jac={eval_jac}: the user callback received\n  sequential={seen['seq']}\n  parallel  ={seen['par']}")
    cs, cp = content(seq), content(par)
    # a failing sample only loses its own entry (an empty or absent record are both accepted for it)
    strip = lambda c: [(k, v) for k, v in c if v]
    if strip(cs) != strip(cp):
        tally.violation({"invariant": "parallel-doe-database-differs", "part": "B5", "fail": len(fail) > 0}, {k: v for k, v in case.items() if k != "scratch"},
                        f"forced completion order {case['order']} fail={sorted(fail)}:\n  sequential={cs}\n  parallel  ={cp}")
    import shutil

    shutil.rmtree(gate_dir, ignore_errors=True)


# ------------------------------------------------------------------------------------------
def run(ctx):
    global _B2_FAIL, _B2_KIND, _B3_SHARED_INPUT
    tally = ctx.tally
    d = 2 if ctx.thorough else 1
    info = {}
    t = Tally()
    info["B1"] = sched.explore(lambda p, tt: _b1(p, tt, ctx.seed % 3), d, t, jobs=ctx.jobs)
    tally.merge(t)
    t = Tally()
    info["B7"] = sched.explore(lambda p, tt: _b7(p, tt, ctx.seed % 3), d + 1, t, jobs=ctx.jobs)
    tally.merge(t)
    t = Tally()
    info["B6"] = sched.explore(lambda p, tt: _b6(p, tt, ctx.seed % 3), d, t, jobs=ctx.jobs)
    tally.merge(t)
    for kind in ("exec", "lin"):
        for fail in ((), (1,), (0, 2)):
            _B2_FAIL, _B2_KIND = fail, kind
            t = Tally()
            info[f"B2:{kind}:{fail}"] = sched.explore(lambda p, tt: _b2(p, tt, ctx.seed % 3), d, t, jobs=ctx.jobs)
            tally.merge(t)
    for same in (True, False):
        _B3_SHARED_INPUT = same
        t = Tally()
        info[f"B3:same_input={same}"] = sched.explore(lambda p, tt: _b3(p, tt, ctx.seed % 3), d, t, jobs=ctx.jobs)
        tally.merge(t)
    # process back-end: orders from the pool model
    cases4, cases5 = [], []
    for w in (2, 3) if ctx.thorough else (2,):
        r = pool_model.run_tlc(3, w, scratch=ctx.scratch)
        orders = sorted({pool_model.completion_order(tr) for tr in r["traces"]})
        for o in orders:
            cases4.append({"part": "B4", "order": list(o), "W": w, "scratch": ctx.scratch})
            for fail in ([], [0], [1], [2]):
                cases5.append({"part": "B5", "order": list(o), "fail": fail, "W": w, "scratch": ctx.scratch})
            cases5.append({"part": "B5", "order": list(o), "fail": [], "W": w, "eval_jac": True, "scratch": ctx.scratch})
            cases5.append({"part": "B5", "order": list(o), "fail": [1], "W": w, "eval_jac": True, "scratch": ctx.scratch})
        if ctx.thorough and w == 2:
            r4 = pool_model.run_tlc(4, w, scratch=ctx.scratch)
            for o in sorted({pool_model.completion_order(tr) for tr in r4["traces"]}):
                cases5.append({"part": "B5", "order": list(o), "fail": [], "W": w, "scratch": ctx.scratch})
    pmap(_b4, cases4, tally, jobs=ctx.jobs, chunk=2, timeout=120)
    pmap(_b5, cases5, tally, jobs=ctx.jobs, chunk=2, timeout=120)
    cases8 = _b8_cases(ctx.thorough)
    pmap(_b8, cases8, tally, jobs=ctx.jobs, chunk=4, timeout=300)
    info["B8_histories"] = len(cases8)
    cases9 = _b9_cases(ctx.thorough)
    pmap(_b9, cases9, tally, jobs=ctx.jobs, chunk=4, timeout=300)
    info["B9_histories"] = len(cases9)
    info["B4_forced_orders"] = len(cases4)
    info["B5_forced_orders"] = len(cases5)
    tally.notes["partB"] = {k: (v if not isinstance(v, dict) else {"deviation_bound": v["deviation_bound"], "schedules": v["schedules"]}) for k, v in info.items()}


def replay(case, ctx):
    global _B2_FAIL, _B2_KIND, _B3_SHARED_INPUT
    t = Tally()
    part = case["part"]
    if part == "B1":
        _b1(case["schedule"], t, case.get("seed", 0))
    elif part == "B7":
        _b7(case["schedule"], t, case.get("seed", 0))
    elif part == "B6":
        _b6(case["schedule"], t, case.get("seed", 0))
    elif part == "B2":
        _B2_FAIL, _B2_KIND = tuple(case["fail"]), case["kind"]
        _b2(case["schedule"], t, case.get("seed", 0))
    elif part == "B3":
        _B3_SHARED_INPUT = case["same_input"]
        _b3(case["schedule"], t, case.get("seed", 0))
    elif part == "B4":
        _b4(dict(case, scratch=ctx.scratch), t)
    elif part == "B5":
        _b5(dict(case, scratch=ctx.scratch), t)
    elif part == "B8":
        _b8(case, t)
    elif part == "B9":
        _b9(case, t)
    return {"violations": [v["message"] for v in t.violations.values()]}
