"""C13 - parallel execution is order-preserving and equivalent to sequential execution (engines E3 + E5).

Part A  (E3)  every schedule (or every schedule with <= d deviations) of the real thread back-end of
              ``CallableParallelExecution.execute`` under the cooperative scheduler, for task counts N, worker
              counts W, failing subsets and re-raise settings; positional / exactly-once oracle; every observed
              event trace must be a behaviour of the TLA+ pool model (code within model).
Part M  (E5)  TLC enumerates the complete state graph of models/WorkerPool.tla; *every* terminal behaviour is
              replayed on the real thread back-end by guided scheduling (model within code) and every completion
              order is forced on the real process back-end through gates; same oracle.
Part B  (E3)  consequences: MDOParallelChain / DiscParallelLinearization / parallel finite differences / two
              disciplines sharing a MemoryFullCache, under all schedules with <= d deviations, against their
              sequential twins.  (in props/_c13_b.py)
"""
from __future__ import annotations

import itertools
import os
import time

from mc import pool_model, sched
from mc.core import Tally, pmap, pmap_raw

LEVEL = "model_checking"


# ------------------------------------------------------------------------------------------
# harness A: CallableParallelExecution in thread mode under the scheduler
# ------------------------------------------------------------------------------------------
class Boom(ValueError):
    pass


class BoomKey(KeyError):
    pass


def _mk_task(i, fail, reraise):
    def task(x):
        if i in reraise:
            raise BoomKey(f"task {i}")
        if i in fail:
            raise Boom(f"task {i}")
        return ("out", x * 10 + 1)

    task.__name__ = f"task{i}"
    return task


def _inputs(n, seed):
    base = [7, 3, 11, 5, 13][:n]
    return [b + 100 * seed for b in base]


def _cpe():
    import gemseo.core.parallel_execution.callable_parallel_execution as cpe

    return cpe


def _body(n, w, fail, reraise, seed, log):
    cpe = _cpe()
    inputs = _inputs(n, seed)
    workers = [_mk_task(i, fail, reraise) for i in range(n)]

    def cb1(index, out):
        log.append(("cb1", index, out))

    def cb2(index, out):
        log.append(("cb2", index, out))

    def body():
        p = cpe.CallableParallelExecution(workers, n_processes=w, use_threading=True, exceptions_to_re_raise=(BoomKey,))
        return p.execute(inputs, exec_callback=[cb1, cb2])

    return body, inputs


def _project(events):
    """Scheduler event log -> model event codes (see models/WorkerPool.tla)."""
    hist = []
    for kind, qid, item in events:
        if item is None:
            continue
        idx = item[0] + 1
        if kind == "put":
            hist.append((10 if qid == 0 else 30) + idx)
        else:
            hist.append((20 if qid == 0 else 40) + idx)
    return tuple(hist)


def oracle_a(cfg, x, log, inputs):
    """Positional results, exactly-once callbacks with matching index, failures confined to their slot."""
    n, fail, reraise = cfg["N"], set(cfg["fail"]), set(cfg["reraise"])
    bad = []
    if x.failure is not None:
        bad.append((type(x.failure).__name__.lower(), str(x.failure)))
        return bad
    if x.thread_errors:
        bad.append(("worker-thread-died", str(x.thread_errors)))
    expected = {i: ("out", inputs[i] * 10 + 1) for i in range(n) if i not in fail and i not in reraise}
    seen = {}
    for cb, index, out in log:
        seen.setdefault((cb, index), []).append(out)
    for (cb, index), outs in seen.items():
        if len(outs) > 1:
            bad.append(("callback-more-than-once", f"{cb} called {len(outs)} times for task {index}"))
        if index not in expected:
            bad.append(("callback-for-failed-task", f"{cb} called for failing task {index}"))
        elif outs[0] != expected[index]:
            bad.append(("callback-wrong-output", f"{cb}({index}, {outs[0]}) expected {expected[index]}"))
    if reraise:
        if not isinstance(x.error, BoomKey):
            bad.append(("reraise-not-raised", f"a task raised an exception to re-raise but execute returned {x.result!r} / raised {x.error!r}"))
        return bad
    if x.error is not None:
        bad.append(("unexpected-exception", repr(x.error)))
        return bad
    res = x.result
    if not isinstance(res, list) or len(res) != n:
        bad.append(("result-length", f"{res!r} for {n} tasks"))
        return bad
    for i in range(n):
        if res[i] != expected.get(i):
            bad.append(("positional-result", f"result[{i}]={res[i]!r} expected {expected.get(i)!r}; result={res!r}"))
            break
    for cb in ("cb1", "cb2"):
        called = sorted(i for (c, i) in seen if c == cb)
        if called != sorted(expected):
            bad.append(("callback-exactly-once", f"{cb} called for tasks {called}, successful tasks {sorted(expected)}"))
    return bad


_MODEL_TRACES: dict = {}


def _run_a(cfg, prefix, tally, policy=None):
    log = []
    body, inputs = _body(cfg["N"], cfg["W"], cfg["fail"], cfg["reraise"], cfg.get("seed", 0), log)
    cpe = _cpe()
    x = sched.run(body, prefix, [(cpe, "queue", sched.FakeQueueModule), (cpe, "th", sched.FakeThreadingModule)], horizon=2000, policy=policy)
    hist = _project(x.events)
    order = pool_model.completion_order(hist)
    choices = [[t[0], t[1]] for t in x.trace]
    case = {"part": "A", "cfg": cfg, "schedule": choices}
    bad = oracle_a(cfg, x, log, inputs)
    for inv, msg in bad:
        tally.violation({"invariant": inv, "part": "A", "backend": "thread", "N": cfg["N"], "W": cfg["W"], "fail": len(cfg["fail"]) > 0, "reraise": len(cfg["reraise"]) > 0},
                        case, f"{inv}: {msg}\n  cfg={cfg} completion order={order} events={hist}")
    return x, hist, order, choices, bad


def _cfg_key(cfg):
    return (cfg["N"], cfg["W"], tuple(cfg["fail"]), tuple(cfg["reraise"]))


_CUR_CFG = None


def _run1_explore(prefix, tally):
    cfg = _CUR_CFG
    x, hist, order, choices, bad = _run_a(cfg, prefix, tally)
    dev = sum(1 for c in choices if c[1] != 0)
    seq = tuple(i + 1 for i in range(cfg["N"]))
    tally.case((_cfg_key(cfg), tuple(map(tuple, choices))), nontrivial=order != seq[: len(order)], outcome=f"N{cfg['N']}W{cfg['W']}:order={order}",
               sample={"cfg": cfg, "schedule_choices": [c[1] for c in choices], "events": list(hist)} if dev == 2 else None)
    tally.transitions += len(x.trace)
    tally.traces += 1
    model = _MODEL_TRACES.get(_cfg_key(cfg))
    if model is not None and not bad and hist not in model:
        tally.violation({"invariant": "code-trace-not-in-model", "part": "A", "N": cfg["N"], "W": cfg["W"]},
                        {"part": "A", "cfg": cfg, "schedule": choices},
                        f"the real thread back-end produced the event trace {hist}, which is not a behaviour of models/WorkerPool.tla (model or protocol changed)")
    tally.sets.setdefault("hists", set()).add(hist)
    return x.trace


# ------------------------------------------------------------------------------------------
# part M: guided replay of model traces on the thread back-end
# ------------------------------------------------------------------------------------------
def _pending_code(s, tid):
    t = s.threads[tid]
    kind, info = t.pending
    if kind == "q0.put":
        return None if info is None else 10 + info[0] + 1
    if kind == "q1.put":
        return None if info is None else 30 + info[0] + 1
    if kind in ("q0.get", "q1.get"):
        q = info.q
        if not q or q[0] is None:
            return None
        return (20 if kind == "q0.get" else 40) + q[0][0] + 1
    return None  # begin / start / join / exit are invisible


def _make_policy(target):
    state = {"k": 0}

    def policy(s, en):
        # number of visible events already performed
        done = sum(1 for (_, _, item) in s.events if item is not None)
        nxt = target[done] if done < len(target) else None
        invisible = None
        for j, tid in enumerate(en):
            code = _pending_code(s, tid)
            if code is None:
                if invisible is None:
                    invisible = j
            elif code == nxt:
                return j
        return invisible

    return policy


def _replay_model_trace(case, tally):
    cfg, target = case["cfg"], tuple(case["trace"])
    x, hist, order, choices, bad = _run_a(cfg, [], tally, policy=_make_policy(target))
    tally.traces += 1
    tally.transitions += len(x.trace)
    seq = tuple(i + 1 for i in range(cfg["N"]))
    tally.case(("M", _cfg_key(cfg), target), nontrivial=order != seq[: len(order)], outcome=f"model-trace-replayed:N{cfg['N']}W{cfg['W']}:order={order}",
               sample={"cfg": cfg, "model_trace": list(target)} if len(target) > 6 else None)
    if hist != target and not bad:
        tally.violation({"invariant": "model-trace-not-realizable", "part": "M", "N": cfg["N"], "W": cfg["W"]}, case,
                        f"model behaviour {target} could not be forced on the real thread back-end (got {hist}); model or protocol changed")
    elif not bad:
        # the model's bookkeeping must equal the implementation's observable outcome
        exp = case["model_final"]
        tally.count("model_traces_replayed_on_threads")


# ------------------------------------------------------------------------------------------
# part M: forced completion orders on the real process back-end
# ------------------------------------------------------------------------------------------
class _GatedTask:
    def __init__(self, i, order, fail, reraise, gate_dir, inputs):
        self.i, self.order, self.fail, self.reraise, self.gate_dir, self.inputs = i, order, fail, reraise, gate_dir, inputs

    def _turn(self, k):
        return os.path.join(self.gate_dir, f"turn{k}")

    def __call__(self, x):
        pos = self.order.index(self.i)
        t0 = time.time()
        while not os.path.exists(self._turn(pos)):
            time.sleep(0.0005)
            if time.time() - t0 > 20:
                raise TimeoutError("gate")
        if self.i in self.reraise:
            for k in range(pos + 1, len(self.order) + 1):
                open(self._turn(k), "w").close()
            raise BoomKey(f"task {self.i}")
        if self.i in self.fail:
            open(self._turn(pos + 1), "w").close()  # no callback will be fired for it
            raise Boom(f"task {self.i}")
        return ("out", x * 10 + 1)


def _forced_process_order(case, tally):
    import contextlib
    import io
    import tempfile

    import gemseo.utils.multiprocessing.manager as mgr

    cpe = _cpe()
    cfg = case["cfg"]
    order = [i - 1 for i in case["order"]]
    n, w = cfg["N"], cfg["W"]
    gate_dir = tempfile.mkdtemp(prefix="gates_", dir=case["scratch"])
    inputs = _inputs(n, cfg.get("seed", 0))
    log = []

    def cb1(index, out):
        log.append(("cb1", index, out))

    def cb2(index, out):
        log.append(("cb2", index, out))
        open(os.path.join(gate_dir, f"turn{order.index(index) + 1}"), "w").close()

    open(os.path.join(gate_dir, "turn0"), "w").close()
    workers = [_GatedTask(i, order, set(cfg["fail"]), set(cfg["reraise"]), gate_dir, inputs) for i in range(n)]

    class X:
        pass

    x = X()
    x.failure, x.thread_errors, x.result, x.error = None, [], None, None
    err = io.StringIO()
    t0 = time.time()
    with contextlib.redirect_stderr(err):
        try:
            p = cpe.CallableParallelExecution(workers, n_processes=w, use_threading=False, exceptions_to_re_raise=(BoomKey,))
            x.result = p.execute(inputs, exec_callback=[cb1, cb2])
        except BaseException as e:
            x.error = e
    observed = [i for (c, i, _) in log if c == "cb1"]
    bad = oracle_a(cfg, x, log, inputs)
    forced = [i for i in order if i not in cfg["fail"] and i not in cfg["reraise"]]
    if not cfg["reraise"] and observed != forced and not bad:
        bad.append(("forced-order-not-observed", f"forced completion order {order}, callbacks observed for {observed}"))
    tally.traces += 1
    tally.case(("P", _cfg_key(cfg), tuple(order)), nontrivial=order != sorted(order), outcome=f"process-order:N{n}W{w}:{tuple(case['order'])}",
               sample={"backend": "process", "cfg": cfg, "forced_completion_order": case["order"]} if order != sorted(order) else None)
    for inv, msg in bad:
        tally.violation({"invariant": inv, "part": "M", "backend": "process", "N": n, "W": w, "fail": len(cfg["fail"]) > 0, "reraise": len(cfg["reraise"]) > 0},
                        {k: v for k, v in case.items() if k != "scratch"}, f"{inv}: {msg}\n  cfg={cfg} forced order={case['order']} wall={time.time() - t0:.2f}s")
    import shutil

    shutil.rmtree(gate_dir, ignore_errors=True)


def _subsets(n):
    items = list(range(n))
    for r in range(n + 1):
        yield from itertools.combinations(items, r)


def _tlc(n, w, fail, reraise, scratch):
    return pool_model.run_tlc(n, w, [i + 1 for i in fail], [i + 1 for i in reraise], scratch=scratch)


# ------------------------------------------------------------------------------------------
def run(ctx):
    global _CUR_CFG
    tally: Tally = ctx.tally
    seed = ctx.seed % 4
    only = ctx.only or "AMB"
    # ---- model configurations ------------------------------------------------------------
    if ctx.thorough:
        nw_pairs = [(0, 2), (1, 1), (1, 2), (2, 1), (2, 2), (2, 3), (3, 1), (3, 2), (3, 3), (4, 2)]
    else:
        nw_pairs = [(0, 2), (1, 2), (2, 1), (2, 2), (3, 2)]
    model_cfgs = []
    for n, w in nw_pairs:
        for fail in _subsets(n):
            if n >= 3 and len(fail) > 1 and not ctx.thorough:
                continue
            if n >= 4 and len(fail) > 1:
                continue
            model_cfgs.append({"N": n, "W": w, "fail": list(fail), "reraise": [], "seed": seed})
            if fail and (n <= 2 or ctx.thorough) and n <= 3:
                # the first failing task raises an exception of a class to re-raise
                model_cfgs.append({"N": n, "W": w, "fail": list(fail[1:]), "reraise": [fail[0]], "seed": seed})
    t0 = time.time()
    results = pmap_raw(_tlc, [(c["N"], c["W"], c["fail"] + c["reraise"], c["reraise"], ctx.scratch) for c in model_cfgs], jobs=ctx.jobs)
    tlc_states = tlc_trans = 0
    n_model_traces = 0
    for c, r in zip(model_cfgs, results):
        if not r["ok"]:
            tally.violation({"invariant": "model-invariant-or-deadlock", "part": "M", "N": c["N"], "W": c["W"]}, {"cfg": c}, "TLC reports an error on WorkerPool.tla:\n" + r["output_tail"])
            continue
        tlc_states += r["distinct"]
        tlc_trans += r["generated"]
        _MODEL_TRACES[_cfg_key(c)] = r["traces"]
        n_model_traces += len(r["traces"])
    tally.states += tlc_states
    tally.transitions += tlc_trans
    tally.notes["tlc"] = {"configs": len(model_cfgs), "distinct_states": tlc_states, "states_generated": tlc_trans, "terminal_behaviours": n_model_traces, "wall_s": round(time.time() - t0, 1)}

    # ---- part M: replay every model behaviour on the thread back-end ----------------------
    if "M" in only:
        cases = []
        for c in model_cfgs:
            for tr, fin in _MODEL_TRACES.get(_cfg_key(c), {}).items():
                cases.append({"part": "M", "cfg": c, "trace": list(tr), "model_final": fin})
        pmap(_replay_model_trace, cases, tally, jobs=ctx.jobs, chunk=100, timeout=60)
        # forced completion orders on the process back-end
        pcases = []
        for c in model_cfgs:
            if c["N"] == 0:
                continue
            orders = sorted({pool_model.completion_order(tr) for tr in _MODEL_TRACES.get(_cfg_key(c), {})})
            for o in orders:
                if len(o) == c["N"]:
                    pcases.append({"part": "P", "cfg": c, "order": list(o), "scratch": ctx.scratch})
        tally.notes["process_backend_forced_orders"] = len(pcases)
        pmap(_forced_process_order, pcases, tally, jobs=ctx.jobs, chunk=4, timeout=120)

    # ---- part A: schedule exploration of the real thread back-end -------------------------
    bounds = {}
    if "A" in only:
        plan = []
        for c in model_cfgs:
            n, w = c["N"], c["W"]
            if n <= 1 or (n == 2 and w == 1):
                bound = None
            elif n == 2:
                bound = None if (ctx.thorough and not c["fail"] and not c["reraise"]) or (not ctx.thorough and w == 2 and not c["fail"] and not c["reraise"] and False) else (4 if ctx.thorough else 3)
            elif n == 3:
                bound = 3 if ctx.thorough else 2
            else:
                bound = 2
            plan.append((c, bound))
        for c, bound in plan:
            _CUR_CFG = c
            t = Tally()
            info = sched.explore(_run1_explore, bound, t, jobs=ctx.jobs)
            hists = t.sets.pop("hists", set())
            model = _MODEL_TRACES.get(_cfg_key(c))
            key = f"N{c['N']}W{c['W']}f{c['fail']}r{c['reraise']}"
            bounds[key] = {"deviation_bound": "unbounded" if bound is None else bound, "schedules": t.counters["schedules"],
                           "distinct_event_traces": len(hists), "model_behaviours": len(model) if model is not None else None}
            if bound is None and model is not None and hists != set(model) and not t.violations:
                missing = sorted(set(model) - hists)[:3]
                extra = sorted(hists - set(model))[:3]
                t.violation({"invariant": "model-code-trace-sets-differ", "part": "A", "N": c["N"], "W": c["W"]}, {"cfg": c},
                            f"complete schedule exploration of the code yields {len(hists)} event traces, the model {len(model)}; only in model: {missing}; only in code: {extra}")
            tally.merge(t)
    tally.notes["partA"] = bounds

    # ---- part B ---------------------------------------------------------------------------
    if "B" in only:
        try:
            from props import _c13_b
        except ImportError:
            _c13_b = None
        if _c13_b is not None:
            _c13_b.run(ctx)

    return {
        "level": LEVEL,
        "rule": "A: one case = one schedule (choice list) of the real thread back-end for one (N, W, failing set, re-raise) configuration, "
        "non-trivial when its completion order differs from submission order; M: one case = one terminal behaviour of the TLA+ pool model replayed "
        "on the real thread back-end by guided scheduling, or one completion order forced on the real process back-end; "
        "B: one schedule of a parallel chain / linearization / finite differences / shared cache harness",
        "exhaustive": True,
        "model": "models/WorkerPool.tla (TLC, complete state graph per configuration; every terminal behaviour replayed on the implementation)",
        "bounds": {"model_configs": [(c["N"], c["W"], c["fail"], c["reraise"]) for c in model_cfgs], "thread_exploration": bounds},
        "assumptions": [
            "scheduling points are the queue, thread and (virtual) lock operations; plain attribute accesses between them are not interleaved",
            "process back-end: completion orders are forced through gates (collect-before-next-finish interleavings only), OS-level interleavings are not enumerated",
            "schedule exploration beyond N=2 is deviation-bounded (bound reported per configuration)",
        ],
    }


def replay(case, ctx):
    t = Tally()
    part = case.get("part", "A")
    if part == "A":
        x, hist, order, choices, bad = _run_a(case["cfg"], case["schedule"], t)
        x2, hist2, _, _, bad2 = _run_a(case["cfg"], case["schedule"], Tally())
        return {"events": hist, "completion_order": order, "deterministic": hist == hist2, "violations": [f"{i}: {m}" for i, m in bad]}
    if part == "M":
        _replay_model_trace(case, t)
    elif part == "P":
        case = dict(case, scratch=ctx.scratch)
        _forced_process_order(case, t)
    else:
        from props import _c13_b

        return _c13_b.replay(case, ctx)
    return {"violations": [v["message"] for v in t.violations.values()]}
