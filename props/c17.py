"""C17 - MDO formulations are equivalent views of the same problem (engine E2, level "exploration").

Bounded-exhaustive enumeration (mc.product.full + mc.core.pmap, per-case timeout) of

    coupled system (9 coupling graphs on 2-3 harness disciplines, unequal variable sizes 1-2, one shared design
                    variable z, local design variables x{i}, one or two couplings per producer)
  x harness variant (affine / smooth nonlinear contractive / affine and *declared* linear / with a non-design
                     parameter input / coupling variables without bounds)
  x objective provider x constraint provider(s)          (every discipline in turn, one or two constraints)
  x every order of the variables in the design space     (all 24 for <= 4 variables; 5 variables: a strength-3
                                                          sequence-covering set in the quick tier, all 120 in thorough)
  x formulation variant                                  IDF(normalize_constraints in {False, True}),
                                                          MDF(MDAChain, inner MDA in {Jacobi, Gauss-Seidel, Newton-Raphson}),
                                                          DisciplinaryOpt (systems without strong couplings);
                                                          MDF(main MDA in {MDAJacobi, MDAGaussSeidel; MDANewtonRaphson, MDAGSNewton
                                                          on fully cyclic graphs}) on the same design space (couplings included);
                                                          IDF(start_at_equilibrium in {F, T} x n_processes in {1, 2}, threads; one
                                                          multiprocessing variant on 2-strong)
  x 3 design points, each at the consistent couplings y*(x) and at an inconsistent y* + delta (IDF).

The thorough tier is this whole product; the quick tier keeps every order for the two base variants but builds the complete
formulation product only on the covering orders (gemseo's defaults IDF-normalized / MDF-Jacobi on the others) and visits the
other four variants on 3 orders (see ``cases``; the evidence "rule" states it exactly).

Every formulation object is evaluated through the functions of its ``optimization_problem`` (``evaluate`` / ``jac``),
in its own design-space order, several points in a row (the input mask of ``FunctionFromDiscipline`` is computed at
the first call and cached).

Reference ("closed form"): the harness bodies are pure numpy.  For the affine family y*(x) is ONE dense solve of
(I - M) y = c + B x; for the nonlinear family it is a Newton iteration on the assembled residual with the exact
Jacobian down to rounding (<= 8 ulp of the data).  dy*/dx = (I - dF/dy)^-1 dF/dx from the harness partials.

Oracles
  design-space        MDF: the given order minus every coupling; IDF: the given order unchanged, and IDF refuses a
                      design space that lacks a coupling; DisciplinaryOpt: the given order minus the couplings.
                      Sizes and bounds of the kept variables unchanged.
  idf-value/-jac      IDF objective / constraints at (x, y) == the provider's output / partial derivatives at (x, y)
                      (rounding tolerance), for y = y*(x) and y = y*(x) + delta.
  idf-start-*         IDF(start_at_equilibrium=True), sequential or n_processes = 2: the design-space current couplings ==
                      y*(x_current) (closed form, MDA bound), design values unmoved, the consistency constraints vanish there,
                      objective / constraints == the consistent system's and == MDF's at x_current (a 4th design point).
  consistency-*       each consistency constraint == (F_d(x, y) - y_d) [/ (ub - lb) when normalized and finite], vanishes
                      at y*(x) and nowhere else ("-detects-inconsistency": every component is finite, non-zero and of the
                      sign of F - y at y* + delta); Jacobian == (dF_d/dv - E_d) [/ (ub - lb)].
  mdf-value/-jac      MDF (and DisciplinaryOpt) objective / constraints at x == provider's output at (x, y*(x)); Jacobian ==
                      closed-form total derivative (tolerances derived from the MDA tolerance, see ``Ref.bounds``).
  mdf-equals-idf      |MDF(x) - IDF(x, y*(x))| directly, and d MDF/dx == dIDF/dx + dIDF/dy . dy*/dx with the Jacobians
                      *reported by IDF*.
  same-optimum        thorough only, affine couplings + convex quadratic objective q{i} + affine constraints: SLSQP on
                      MDF and on IDF (and DisciplinaryOpt) reach the same optimal value, each optimum is feasible for
                      the harness and IDF's couplings are consistent.

Oracle boundaries (rule 1)
* The name / type (``MDOLinearFunction`` for declared-linear disciplines) / scalar-vs-array return convention of the
  functions is left open; values are compared after ``atleast_1d`` / ``atleast_2d`` and must have the right sizes.
* Constraint scaling for a coupling whose range ub - lb is infinite is left open (any finite positive factor); what is
  demanded is the statement's "vanish exactly at the multidisciplinary solution": zero at y*, finite and non-zero with the
  sign of F - y away from it.  lb == ub couplings are not in the alphabet.
* A design variable that is an input of no discipline is not in the alphabet (MDF drops it, IDF keeps it; the statement
  does not say which is right).  Self-coupled disciplines and variables with two producers are not in the alphabet.
* Non-convergence of an inner MDA is reported as its own invariant (C06 owns convergence); values are then not compared.
* IDF with ``n_processes = 2`` (functions built on an MDOParallelChain) is enumerated with real threads / processes as a
  black box: no schedule is controlled (C13 owns schedules); the oracles are the sequential ones.
* Harness disciplines have default inputs that differ from the design-space current values and from each other; the MDA
  error bounds assume a start anywhere within ||y0|| <= 2 sqrt(m) or at the design-space values.
* Main MDAs of MDF: MDANewtonRaphson / MDAGSNewton only where gemseo supports them (no weakly coupled discipline);
  MDAQuasiNewton is not enumerated (SciPy's stop criterion, ``normed_residual`` not maintained: no derivable bound); an
  MDASequential counts as converged when one of its sub-MDAs reports a normed residual <= tolerance.
* same-optimum: only optimal *values* are compared (the minimiser need not be unique: the objective of one discipline does
  not see every variable); the allowance 1e-6 (1 + |f|) for the accuracy SLSQP reaches with ftol = xtol = 1e-12 is declared,
  not derived (a formulation error moves these optima by >= 1e-3); cases whose optimum sits on a coupling bound of IDF's
  design space are skipped and counted.
"""
from __future__ import annotations

import itertools
import math
import re

import numpy as np

from mc import product
from mc.core import Tally, pmap

LEVEL = "exploration"
TOL = 1e-12  # requested MDA tolerance (normed residual)
MAX_ITER = 100
LIN_TOL = 1e-12  # gemseo's default tolerance of the linear solver of the coupled derivatives
EPS = float(np.finfo(float).eps)
INNER_MDAS = ["MDAJacobi", "MDAGaussSeidel", "MDANewtonRaphson"]

# ------------------------------------------------------------------------------------------------
# value alphabets (VERIF_SEED rotates among them; the enumerated structure never changes)
# ------------------------------------------------------------------------------------------------
ALPHABETS = [
    {"name": "z2-x1-y212", "z": 2, "x": 1, "y": [2, 1, 2], "w": 1, "g": [2, 1, 2], "p": 1, "shift": 0, "base": [0.3, 0.0, -1.1]},
    {"name": "z1-x2-y121", "z": 1, "x": 2, "y": [1, 2, 1], "w": 2, "g": [1, 2, 2], "p": 2, "shift": 3, "base": [-0.7, 0.0, 1.6]},
    {"name": "z2-x2-y122", "z": 2, "x": 2, "y": [1, 2, 2], "w": 1, "g": [2, 2, 1], "p": 1, "shift": 5, "base": [1.2, 0.0, -0.4]},
]
ALPHA = ALPHABETS[0]

# coupling graphs: discipline i (label i+1) reads ``ins`` and writes the couplings ``outs`` plus o{i} (objective
# candidate), g{i} (constraint candidate) and, in the affine family, q{i} (convex quadratic, optimisation part).
SYSTEMS = {
    "2-strong": {"discs": [{"ins": ["z", "x1", "y2"], "outs": ["y1"]}, {"ins": ["z", "y1"], "outs": ["y2"]}]},
    "2-weak": {"discs": [{"ins": ["z", "x1"], "outs": ["y1"]}, {"ins": ["z", "x2", "y1"], "outs": []}], "exec": [0, 1]},
    "2-weak-rev": {"discs": [{"ins": ["z", "x1", "y2"], "outs": []}, {"ins": ["z", "x2"], "outs": ["y2"]}], "exec": [1, 0]},
    "2-two-couplings": {"discs": [{"ins": ["z", "y2"], "outs": ["y1", "w1"]}, {"ins": ["z", "y1", "w1"], "outs": ["y2"]}]},
    "3-chain": {"discs": [{"ins": ["z", "x1"], "outs": ["y1"]}, {"ins": ["z", "y1"], "outs": ["y2"]}, {"ins": ["z", "y2"], "outs": []}], "exec": [0, 1, 2]},
    "3-mixed": {"discs": [{"ins": ["z", "x1", "y2"], "outs": ["y1"]}, {"ins": ["z", "y1"], "outs": ["y2"]}, {"ins": ["z", "y2"], "outs": []}]},
    "3-ring": {"discs": [{"ins": ["z", "x1", "y3"], "outs": ["y1"]}, {"ins": ["z", "y1"], "outs": ["y2"]}, {"ins": ["z", "y2"], "outs": ["y3"]}]},
    "3-full": {"discs": [{"ins": ["z", "x1", "y2", "y3"], "outs": ["y1"]}, {"ins": ["z", "y1", "y3"], "outs": ["y2"]}, {"ins": ["z", "y1", "y2"], "outs": ["y3"]}]},
    "3-upstream": {"discs": [{"ins": ["z", "y2", "y3"], "outs": ["y1"]}, {"ins": ["z", "y1"], "outs": ["y2"]}, {"ins": ["z", "x3"], "outs": ["y3"]}]},
}

# harness variants: kind of the bodies, linear relationships declared, parameter input, coupling bounds
VARIANTS = {
    "affine": {"kind": "affine"},
    "nonlinear": {"kind": "nonlinear"},
    "declared-linear": {"kind": "affine", "declare": True},
    "declared-linear+param": {"kind": "affine", "declare": True, "param": True},
    "nonlinear+param": {"kind": "nonlinear", "param": True},
    "affine+unbounded-couplings": {"kind": "affine", "unbounded": True},
}
BASE_VARIANTS = ["affine", "nonlinear"]


# ------------------------------------------------------------------------------------------------
# names, sizes, coefficients
# ------------------------------------------------------------------------------------------------
def _idx(v: str) -> int:
    return int(v[1:]) if len(v) > 1 else 0


def _code(v: str) -> int:
    return {"z": 0, "x": 0, "y": 3, "w": 6, "p": 8, "o": 11, "g": 14, "q": 17}[v[0]] + _idx(v)


def size(v: str) -> int:
    k = v[0]
    if k in "oq":
        return 1
    if k in "yg":
        return ALPHA[k][_idx(v) - 1]
    return ALPHA[k]


def is_coupling(v: str) -> bool:
    return v[0] in "yw"


def _pattern(rows: int, cols: int, salt: int) -> np.ndarray:
    pat = np.array([[(-1.0) ** (r + c + salt) * (1.0 if (r + 2 * c + salt) % 3 else 0.5) for c in range(cols)] for r in range(rows)])
    return pat / np.abs(pat).sum(axis=1).max()  # max absolute row sum == 1


def _block(v: str, u: str) -> np.ndarray:
    """Affine coefficient d v / d u; couplings: max abs row sum in [0.04, 0.10], design / parameters: [0.6, 1.2]."""
    cv, cu = _code(v), _code(u)
    pat = _pattern(size(v), size(u), cv + cu)
    if is_coupling(u):
        gain = 0.04 + 0.01 * ((3 * cv + 5 * cu + ALPHA["shift"]) % 7)
    else:
        gain = 0.6 + 0.2 * ((cv + 2 * cu + ALPHA["shift"]) % 4)
    return (-gain if (cv + cu) % 2 else gain) * pat


def _const(v: str) -> np.ndarray:
    return 1.0 + 0.25 * _code(v) - (_code(v) % 3) + 0.5 * np.arange(size(v))


AMP = 0.3  # amplitude of the sine term of the nonlinear family


def _dir(v: str) -> np.ndarray:
    return np.array([1.0, -0.5])[: size(v)]


def _freq(v: str, u: str) -> np.ndarray:
    """Row vector r_vu of the phase s_v = ph_v + sum_u r_vu . u   (||r||_1 <= 0.24 for couplings, <= 0.75 otherwise)."""
    sign = -1.0 if (_code(v) + _code(u)) % 2 else 1.0
    return sign * (np.array([0.12, -0.12]) if is_coupling(u) else np.array([0.5, 0.25]))[: size(u)]


def _target(u: str) -> np.ndarray:
    return 0.2 * _code(u) - 0.5 + 0.1 * np.arange(size(u))


def bounds(v: str, unbounded: bool = False):
    if unbounded and is_coupling(v):
        return np.full(size(v), -np.inf), np.full(size(v), np.inf)
    j = np.arange(size(v))
    return -(8.0 + _code(v)) - j, 12.0 + 2.0 * _code(v) + 3.0 * j


def initial(v: str) -> np.ndarray:
    return np.full(size(v), 0.5)


def param_value(v: str) -> np.ndarray:
    return 0.75 - 0.5 * np.arange(size(v))


def discipline_default(u: str, i: int) -> np.ndarray:
    """Default value of input u of discipline i: negative, different for every (discipline, variable)."""
    return np.full(size(u), -(0.2 * (i + 1) + 0.15 * _code(u)))


MAX_DEFAULT = 2.0  # bound on |discipline_default|


def design_value(v: str, k: int) -> np.ndarray:
    """Design point k in {0, 1, 2}: generic / zero components / the other sign; 3: the design space's current value."""
    if k == 3:
        return initial(v)
    base = ALPHA["base"][k]
    if k == 1:
        return np.where(np.arange(size(v)) % 2 == _code(v) % 2, 0.0, 0.9 - 0.4 * _code(v))
    return base + 0.35 * _code(v) - 0.45 * np.arange(size(v))


def offset(v: str) -> np.ndarray:
    """Inconsistency delta added to y*: |delta_j| in {0.5, 0.75}, alternating sign."""
    j = np.arange(size(v))
    return (0.5 + 0.25 * j) * (-1.0) ** (j + _code(v))


# ------------------------------------------------------------------------------------------------
# harness bodies (no gemseo)
# ------------------------------------------------------------------------------------------------
class Body:
    def __init__(self, i: int, spec: dict, kind: str, param: bool):
        self.i, self.kind = i, kind
        lab = i + 1
        self.ins = list(spec["ins"]) + ([f"p{lab}"] if param else [])
        self.couplings = list(spec["outs"])
        self.affine_outs = [*self.couplings, f"o{lab}", f"g{lab}"]
        self.outs = list(self.affine_outs) + ([f"q{lab}"] if kind == "affine" else [])
        self.B = {v: {u: _block(v, u) for u in self.ins} for v in self.affine_outs}
        self.c = {v: _const(v) for v in self.affine_outs}
        self.r = {v: {u: _freq(v, u) for u in self.ins} for v in self.affine_outs}
        self.d = {v: _dir(v) for v in self.affine_outs}
        self.t = {u: _target(u) for u in self.ins}

    def _phase(self, v, data):
        r = self.r[v]
        return 0.3 * _code(v) + sum(float(r[u] @ data[u]) for u in self.ins)

    def f(self, data):
        out = {}
        for v in self.affine_outs:
            val = self.c[v].copy()
            for u in self.ins:
                val = val + self.B[v][u] @ data[u]
            if self.kind == "nonlinear":
                val = val + AMP * self.d[v] * math.sin(self._phase(v, data))
            out[v] = val
        if self.kind == "affine":
            out[f"q{self.i + 1}"] = np.array([0.5 * sum(float((data[u] - self.t[u]) @ (data[u] - self.t[u])) for u in self.ins)])
        return out

    def partial(self, v, u, data):
        if u not in self.ins:
            return np.zeros((size(v), size(u)))
        if v[0] == "q":
            return (data[u] - self.t[u])[None, :].copy()
        jac = self.B[v][u].copy()
        if self.kind == "nonlinear":
            jac = jac + AMP * math.cos(self._phase(v, data)) * np.outer(self.d[v], self.r[v][u])
        return jac

    def magnitude(self, v, data):
        """sum of the absolute values of the terms of output v (forward rounding-error bound of its evaluation)."""
        if v[0] == "q":
            return 1.0 + sum(float((np.abs(data[u]) + np.abs(_target(u))) @ (np.abs(data[u]) + np.abs(_target(u)))) for u in self.ins)
        m = np.abs(self.c[v]).max() + sum(float((np.abs(self.B[v][u]) @ np.abs(data[u])).max()) for u in self.ins)
        return 1.0 + m + (AMP if self.kind == "nonlinear" else 0.0)

    def lipschitz(self, v, u):
        """Bound on the max absolute row sum of d v / d u, valid everywhere."""
        if v[0] == "q":
            return math.inf
        b = float(np.abs(self.B[v][u]).sum(axis=1).max())
        if self.kind == "nonlinear":
            b += AMP * float(np.abs(_dir(v)).max()) * float(np.abs(_freq(v, u)).sum())
        return b

    def curvature(self, v):
        """Bound on the second derivative of output v (inf-norm operator sense)."""
        if v[0] == "q":
            return 1.0
        if self.kind != "nonlinear":
            return 0.0
        return AMP * float(np.abs(_dir(v)).max()) * sum(float(np.abs(_freq(v, u)).sum()) for u in self.ins) ** 2


class Ref:
    """The coupled system as one numpy object: y*(x), dy*/dx, partial and total derivatives of every output."""

    def __init__(self, system: str, kind: str, param: bool):
        spec = SYSTEMS[system]
        self.system, self.kind = system, kind
        self.bodies = [Body(i, d, kind, param) for i, d in enumerate(spec["discs"])]
        self.n = len(self.bodies)
        self.exec = spec.get("exec")
        self.couplings = [v for b in self.bodies for v in b.couplings]
        self.design = list(dict.fromkeys(u for b in self.bodies for u in b.ins if not is_coupling(u) and u[0] != "p"))
        self.params = {u: param_value(u) for b in self.bodies for u in b.ins if u[0] == "p"}
        self.producer = {v: b for b in self.bodies for v in b.outs}
        self.coff, k = {}, 0
        for v in self.couplings:
            self.coff[v] = k
            k += size(v)
        self.m = k
        self.doff, k = {}, 0
        for v in self.design:
            self.doff[v] = k
            k += size(v)
        self.nd = k
        # contraction constant of y -> F(x, y) in the inf norm, valid for every x, y
        lip = np.zeros((max(self.m, 1), max(self.m, 1)))
        for v in self.couplings:
            for u in self.producer[v].ins:
                if is_coupling(u):
                    lip[self.coff[v]:self.coff[v] + size(v), self.coff[u]] += self.producer[v].lipschitz(v, u)
        self.L = float(lip.sum(axis=1).max())
        assert self.L <= 0.45, self.L
        self.kappa = 1.0 / (1.0 - self.L)  # ||(I - dF/dy)^-1||_inf <= 1 / (1 - L)

    # -- data handling ------------------------------------------------------------------------
    def data(self, x: dict, y: dict) -> dict:
        return {**self.params, **x, **y}

    def outputs(self, data):
        out = {}
        for b in self.bodies:
            out.update(b.f(data))
        return out

    def pack_y(self, y):
        return np.concatenate([y[v] for v in self.couplings]) if self.couplings else np.zeros(0)

    def unpack_y(self, vec):
        return {v: vec[self.coff[v]:self.coff[v] + size(v)].copy() for v in self.couplings}

    def dF(self, data):
        """(dF/dy  m x m,  dF/dd  m x nd) at ``data``."""
        fy, fd = np.zeros((self.m, self.m)), np.zeros((self.m, self.nd))
        for v in self.couplings:
            b = self.producer[v]
            rows = slice(self.coff[v], self.coff[v] + size(v))
            for u in b.ins:
                if is_coupling(u):
                    fy[rows, self.coff[u]:self.coff[u] + size(u)] = b.partial(v, u, data)
                elif u in self.doff:
                    fd[rows, self.doff[u]:self.doff[u] + size(u)] = b.partial(v, u, data)
        return fy, fd

    def solve(self, x: dict):
        """y*(x) by Newton on R(y) = F(x, y) - y with the exact Jacobian (one step for the affine family).

        Returns (y* as dict, final residual inf-norm).  Newton converges quadratically from any start here because
        ||dF/dy|| <= L <= 0.45 everywhere; the loop stops when the residual no longer decreases (rounding level).
        """
        yv = np.zeros(self.m)
        best = (math.inf, yv)
        for _ in range(60):
            data = self.data(x, self.unpack_y(yv))
            out = self.outputs(data)
            res = self.pack_y(out) - yv
            r = float(np.abs(res).max()) if self.m else 0.0
            if r < best[0]:
                best = (r, yv.copy())
            elif r >= best[0] and best[0] < 1e-12:
                break
            if r == 0.0:
                break
            fy, _ = self.dF(data)
            yv = yv + np.linalg.solve(np.eye(self.m) - fy, res)
        r, yv = best
        scale = 1.0 + float(np.abs(yv).max()) if self.m else 1.0
        assert r <= 64 * EPS * scale * 10, (self.system, r)
        return self.unpack_y(yv), r

    def dy_dd(self, data):
        fy, fd = self.dF(data)
        return np.linalg.solve(np.eye(self.m) - fy, fd) if self.m else np.zeros((0, self.nd))

    def partial_row(self, v, names, data):
        """d v / d (names) with v's other arguments fixed, columns in the order of ``names``."""
        b = self.producer[v]
        return np.hstack([b.partial(v, u, data) for u in names]) if names else np.zeros((size(v), 0))

    def total_row(self, v, names, data, dyd=None):
        """d v(x, y*(x)) / d (design names)."""
        dyd = self.dy_dd(data) if dyd is None else dyd
        b = self.producer[v]
        vy = np.hstack([b.partial(v, u, data) for u in self.couplings]) if self.couplings else np.zeros((size(v), 0))
        cols = [self.partial_row(v, [u], data) + vy @ dyd[:, self.doff[u]:self.doff[u] + size(u)] for u in names]
        return np.hstack(cols) if cols else np.zeros((size(v), 0))

    # -- derived tolerances -------------------------------------------------------------------
    def bounds(self, v, data, y0dist):
        """Error bounds for output v of a formulation that solves the couplings with an MDA of tolerance TOL.

        An MDA stops at ||R_k||_2 <= TOL ||R_0||_2.  Every iterate stays in the ball B(y*, r), r = ||y0 - y*||, on which
        any residual F(y_a) - y_b is at most (1 + L) r <= 2 r per component, hence ||R_0||_2 <= 2 sqrt(m) r.
        ||y_k - y*||_inf <= ||R_k|| / (1 - L) = kappa ||R_k||.  An MDAChain solves up to n groups in sequence; an upstream
        error is amplified by at most kappa G per stage, bounded here by kappa^2 per group with n groups.
          value:     |v(x, y_k) - v(x, y*)| <= Gy err_y  (+ curvature term)
          Jacobian:  the total derivative is a product of three factors (dv/dy, (I - dF/dy)^-1, dF/dx) each perturbed by at
                     most H err_y (H = curvature bound), plus the coupled linear solve to LIN_TOL:
                     <= (1 + kappa)^3 (1 + G)^2 (H err_y + LIN_TOL (1+G)) .
        """
        b = self.producer[v]
        err_y = self.n * self.kappa ** 2 * TOL * 2.0 * math.sqrt(max(self.m, 1)) * (y0dist + 1.0)
        if v[0] == "q":
            gy = sum(float(np.abs(data[u] - _target(u)).sum()) + 1.0 for u in b.ins if is_coupling(u))
            g = 1.0 + max(float(np.abs(data[u] - _target(u)).sum()) for u in b.ins)
        else:
            gy = sum(b.lipschitz(v, u) for u in b.ins if is_coupling(u))
            g = max(b.lipschitz(v, u) for u in b.ins)
        g = max([g] + [bb.lipschitz(c, u) for bb in self.bodies for c in bb.couplings for u in bb.ins])
        h = max([b.curvature(v)] + [bb.curvature(c) for bb in self.bodies for c in bb.couplings])
        mag = b.magnitude(v, data)
        rnd = 64 * EPS * (len(b.ins) + 4) * mag
        val = (gy + 1.0) * err_y * (1.0 + h) + rnd * self.kappa
        jac = (1.0 + self.kappa) ** 3 * (1.0 + g) ** 2 * (h * err_y + LIN_TOL * (1.0 + g)) + 256 * EPS * (1.0 + g) ** 2 * self.kappa ** 2
        return {"round": rnd, "round_jac": 64 * EPS * (1.0 + g), "mda": val, "mda_jac": jac}


class Snap:
    """Reference quantities of one (x, y) point, memoised."""

    def __init__(self, ref: Ref, k, which, x, y, y0dist):
        self.ref, self.k, self.which, self.x, self.y, self.y0dist = ref, k, which, x, y, y0dist
        self.vals = {**x, **y}
        self.data = ref.data(x, y)
        self.out = ref.outputs(self.data)
        self._dyd = None
        self._memo: dict = {}

    @property
    def dyd(self):
        if self._dyd is None:
            self._dyd = self.ref.dy_dd(self.data)
        return self._dyd

    def bounds(self, f):
        key = ("b", f)
        if key not in self._memo:
            self._memo[key] = self.ref.bounds(f, self.data, self.y0dist)
        return self._memo[key]

    def partial_row(self, f, names):
        key = ("p", f, tuple(names))
        if key not in self._memo:
            self._memo[key] = self.ref.partial_row(f, names, self.data)
        return self._memo[key]

    def total_row(self, f, names):
        key = ("t", f, tuple(names))
        if key not in self._memo:
            self._memo[key] = self.ref.total_row(f, names, self.data, self.dyd)
        return self._memo[key]


# ------------------------------------------------------------------------------------------------
# gemseo side
# ------------------------------------------------------------------------------------------------
_CLS: dict = {}


def _gemseo():
    if _CLS:
        return _CLS
    from gemseo.algos.design_space import DesignSpace
    from gemseo.core.discipline import Discipline
    from gemseo.formulations.disciplinary_opt import DisciplinaryOpt
    from gemseo.formulations.idf import IDF
    from gemseo.formulations.mdf import MDF

    class Harness(Discipline):
        def __init__(self, body: Body, declare: bool):
            super().__init__(name=f"D{body.i + 1}")
            self.body = body
            self.io.input_grammar.update_from_names(body.ins)
            self.io.output_grammar.update_from_names(body.outs)
            # defaults differ from the design-space current values (0.5) and from one discipline to the other
            self.io.input_grammar.defaults.update({u: (param_value(u) if u[0] == "p" else discipline_default(u, body.i)) for u in body.ins})
            if declare:
                self.io.set_linear_relationships(output_names=body.affine_outs)
            self.n_run = self.n_lin = 0

        def _run(self, input_data):
            self.n_run += 1
            return self.body.f({u: np.asarray(input_data[u], dtype=float) for u in self.body.ins})

        def _compute_jacobian(self, input_names=(), output_names=()):
            self.n_lin += 1
            b = self.body
            data = {u: np.asarray(self.io.data[u], dtype=float) for u in b.ins}
            self.jac = {v: {u: b.partial(v, u, data) for u in b.ins} for v in b.outs}

    _CLS.update(Harness=Harness, DesignSpace=DesignSpace, MDF=MDF, IDF=IDF, DisciplinaryOpt=DisciplinaryOpt)
    return _CLS


def make_space(order, unbounded=False):
    ds = _gemseo()["DesignSpace"]()
    for v in order:
        lb, ub = bounds(v, unbounded)
        ds.add_variable(v, size(v), lower_bound=lb, upper_bound=ub, value=initial(v))
    return ds


def mda_settings(inner):
    st = {"tolerance": TOL, "max_mda_iter": MAX_ITER, "inner_mda_name": inner}
    if inner in ("MDAJacobi", "MDANewtonRaphson"):
        st["inner_mda_settings"] = {"n_processes": 1}  # no threads inside the enumeration (C13 owns them)
    return st


def make_formulation(ref: Ref, fv: list, case: dict, order, obj: str, cons: list):
    """fv = ["IDF", normalize, start_at_equilibrium, n_processes, use_threading] (last three optional) | ["MDF", main, inner] | ["DOPT"]."""
    g = _gemseo()
    var = VARIANTS[case["variant"]]
    discs = [g["Harness"](b, bool(var.get("declare"))) for b in ref.bodies]
    ds = make_space(order, bool(var.get("unbounded")))
    if fv[0] == "IDF":
        st = {"normalize_constraints": bool(fv[1])}
        if len(fv) > 2 and fv[2]:
            st.update(start_at_equilibrium=True, mda_chain_settings_for_start_at_equilibrium=mda_settings("MDAGaussSeidel"))
        if len(fv) > 3 and fv[3] > 1:
            st.update(n_processes=int(fv[3]), use_threading=bool(fv[4]) if len(fv) > 4 else True)
        form = g["IDF"](discs, obj, ds, **st)
    elif fv[0] == "MDF":
        if fv[1] == "MDAChain":
            form = g["MDF"](discs, obj, ds, main_mda_name="MDAChain", main_mda_settings=mda_settings(fv[2]))
        else:
            st = {"tolerance": TOL, "max_mda_iter": MAX_ITER}
            if fv[1] in ("MDAJacobi", "MDANewtonRaphson"):
                st["n_processes"] = 1
            form = g["MDF"](discs, obj, ds, main_mda_name=fv[1], main_mda_settings=st)
    else:
        form = g["DisciplinaryOpt"]([discs[i] for i in ref.exec], obj, ds)
    for c in cons:
        form.add_constraint(c, constraint_type="ineq")
    return form, discs


def order_class(order):
    if list(order) == sorted(order):
        return "alphabetical"
    kinds = "".join("c" if is_coupling(v) else "d" for v in order)
    if "cd" not in kinds:
        return "design-first"
    if "dc" not in kinds:
        return "couplings-first"
    return "interleaved"


def covering_orders(names, strength=3):
    """Greedy sequence-covering set: every ordered ``strength``-tuple of distinct names appears as a subsequence."""
    names = list(names)
    perms = list(itertools.permutations(names))
    if len(names) <= strength:
        return [list(p) for p in perms]
    need = set(itertools.permutations(names, strength))
    chosen = []

    def cover(p):
        return set(itertools.combinations(p, strength))

    for p in (tuple(names), tuple(reversed(names))):
        chosen.append(p)
        need -= cover(p)
    while need:
        best = max(perms, key=lambda p: len(need & cover(p)))
        chosen.append(best)
        need -= cover(best)
    return [list(p) for p in chosen]


def _vec(names, values):
    return np.concatenate([values[v] for v in names]) if names else np.zeros(0)


def _find(problem, base):
    for c in problem.constraints:
        if c.name in (base, base + "_linearized"):
            return c
    return None


def _err(a, b):
    a, b = np.asarray(a, dtype=float), np.asarray(b, dtype=float)
    if a.shape != b.shape:
        return math.inf
    return float(np.abs(a - b).max()) if a.size else 0.0


# ------------------------------------------------------------------------------------------------
# one case = (system, variant, objective, constraints, order); all formulation variants inside
# ------------------------------------------------------------------------------------------------
def formulation_variants(ref: Ref, case):
    if case.get("formulations"):
        return [list(f) for f in case["formulations"]]
    strong = ref.exec is None
    out = [["IDF", False], ["IDF", True]]
    out += [["MDF", "MDAChain", m] for m in (INNER_MDAS if strong else INNER_MDAS[:1])]
    if not strong:
        out.append(["DOPT"])
    return out


def fv_sig(fv):
    if fv[0] == "IDF":
        par = ("+" + ("threads" if len(fv) < 5 or fv[4] else "processes")) if len(fv) > 3 and fv[3] > 1 else ""
        return {"formulation": "IDF" + ("+equilibrium" if len(fv) > 2 and fv[2] else "") + par, "normalize_constraints": bool(fv[1]), "inner_mda": None}
    if fv[0] == "MDF":
        return {"formulation": "MDF" if fv[1] == "MDAChain" else f"MDF[{fv[1]}]", "normalize_constraints": None, "inner_mda": fv[2]}
    return {"formulation": "DisciplinaryOpt", "normalize_constraints": None, "inner_mda": None}


def run_case(case, tally):
    ref = Ref(case["system"], VARIANTS[case["variant"]]["kind"], bool(VARIANTS[case["variant"]].get("param")))
    order = list(case["order"])
    obj, cons = case["obj"], list(case["cons"])
    var = VARIANTS[case["variant"]]
    unbounded = bool(var.get("unbounded"))
    oc = order_class(order)
    obs = {"violations": [], "formulations": []}
    points = case.get("points", [0, 1, 2])
    if any(fv[0] == "IDF" and len(fv) > 2 and fv[2] for fv in case.get("formulations", [])) and 3 not in points:
        points = [*points, 3]  # the design space's current design values: where start_at_equilibrium puts IDF

    def viol(inv, fv, func, msg, with_idf=False, error=None):
        prov = ref.producer[func].i + 1 if func in ref.producer else None
        sig = {"invariant": inv, **fv_sig(fv), "order_class": oc, "variant": case["variant"],
               "function": {"o": "objective", "q": "objective", "g": "constraint"}.get(func[0], "consistency") if func else None,
               "provider": f"D{prov}" if prov else None}
        if error is not None:  # exception class + message with the digits masked: identifies the raising site
            sig["error"] = f"{type(error).__name__}: " + re.sub(r"[0-9]+", "N", str(error))[:70]
        keep = (with_idf if isinstance(with_idf, list) else [["IDF", False], ["IDF", True]] if with_idf else []) + [fv]
        tally.violation(sig, {**case, "formulations": keep}, f"{inv} [{fv}] order={order} function={func}: {msg}\n  case={case}")
        obs["violations"].append({"invariant": inv, "formulation": fv, "function": func, "message": msg})

    # reference data at the design points
    refs = []
    for k in points:
        x = {v: design_value(v, k) for v in ref.design}
        ystar, _ = ref.solve(x)
        yoff = {v: ystar[v] + offset(v) for v in ref.couplings}
        dist = _start_distance(ref, ystar)
        refs.append({"k": k, "x": x, "y0dist": dist, "ystar": Snap(ref, k, "ystar", x, ystar, dist), "yoff": Snap(ref, k, "yoff", x, yoff, dist)})

    idf_at_solution = {}  # (normalize, k) -> {func: (value, jac)} reported by IDF at (x, y*)
    mdf_reports = []
    for fv in formulation_variants(ref, case):
        label = fv[0] if fv[0] != "MDF" else f"MDF:{fv[1]}:{fv[2]}"
        if fv[0] == "IDF":
            label = f"IDF:norm={bool(fv[1])}" + (":eq" if len(fv) > 2 and fv[2] else "") + ((":threads" if len(fv) < 5 or fv[4] else ":processes") if len(fv) > 3 and fv[3] > 1 else "")
        try:
            form, discs = make_formulation(ref, fv, case, order, obj, cons)
        except Exception as e:
            viol("formulation-construction-raises", fv, obj, f"{type(e).__name__}: {str(e)[:300]}", error=e)
            tally.case((_key(case), tuple(map(str, fv))), nontrivial=True, outcome=f"{label}:raises")
            continue
        prob = form.optimization_problem
        names = list(prob.design_space.variable_names)
        expected = order if fv[0] == "IDF" else [v for v in order if not is_coupling(v)]
        ok_space = names == expected
        if not ok_space:
            viol("design-space-variables", fv, None, f"design space {names}, expected {expected}")
        else:
            for v in names:
                lb, ub = bounds(v, unbounded)
                if prob.design_space.get_size(v) != size(v) or not np.array_equal(prob.design_space.get_lower_bound(v), lb) or not np.array_equal(prob.design_space.get_upper_bound(v), ub):
                    viol("design-space-sizes-bounds", fv, None, f"variable {v}: size {prob.design_space.get_size(v)} bounds {prob.design_space.get_lower_bound(v)} {prob.design_space.get_upper_bound(v)}")
                    break
        if list(form.get_optim_variable_names()) != names:
            viol("design-space-variables", fv, None, f"get_optim_variable_names() {form.get_optim_variable_names()} != design space {names}")
        if not ok_space:
            tally.case((_key(case), tuple(map(str, fv))), nontrivial=True, outcome=f"{label}:wrong-space")
            continue

        funcs = {obj: prob.objective}
        missing = False
        for c in cons:
            funcs[c] = _find(prob, c)
            if funcs[c] is None:
                viol("constraint-present", fv, c, f"no constraint named {c}; constraints {[k.name for k in prob.constraints]}")
                missing = True
        consistency = {}
        if fv[0] == "IDF":
            exp_names = {"_".join(sorted(b.couplings)): b for b in ref.bodies if b.couplings}
            for nm, b in exp_names.items():
                f = _find(prob, nm)
                if f is None:
                    viol("constraint-present", fv, b.couplings[0], f"no consistency constraint {nm}; constraints {[k.name for k in prob.constraints]}")
                    missing = True
                else:
                    consistency[nm] = (f, b)
            if len(prob.constraints) != len(exp_names) + len(cons):
                viol("constraint-present", fv, None, f"constraints {[k.name for k in prob.constraints]}; expected {sorted(exp_names)} + {cons}")
        elif len(prob.constraints) != len(cons):
            viol("constraint-present", fv, None, f"constraints {[k.name for k in prob.constraints]}; expected {cons}")
        if missing:
            tally.case((_key(case), tuple(map(str, fv))), nontrivial=True, outcome=f"{label}:missing-function")
            continue

        nontrivial = False
        for f in [*funcs, *(b.couplings[0] for _, b in consistency.values())]:
            b = ref.producer[f]
            pos = [names.index(u) for u in b.ins if u in names]
            if pos != list(range(len(pos))):
                nontrivial = True
        status = "ok"
        try:
            if fv[0] == "IDF":
                status = _check_idf(ref, fv, prob, names, funcs, consistency, refs, unbounded, viol, idf_at_solution, form)
            else:
                status = _check_mdf(ref, fv, form, prob, names, funcs, refs, viol, mdf_reports)
        except Exception as e:
            viol("evaluation-raises", fv, obj, f"{type(e).__name__}: {str(e)[:300]}", error=e)
            status = "raises"
        obs["formulations"].append({"formulation": fv, "design_space": names, "status": status})
        tally.case((_key(case), tuple(map(str, fv))), nontrivial=nontrivial, outcome=f"{label}:{status}",
                   sample={"case": case, "formulation": fv, "design_space": names, "status": status}
                   if case["system"] == "2-strong" and case["variant"] == "nonlinear" and order == ["y2", "x1", "z", "y1"] and obj == "o1" and cons == ["g2"] else None)

    # MDF (x) versus IDF (x, y*(x)) : the statement, literally
    for rep in mdf_reports:
        fv = rep["fv"]
        for normalize in (False, True):
            for r in refs:
                got = idf_at_solution.get((normalize, r["k"]))
                if got is None or r["k"] not in rep["values"]:
                    continue
                snap = r["ystar"]
                dyd = snap.dyd
                dnames = rep["names"]
                inames = got["names"]
                for f in rep["values"][r["k"]]:
                    bd = snap.bounds(f)
                    mv, mj = rep["values"][r["k"]][f]
                    iv, ij = got["funcs"][f]
                    tol_v = (bd["mda"] if rep["mda"] else bd["round"] * ref.kappa) + bd["round"]
                    if not _err(mv, iv) <= tol_v:
                        viol("mdf-equals-idf-at-consistent-couplings", fv, f, f"point {r['k']}: {rep['label']} = {mv}, IDF(normalize={normalize}) at (x, y*) = {iv}, |diff| {_err(mv, iv):.3e} > {tol_v:.3e}", with_idf=True)
                    # chain rule with the Jacobians reported by IDF
                    cols = {}
                    off = 0
                    for v in inames:
                        cols[v] = ij[:, off:off + size(v)]
                        off += size(v)
                    iy = np.hstack([cols[c] for c in ref.couplings]) if ref.couplings else np.zeros((ij.shape[0], 0))
                    chain = np.hstack([cols[u] + iy @ dyd[:, ref.doff[u]:ref.doff[u] + size(u)] for u in dnames])
                    tol_j = (bd["mda_jac"] if rep["mda"] else bd["round_jac"] * ref.kappa ** 2 * 8) + bd["round_jac"] * ref.kappa * 8
                    if not _err(mj, chain) <= tol_j:
                        viol("total-derivative-chain-rule", fv, f, f"point {r['k']}: d{rep['label']}/dx = {mj.tolist()}, dIDF/dx + dIDF/dy . dy*/dx = {chain.tolist()} (IDF normalize={normalize}), |diff| {_err(mj, chain):.3e} > {tol_j:.3e}", with_idf=True)

    # MDF at the design space's current design values versus IDF where start_at_equilibrium put it
    for key, start in idf_at_solution.items():
        if key[0] != "start":
            continue
        for rep in mdf_reports:
            if 3 not in rep["values"]:
                continue
            for f, (iv, tol_i) in start["values"].items():
                mv = rep["values"][3][f][0]
                bd = [r for r in refs if r["k"] == 3][0]["ystar"].bounds(f)
                tol = tol_i + (bd["mda"] if rep["mda"] else 4 * bd["round"] * ref.kappa * ref.n)
                if not _err(mv, iv) <= tol:
                    viol("idf-start-equals-mdf", start["fv"], f, f"{f}: IDF at its equilibrium start = {iv}, {rep['label']}{rep['fv'][1:]} at the same design values = {mv}, |diff| {_err(mv, iv):.3e} > {tol:.3e}", with_idf=[rep["fv"]])

    # IDF requires every coupling in the design space
    if case.get("check_required") and ref.couplings:
        for drop in ref.couplings:
            fv = ["IDF", True]
            try:
                g = _gemseo()
                discs = [g["Harness"](b, False) for b in ref.bodies]
                g["IDF"](discs, obj, make_space([v for v in order if v != drop]))
                viol("idf-requires-couplings", fv, drop, f"IDF accepted a design space without the coupling {drop}")
            except ValueError:
                pass
            except Exception as e:
                viol("idf-requires-couplings", fv, drop, f"design space without {drop}: {type(e).__name__} instead of ValueError: {str(e)[:200]}")
        tally.count("idf_missing_coupling_probes", len(ref.couplings))
    return obs


def _start_distance(ref, ystar):
    """Bound on ||y0 - y*||_2 whatever the start of the MDA: the design-space values (0.5) or discipline defaults."""
    if not ref.m:
        return 0.0
    yv = ref.pack_y(ystar)
    return max(float(np.linalg.norm(yv - 0.5)), float(np.linalg.norm(yv)) + MAX_DEFAULT * math.sqrt(ref.m))


def _key(case):
    return (case["system"], case.get("variant", "affine"), case["obj"], tuple(case["cons"]), tuple(case["order"]))


def _eval(func, x, nrows):
    val = np.atleast_1d(np.asarray(func.evaluate(x), dtype=float))
    jac = np.atleast_2d(np.asarray(func.jac(x), dtype=float))
    return val, jac


def _check_idf(ref, fv, prob, names, funcs, consistency, refs, unbounded, viol, store, form):
    normalize = bool(fv[1])
    dim = sum(size(v) for v in names)
    status = "ok"
    equilibrium = len(fv) > 2 and fv[2]
    if equilibrium:
        # the design space's current couplings are the equilibrium of the initial design values
        x0 = {v: initial(v) for v in ref.design}
        ystar, _ = ref.solve(x0)
        cur = prob.design_space.get_current_value(as_dict=True)
        dist = _start_distance(ref, ystar)
        for c in ref.couplings:
            bd = ref.bounds(c, ref.data(x0, ystar), dist)
            if not _err(cur[c], ystar[c]) <= bd["mda"]:
                viol("idf-start-at-equilibrium", fv, c, f"current value of {c} = {cur[c]}, y*(x0) = {ystar[c]}, |diff| {_err(cur[c], ystar[c]):.3e} > {bd['mda']:.3e}")
                status = "bad"
        for v in ref.design:
            if not np.array_equal(cur[v], x0[v]):
                viol("idf-start-at-equilibrium", fv, v, f"design variable {v} moved: {cur[v]}")
        # ... there the consistency constraints vanish and objective / constraints are those of the consistent system
        xcur = np.asarray(prob.design_space.get_current_value(), dtype=float)
        data0 = ref.data(x0, ystar)
        out0 = ref.outputs(data0)
        at_start = {}
        for f, func in funcs.items():
            bd = ref.bounds(f, data0, dist)
            val = np.atleast_1d(np.asarray(func.evaluate(xcur), dtype=float))
            at_start[f] = (val, bd["mda"])
            if not _err(val, out0[f]) <= bd["mda"]:
                viol("idf-start-at-equilibrium", fv, f, f"{f} at the start = {val}, {f}(x0, y*(x0)) = {out0[f]}, |diff| {_err(val, out0[f]):.3e} > {bd['mda']:.3e}")
                status = "bad"
        for nm, (func, b) in consistency.items():
            cs = sorted(b.couplings)
            rng = np.concatenate([bounds(c, unbounded)[1] - bounds(c, unbounded)[0] for c in cs])
            scale = np.where(np.isfinite(rng), rng, 1.0) if normalize else np.ones_like(rng)
            # |F(x0, y) - y| <= (1 + L) |y - y*| <= 2 |y - y*|
            lim = np.concatenate([np.full(size(c), 2.0 * ref.bounds(c, data0, dist)["mda"]) for c in cs]) / scale
            val = np.atleast_1d(np.asarray(func.evaluate(xcur), dtype=float))
            if val.shape != lim.shape or not np.all(np.abs(val) <= lim):
                viol("idf-start-at-equilibrium", fv, cs[0], f"consistency constraint {nm} = {val} at the start (x0, couplings {[cur[c].tolist() for c in cs]}); y*(x0) = {[ystar[c].tolist() for c in cs]}")
                status = "bad"
        store[("start", tuple(map(str, fv)))] = {"fv": fv, "values": at_start}
    seq = []
    parallel = len(fv) > 3 and fv[3] > 1
    for r in (refs[:1] if parallel else refs):  # thread / process variants: one design point (each execution starts workers)
        seq += [(r, "ystar"), (r, "yoff")]
    seq.append((refs[0], "ystar"))  # a repeated point (discipline caches, cached masks)
    for r, which in seq:
        snap = r[which]
        vals, data, out = snap.vals, snap.data, snap.out
        xv = _vec(names, vals)
        reported = {}
        for f, func in funcs.items():
            b = ref.producer[f]
            bd = snap.bounds(f)
            val, jac = _eval(func, xv, size(f))
            reported[f] = (val, jac)
            if not _err(val, out[f]) <= 2 * bd["round"]:
                viol("idf-value", fv, f, f"point {r['k']}/{which}: {f}(x, y) = {val}, provider gives {out[f]}, |diff| {_err(val, out[f]):.3e} > {2 * bd['round']:.3e}")
                status = "bad"
            exp_j = snap.partial_row(f, names)
            if not _err(jac, exp_j) <= 2 * bd["round_jac"]:
                viol("idf-jacobian", fv, f, f"point {r['k']}/{which}: d{f}/d{names} = {jac.tolist()}, partial derivatives {exp_j.tolist()}")
                status = "bad"
        for nm, (func, b) in consistency.items():
            cs = sorted(b.couplings)
            resid = np.concatenate([out[c] - vals[c] for c in cs])
            rng = np.concatenate([bounds(c, unbounded)[1] - bounds(c, unbounded)[0] for c in cs])
            rnd = np.concatenate([np.full(size(c), 2 * snap.bounds(c)["round"] + 4 * EPS * float(np.abs(vals[c]).max())) for c in cs])
            val, jac = _eval(func, xv, resid.size)
            ej = np.vstack([snap.partial_row(c, names) - np.hstack([np.eye(size(c)) if u == c else np.zeros((size(c), size(u))) for u in names]) for c in cs])
            finite = np.isfinite(rng)
            scale = np.where(finite, rng, 1.0) if normalize else np.ones_like(rng)
            checked = finite | (not normalize)
            if val.shape != resid.shape or jac.shape != (resid.size, dim):
                viol("consistency-shape", fv, cs[0], f"value shape {val.shape} Jacobian shape {jac.shape}; expected {resid.shape}, {(resid.size, dim)}")
                status = "bad"
                continue
            if checked.any():
                if not np.all(np.abs(val - resid / scale)[checked] <= (rnd / scale)[checked]):
                    viol("consistency-value", fv, cs[0], f"point {r['k']}/{which}: constraint {nm} = {val}, (F - y){' / (ub - lb)' if normalize else ''} = {(resid / scale)}")
                    status = "bad"
                jt = 64 * EPS * 4
                if not np.all(np.abs(jac - ej / scale[:, None])[checked] <= jt):
                    viol("consistency-jacobian", fv, cs[0], f"point {r['k']}/{which}: d{nm}/d{names} = {jac.tolist()}, expected {(ej / scale[:, None]).tolist()}")
                    status = "bad"
            if which == "ystar":
                # vanish exactly at the multidisciplinary solution (whatever the scaling): |value| <= rounding of F - y
                lim = rnd / np.where(checked, scale, 1.0) if normalize else rnd
                if not np.all(np.abs(val) <= np.where(checked, lim, rnd)):
                    viol("consistency-vanishes-at-solution", fv, cs[0], f"point {r['k']}: constraint {nm} = {val} at (x, y*(x))")
                    status = "bad"
            else:
                # ... and nowhere else: finite, non-zero, sign of F - y   (|F - y| >= 0.5 - L * 0.75 > 0.16 per component here)
                if not (np.all(np.isfinite(val)) and np.all(np.sign(val) == np.sign(resid)) and np.all(val != 0.0)):
                    viol("consistency-detects-inconsistency", fv, cs[0], f"point {r['k']}: F - y = {resid} but constraint {nm} = {val} (normalize_constraints={normalize}, ub - lb = {rng})")
                    status = "bad"
                if not np.all(np.isfinite(jac)) or not np.all(np.abs(np.diag((jac @ _selector(names, cs).T))) > 0):
                    viol("consistency-detects-inconsistency", fv, cs[0], f"point {r['k']}: Jacobian of constraint {nm} with respect to its own couplings = {(jac @ _selector(names, cs).T).tolist()}")
                    status = "bad"
        if which == "ystar" and not equilibrium:
            store.setdefault((normalize, r["k"]), {"names": names, "funcs": reported})
    return status


def _selector(names, cs):
    """Rows selecting the components of the couplings ``cs`` in a vector laid out as ``names``."""
    dim = sum(size(v) for v in names)
    rows = []
    for c in cs:
        off = sum(size(v) for v in names[: names.index(c)])
        for j in range(size(c)):
            e = np.zeros(dim)
            e[off + j] = 1.0
            rows.append(e)
    return np.array(rows)


def _check_mdf(ref, fv, form, prob, names, funcs, refs, viol, reports):
    status = "ok"
    uses_mda = fv[0] == "MDF" and (ref.exec is None or fv[1] != "MDAChain")
    label = "MDF" if fv[0] == "MDF" else "DisciplinaryOpt"
    rep = {"fv": fv, "names": names, "values": {}, "mda": uses_mda, "label": label}
    for r in refs:
        snap = r["ystar"]
        xv = _vec(names, r["x"])
        out = snap.out
        got = {}
        for f, func in funcs.items():
            val, jac = _eval(func, xv, size(f))
            got[f] = (val, jac)
        converged = True
        if fv[0] == "MDF":
            mdas = list(getattr(form.mda, "inner_mdas", [])) or ([form.mda] if fv[1] != "MDAChain" else [])
            for m in mdas:
                # an MDASequential (MDAGSNewton) stops as soon as one of its sub-MDAs has converged
                resid = min([s_.normed_residual for s_ in getattr(m, "mda_sequence", [])] or [m.normed_residual])
                if not resid <= TOL:
                    converged = False
                    viol("inner-mda-converged", fv, None, f"point {r['k']}: {type(m).__name__} stopped at normed residual {resid:.3e} after {len(m.residual_history)} iterations (tolerance {TOL})")
        if not converged:
            status = "mda-not-converged"
            continue
        for f, (val, jac) in got.items():
            bd = snap.bounds(f)
            tol_v = bd["mda"] if uses_mda else 4 * bd["round"] * ref.kappa * ref.n
            if not _err(val, out[f]) <= tol_v:
                viol("mdf-value", fv, f, f"point {r['k']}: {label} {f}(x) = {val}, {f}(x, y*(x)) = {out[f]}, |diff| {_err(val, out[f]):.3e} > {tol_v:.3e}")
                status = "bad"
            exp_j = snap.total_row(f, names)
            tol_j = bd["mda_jac"] if uses_mda else 16 * bd["round_jac"] * (ref.kappa * ref.n) ** 2
            if not _err(jac, exp_j) <= tol_j:
                viol("mdf-total-derivative", fv, f, f"point {r['k']}: d{f}/d{names} = {jac.tolist()}, closed form {exp_j.tolist()}, |diff| {_err(jac, exp_j):.3e} > {tol_j:.3e}")
                status = "bad"
        rep["values"].setdefault(r["k"], got)
    reports.append(rep)
    return status


# ------------------------------------------------------------------------------------------------
# thorough only: same optimum
# ------------------------------------------------------------------------------------------------
OPT_ALLOWANCE = 1e-6
FEAS = 1e-9


def run_opt(case, tally):
    """SLSQP on MDF / IDF (/ DisciplinaryOpt) of a convex member: same optimal value, feasible, consistent."""
    from gemseo.scenarios.mdo_scenario import MDOScenario

    g = _gemseo()
    ref = Ref(case["system"], "affine", False)
    order = list(case["order"])
    obj, cons = case["obj"], list(case["cons"])
    oc = order_class(order)
    obs = {"violations": [], "optima": []}

    def viol(inv, fv, msg):
        sig = {"invariant": inv, **fv_sig(fv), "order_class": oc, "variant": "affine", "function": "objective", "provider": f"D{ref.producer[obj].i + 1}"}
        tally.violation(sig, dict(case), f"{inv} [{fv}] order={order}: {msg}\n  case={case}")
        obs["violations"].append({"invariant": inv, "formulation": fv, "message": msg})

    fvs = [["MDF", "MDAChain", case["inner"]], ["IDF", bool(case["normalize"])]] + ([["DOPT"]] if ref.exec is not None else [])
    # constraint g <= a with a such that design point 0 (at consistent couplings) is strictly feasible: the problem is feasible
    x_ref = {v: design_value(v, 0) for v in ref.design}
    out_ref = ref.outputs(ref.data(x_ref, ref.solve(x_ref)[0]))
    limit = {c: float(np.max(out_ref[c])) + 0.5 for c in cons}
    results = {}
    for fv in fvs:
        discs = [g["Harness"](b, False) for b in ref.bodies]
        ds = make_space(order)
        try:
            if fv[0] == "MDF":
                sc = MDOScenario(discs, obj, ds, formulation_name="MDF", main_mda_name="MDAChain", main_mda_settings=mda_settings(fv[2]))
            elif fv[0] == "IDF":
                sc = MDOScenario(discs, obj, ds, formulation_name="IDF", normalize_constraints=fv[1])
            else:
                sc = MDOScenario([discs[i] for i in ref.exec], obj, ds, formulation_name="DisciplinaryOpt")
            for c in cons:
                sc.add_constraint(c, constraint_type="ineq", value=limit[c])
            prob = sc.formulation.optimization_problem
            sc.execute(algo_name="SLSQP", max_iter=200, ftol_rel=1e-12, ftol_abs=1e-12, xtol_rel=1e-12, xtol_abs=1e-12,
                       eq_tolerance=FEAS, ineq_tolerance=FEAS)
            res = prob.solution
            xopt = prob.design_space.convert_array_to_dict(np.asarray(res.x_opt, dtype=float))
            results[fv[0]] = {"fv": fv, "f": float(np.atleast_1d(res.f_opt)[0]), "x": xopt, "feasible": bool(res.is_feasible), "n_iter": len(prob.database)}
        except Exception as e:
            viol("optimization-raises", fv, f"{type(e).__name__}: {str(e)[:300]}")
    outcome = "compared"
    # harness verification of each optimum
    for key, r in results.items():
        x = {v: r["x"][v] for v in ref.design}
        ystar, _ = ref.solve(x)
        y = {c: r["x"][c] for c in ref.couplings} if key == "IDF" else ystar
        data = ref.data(x, y)
        out = ref.outputs(data)
        fscale = 1.0 + abs(out[obj][0])
        if not r["feasible"]:
            viol("optimum-feasible", r["fv"], f"the optimizer reports an infeasible optimum {r}")
        if abs(out[obj][0] - r["f"]) > 1e-9 * fscale:
            viol("optimum-value-is-objective", r["fv"], f"f_opt = {r['f']} but {obj} at x_opt = {out[obj][0]}")
        for c in cons:
            if np.any(out[c] - limit[c] > FEAS * 10 + 1e-12):
                viol("optimum-feasible", r["fv"], f"{c}(x_opt) = {out[c]} > {limit[c]}")
        if key == "IDF":
            for c in ref.couplings:
                rng = bounds(c)[1] - bounds(c)[0]
                lim = FEAS * 10 * (rng if r["fv"][1] else 1.0) + 1e-12
                if np.any(np.abs(out[c] - y[c]) > lim):
                    viol("optimum-couplings-consistent", r["fv"], f"F - y for {c} at IDF's optimum = {out[c] - y[c]} (limit {lim})")
        else:
            for c in ref.couplings:  # is MDF's optimum admissible for IDF's design space (coupling bounds)?
                if np.any(ystar[c] <= bounds(c)[0]) or np.any(ystar[c] >= bounds(c)[1]):
                    outcome = "skipped:coupling-bound-active"
        r["f_check"] = float(out[obj][0])
    if outcome == "compared" and "MDF" in results:
        for key in ("IDF", "DOPT"):
            if key in results:
                a, b = results["MDF"], results[key]
                tol = OPT_ALLOWANCE * (1.0 + abs(a["f"]))
                if not abs(a["f"] - b["f"]) <= tol:
                    viol("same-optimum", b["fv"], f"MDF[{case['inner']}] optimum {a['f']!r} at {a['x']}; {key} optimum {b['f']!r} at {b['x']}; |diff| {abs(a['f'] - b['f']):.3e} > {tol:.3e}")
    obs["optima"] = [{k: (v if k != "x" else {n: np.asarray(a).tolist() for n, a in v.items()}) for k, v in r.items()} for r in results.values()]
    tally.case(("opt", _key(case), case["inner"], case["normalize"]), nontrivial=len(results) >= 2, outcome=f"opt:{outcome}",
               sample={"case": case, "optima": obs["optima"]} if case["system"] == "2-strong" and order[0] == "y2" and obj == "q1" else None)
    tally.count("optimizations", len(results))
    return obs


def _case(case, tally):
    if case.get("part") == "opt":
        run_opt(case, tally)
    else:
        run_case(case, tally)


# ------------------------------------------------------------------------------------------------
# enumeration
# ------------------------------------------------------------------------------------------------
def choices(n: int, thorough: bool, nvars: int = 4):
    """(objective provider, constraint providers): every discipline in turn, one or two constraints."""
    out = []
    for i in range(1, n + 1):
        for j in range(1, n + 1):
            out.append((f"o{i}", [f"g{j}"]))
    pairs = list(itertools.combinations(range(1, n + 1), 2))
    if not thorough and n == 3:
        pairs = pairs[:1] if nvars <= 4 else []  # quick: 9 single-constraint choices (+ 1 pair on the 4-variable systems)
    for k, (j1, j2) in enumerate(pairs):
        objs = range(1, n + 1) if (thorough or n == 2) else [1 + (k % n)]
        for i in objs:
            out.append((f"o{i}", [f"g{j2}", f"g{j1}"]))  # added in reverse name order
    return out


def system_variables(system: str):
    ref_ins = [u for d in SYSTEMS[system]["discs"] for u in d["ins"]]
    design = list(dict.fromkeys(u for u in ref_ins if not is_coupling(u)))
    couplings = [v for d in SYSTEMS[system]["discs"] for v in d["outs"]]
    return design + couplings


def orders_for(system: str, full: bool):
    names = system_variables(system)
    if len(names) <= 4 or full:
        perms = [list(p) for p in itertools.permutations(names)]
        perms.sort(key=lambda p: (p != names, p != sorted(names)))  # declaration order first
        return perms
    return covering_orders(names, 3)


def weakly_coupled_disciplines(system: str) -> bool:
    """Whether some discipline is outside every cycle (independent closure; such systems have feed-forward couplings)."""
    discs = SYSTEMS[system]["discs"]
    n = len(discs)
    reach = [[i == j or bool(set(discs[i]["outs"]) & set(discs[j]["ins"])) for j in range(n)] for i in range(n)]
    for k in range(n):
        for i in range(n):
            for j in range(n):
                reach[i][j] = reach[i][j] or (reach[i][k] and reach[k][j])
    return any(not any(i != j and reach[i][j] and reach[j][i] for j in range(n)) for i in range(n))


def main_mda_forms(system: str):
    """MDF with a main MDA other than MDAChain, built like every other variant on the design space shared with IDF.

    MDANewtonRaphson and MDAGSNewton refuse systems with weakly coupled disciplines (documented ValueError), so they are
    enumerated only on the fully cyclic graphs.  Oracle boundary: MDAQuasiNewton is not enumerated (it stops on SciPy's own
    criterion and does not maintain ``normed_residual``, so no error bound can be derived from the requested tolerance).
    """
    out = [["MDF", "MDAJacobi", None], ["MDF", "MDAGaussSeidel", None]]
    if not weakly_coupled_disciplines(system):
        out += [["MDF", "MDANewtonRaphson", None], ["MDF", "MDAGSNewton", None]]
    return out


MAIN_MDA_SYSTEMS_QUICK = [s for s in SYSTEMS if weakly_coupled_disciplines(s)] + ["2-strong"]


PARALLEL_IDF_SYSTEMS_QUICK = ["2-strong", "2-weak-rev", "3-mixed", "3-upstream"]


def parallel_idf_forms(processes: bool):
    """IDF x start_at_equilibrium x n_processes in {1, 2} (threads; + one multiprocessing variant), minus the plain sequential IDF."""
    out = [["IDF", True, True, 1, True], ["IDF", True, False, 2, True], ["IDF", True, True, 2, True]]
    if processes:
        out.append(["IDF", False, True, 2, False])
    return out


def forms_for(system: str, level: str, mains: bool = False, parallel: bool = False):
    """Formulation variants of one case.  level: "default" (gemseo's defaults) | "all" | "extra" (thorough additions)."""
    strong = "exec" not in SYSTEMS[system]
    if level == "default":
        out = [["IDF", True], ["MDF", "MDAChain", "MDAJacobi"]]
    else:
        out = [["IDF", False], ["IDF", True]] + [["MDF", "MDAChain", m] for m in (INNER_MDAS if strong else INNER_MDAS[:1])]
    if not strong:
        out.append(["DOPT"])
    if parallel or level == "extra":
        out += parallel_idf_forms(processes=system == "2-strong")
    if mains or level == "extra":
        out += main_mda_forms(system)
    return out


def cases(thorough: bool):
    """Simplest first: 2-discipline systems, base variants, declaration order.

    quick:    base variants x every order (<= 4 variables) or the strength-3 covering set (5 variables); the formulation product is
              complete (IDF normalize x MDF inner MDA x DisciplinaryOpt) on the covering orders and reduced to gemseo's defaults
              (IDF normalized, MDF/Jacobi) on the other orders; the other harness variants on 3 orders, complete formulation product.
    thorough: every variant x every order (5 variables: all 120 for the base variants, covering set otherwise) x complete
              formulation product, plus IDF(start_at_equilibrium x n_processes) and MDF(main MDA other than MDAChain) on the covering orders.
    both:     MDF with a main MDA other than MDAChain (``main_mda_forms``): quick = base variants x first 3 covering orders on every graph
              with a weakly coupled discipline and on 2-strong; the weak couplings then stay inputs of the MDA, so nothing but
              ``MDF._remove_couplings_from_ds`` removes them from the design space shared with IDF.
    """
    for system in SYSTEMS:
        n = len(SYSTEMS[system]["discs"])
        names = system_variables(system)
        covering = covering_orders(names, 3)
        ckeys = {tuple(o) for o in covering}
        for variant in VARIANTS:
            base = variant in BASE_VARIANTS
            if thorough:
                orders = orders_for(system, full=base or len(names) <= 4)
            elif base:
                orders = orders_for(system, full=len(names) <= 4)
            else:
                orders = covering[:3]
            for obj, cons in choices(n, thorough, len(names)):
                for k, order in enumerate(orders):
                    if thorough:
                        level = "extra" if tuple(order) in ckeys else "all"
                    else:
                        level = "all" if (not base or tuple(order) in (ckeys if len(names) <= 4 else {tuple(o) for o in covering[:3]})) else "default"
                    mains = not thorough and base and system in MAIN_MDA_SYSTEMS_QUICK and order in covering[:3]
                    yield {"system": system, "variant": variant, "obj": obj, "cons": cons, "order": order,
                           "formulations": [fv for fv in forms_for(system, level, mains, not thorough and base and system in PARALLEL_IDF_SYSTEMS_QUICK and order in covering[:3])
                                            if not (fv[0] == "IDF" and len(fv) > 4 and not fv[4] and order != covering[0])],  # multiprocessing: declaration order only
                           "check_required": k == 0 and variant == "affine" and cons == ["g1"]}


def opt_cases():
    for system in SYSTEMS:
        n = len(SYSTEMS[system]["discs"])
        names = system_variables(system)
        orders = covering_orders(names, 2)[:2] + [sorted(names)]
        for i in range(1, n + 1):
            for j in range(1, n + 1):
                for axes in product.full({"normalize": [False, True], "inner": INNER_MDAS, "order": orders}):
                    yield {"part": "opt", "system": system, "obj": f"q{i}", "cons": [f"g{j}"], **axes}


def run(ctx):
    global ALPHA
    ALPHA = ctx.pick(ALPHABETS)
    _gemseo()
    only = getattr(ctx, "only", None)
    todo = [c for c in cases(ctx.thorough) if not only or only in (c["system"], c["variant"], "eval")]
    counts: dict = {}
    for c in todo:
        counts[c["system"]] = counts.get(c["system"], 0) + 1
    ctx.tally.notes["case_records_per_system"] = counts
    ctx.tally.notes["orders_per_system"] = {s: len(orders_for(s, full=ctx.thorough or len(system_variables(s)) <= 4)) for s in SYSTEMS}
    ctx.tally.notes["alphabet"] = ALPHA["name"]
    pmap(_case, todo, ctx.tally, jobs=ctx.jobs, chunk=8, timeout=120)
    n_opt = 0
    if ctx.thorough and (not only or only == "opt"):
        opt = list(opt_cases())
        n_opt = len(opt)
        pmap(_case, opt, ctx.tally, jobs=ctx.jobs, chunk=4, timeout=300)
    ctx.tally.notes["optimization_cases"] = n_opt
    return {
        "level": LEVEL,
        "rule": "E2 product: 9 coupling graphs x 6 harness variants x (objective provider, constraint provider(s)) x design-space order x formulation variant "
        "x 3 design points x {consistent, inconsistent} couplings.  " + (
            "thorough: every order (5-variable systems: all 120 for the two base variants, the strength-3 sequence-covering set for the others) x complete "
            "formulation product (IDF normalize in {F,T}; MDF/MDAChain inner MDA in {Jacobi, Gauss-Seidel, Newton}; DisciplinaryOpt on weakly coupled systems), "
            "plus IDF(start_at_equilibrium in {F,T} x n_processes in {1,2}) and MDF(main MDA in {MDAJacobi, MDAGaussSeidel; MDANewtonRaphson, MDAGSNewton on fully cyclic graphs}) on the covering orders, plus SLSQP optima of MDF / IDF / DisciplinaryOpt on the convex members"
            if ctx.thorough else
            "quick: base variants (affine, nonlinear) x all 24 orders of the 4-variable systems / the strength-3 sequence-covering orders of the 5-variable systems, "
            "with the complete formulation product (IDF normalize in {F,T}; MDF/MDAChain inner MDA in {Jacobi, Gauss-Seidel, Newton}; DisciplinaryOpt on weakly coupled "
            "systems) on the covering orders (5 variables: the first 3) and gemseo's defaults (IDF normalized, MDF/Jacobi, DisciplinaryOpt) on the other orders; the 4 other "
            "variants on 3 orders x complete formulation product; MDF with main MDA in {MDAJacobi, MDAGaussSeidel; + MDANewtonRaphson, MDAGSNewton on 2-strong} on the first 3 covering "
            "orders of the base variants of every graph with a weakly coupled discipline and of 2-strong (design space shared with IDF, couplings included); "
            "IDF start_at_equilibrium in {F,T} x n_processes in {1,2} (threads; + one multiprocessing variant on 2-strong) on the same orders of 2-strong, 2-weak-rev, 3-mixed, 3-upstream; 3-discipline systems: 9 single-constraint choices (+1 two-constraint choice on 4-variable systems)"
        ) + ".  One evaluation = one formulation object built and interrogated.  It is non-trivial when at least one of "
        "its functions reads design-vector components that are not a prefix of the design vector in order (input mask != identity)",
        "exhaustive": True,
        "bounds": {"disciplines": "2-3", "sizes": "1-2 (unequal)", "design_points": 3, "mda_tolerance": TOL, "alphabet": ALPHA["name"],
                   "orders_5_variables": "all 120 (base variants)" if ctx.thorough else "strength-3 covering",
                   "formulation_product": "complete" if ctx.thorough else "complete on covering orders, defaults elsewhere"},
        "assumptions": [
            "harness disciplines: affine or affine + 0.3 sin(.) outputs, contraction constant <= 0.45 (inf norm); 3 value alphabets rotated by VERIF_SEED",
            "functions are interrogated through optimization_problem.objective / constraints evaluate() and jac() (no design-space normalization, C01 owns it)",
            "scaling of a consistency constraint whose coupling has no finite range is left open (finite, sign-preserving, zero only at consistency)",
            "same-optimum (thorough): optimal values only, declared allowance 1e-6 (1 + |f|) for SLSQP's accuracy",
        ],
    }


def replay(case, ctx):
    global ALPHA
    ALPHA = ctx.pick(ALPHABETS)
    t = Tally()
    obs = run_opt(case, t) if case.get("part") == "opt" else run_case(case, t)
    obs["case"] = case
    for v in t.violations.values():
        if not any(v["signature"]["invariant"] == o.get("invariant") for o in obs["violations"]):
            obs["violations"].append({"invariant": v["signature"]["invariant"], "message": v["message"]})
    return obs
