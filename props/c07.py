"""C07 - coupled total derivatives satisfy the implicit-function equations (engine E2, full product).

Harness systems: 2-3 disciplines, affine in the coupling / state variables (so the residual Jacobian dR/dy is a
constant known to the harness and the fixed-point MDAs contract) and *quadratic in the design variables* (so the
partials dR/dx, dF/dx depend on the input point and a Jacobian left over from another point is visible).
Variable sizes are unequal on purpose (2,1,2 / 1,2,3 / 3,2,1 ...), names sort in an order that differs from the
order of production, every coefficient block is dense and non-symmetric: block placement, slicing and
transposition errors cannot cancel.

Graph classes
  full3     three disciplines, every one reads the couplings of the two others
  weakdown  two strongly coupled disciplines + one weakly coupled discipline downstream
  weakup    one weakly coupled discipline upstream of two strongly coupled ones (the weak coupling is a column of dR/dy)
  selfc     a self-coupled discipline (its private variable ``sa`` is input and output) strongly coupled with a second one
  ressolved a discipline with a residual / state pair (r, w) that solves its own state equation
            (``io.residual_to_state_variable``, ``io.state_equations_are_solved = True``) coupled with a plain one
  resmda    the same pair left to the MDA (``state_equations_are_solved = False``)
  resweakup | resweakdown | reschain | resweakmda   (EXTRA_GRAPHS) the discipline with the (r, w) pair belongs to NO strongly
            coupled group: upstream of a strongly coupled pair | downstream of it (the state itself is requested) | no
            strongly coupled pair at all | upstream with the state equation left to the (fixed-point) MDA.  The selection
            of what each discipline must be linearized for (``traverse_add_diff_io_mda``) treats the members of the
            strongly coupled groups and the other disciplines by two different passes.

Oracle (independent of gemseo, dense numpy): y = every variable that is produced by one discipline and read by
some discipline (couplings, self-couplings, states);  R = Y(y, x) - y for explicit variables, R = r(y, x) for a
state;  dF/dx_total = dF/dx - dF/dy (dR/dy)^-1 dR/dx  with ``numpy.linalg.solve``; the same numbers are obtained
from one monolithic solve over *all* produced variables (self-check of the harness, asserted).

Tolerance (derived, not tuned).  gemseo solves  A s = b  (A = dR/dy or its transpose) either by sparse LU or by
a Krylov solver stopped at  ||b - A s|| <= t ||b||,  t = ``linear_solver_tolerance`` (1e-12 here), hence
||ds|| <= ||A^-1|| t ||b||.  Direct mode: b is a column of dR/dx and the error is multiplied by dF/dy; adjoint
mode: b is a row of dF/dy and the error is multiplied by dR/dx.  Both are bounded by
    ||dF/dy||_2 ||A^-1||_2 ||dR/dx||_2 * t.
The Krylov solvers test a *recurrence* residual (TFQMR an upper estimate of it), which can drift from the true
one by O(iterations * eps * kappa); the bound therefore carries a factor 100 on t and 1000 * eps * kappa(A) of
rounding:   bound = (100 t + 1000 eps kappa_2(A)) * max(1, ||dF/dy||) * ||A^-1|| * max(1, ||dR/dx||) + 100 eps |J|.
With kappa <= ~10 this is ~1e-9..1e-8, i.e. the "1e-8 kappa" of the design; a wrong block is O(0.1 .. 1).

Enumeration (E2, ``mc.product`` + ``mc.core.pmap``)
  product   graph x mode {auto, direct, adjoint} x {sparse matrix, sparse matrix + LU, linear operator} x linear solver
            x every non-empty subset of 3 design inputs x every non-empty subset of 3 outputs (49 requests, each on fresh
            disciplines and a fresh MDA) x input point x MDA kind {MDAJacobi, MDAGaussSeidel, MDANewtonRaphson, MDAChain,
            MDAChain(chain_linearize=True)} x representation of the disciplines' partials {dense, CSR, JacobianOperator}
            (the -I of a self-coupling is applied by three different branches) x disciplines that fill only the requested
            blocks / every block.  quick: full solver product for MDAGaussSeidel at point 0, the other axes crossed with
            mode x matrix type at the default solver; thorough: see ``cases``.
  history   two requests on the SAME objects, default configuration: (mda) add_differentiated_*(r1); linearize(x_p);
            add_differentiated_*(r2); linearize(x_q) with (p, q) = (0, 1) and (1, 1) - the differentiated names only grow,
            ``ALL`` = linearize(compute_all_jacobians=True) gives superset -> subset; (assembly) two arbitrary requests handed
            to ``mda.assembly.total_derivatives`` (the public entry point that caches the minimal couplings of the last
            (inputs, outputs) pair).  Every ordered pair of the request alphabet.

  cachetol  successive linearizations of the SAME objects with different cache tolerances and points: sequences of steps
            [tolerance] x [same point | neighbour x (1 + 1e-3) | the other point].  Assembly level:
            ``JacobianAssembly.total_derivatives(converged data of the point, ..., exec_cache_tol in {None, 0.0, 1e-2})``;
            MDA level: ``mda.lin_cache_tol_fact in {0, 1e-2 / tolerance}; mda.linearize(x)``.  The harness keeps the model
            of the documented semantics (``run_cachetol``): every step that runs entirely under a zero cache tolerance must
            return the closed form AT ITS OWN POINT - the systems are quadratic in x, so partials left over from the
            neighbour are 3e-4 away, five orders above the bound.  The converged data of the assembly level are computed by
            the harness (``Oracle.solution``: the systems are affine in y), never by an MDA that shares the caches.

  dtype     the disciplines declare their Jacobian blocks as int64 / float32 / a mix per block (7 policies, see DTYPES;
            integer-coefficient variants of the systems, so an int64 block holds the exact partials; with integer couplings
            the MDA is Newton's and the harness picks the first integer pattern with kappa_2(dR/dy) <= 30) x {dense, CSR} x
            mode x matrix type x LU, requests of one output and of two outputs in both orders handed to
            ``assembly.total_derivatives`` (one LinearProblem serves all the right-hand sides of a call: a matrix cast to
            the dtype of an integer right-hand side stays truncated for the following functions).  Same closed form, built
            from the declared numbers; for float32 policies eps in the tolerance is the float32 one.

Oracle boundaries (rule 1)
* a block that was not requested but is returned anyway (Jacobian cached by a larger request at the same point) is
  allowed and checked like the others; only *missing* requested blocks are violations.
* the solvers built on the two-sided Lanczos recurrence (BICG, BICGSTAB, CGS, TFQMR) break down on the ``weakup``
  systems (right-hand side = eigenvector of dR/dy^T) and gemseo raises RuntimeError("... breakdown"): accepted as a
  loud "no result" for these four solvers, counted in the evidence; see ``_is_breakdown``.
* the dtype part uses integer-coefficient systems, on which those same four solvers stagnate or return NaN (exact
  near-breakdowns; gemseo logs "did not converge"; identical numbers when the same blocks are declared float64): the
  dtype axis is crossed with the GMRES-type solvers only (see ``dtype_cases``).
* a request must be answered within REQUEST_TIMEOUT = 20 s (normal cost < 0.1 s): invariant ``linearize-terminates``
  (a harness guard; after it fires the remaining requests of that configuration are skipped and counted).
* ``CG`` (and any factory algorithm whose description says the left-hand side must be symmetric / positive
  definite) is not applicable to dR/dy; removed from the solver axis, listed in the evidence notes.
* differentiating with respect to a coupling variable raises "is both a coupling and a design variable"
  (``JacobianAssembly._check_inputs``, documented limitation): requested inputs are design variables only.
* ``MDANewtonRaphson`` refuses systems with weakly coupled disciplines (documented ValueError): for the two weak
  graphs it is reached through ``MDAChain(inner_mda_name="MDANewtonRaphson")``.
* ``use_lu_fact`` with a linear operator is refused by gemseo (ValueError): that combination is not a case.
* ``linearize(compute_all_jacobians=True)`` on MDAJacobi with an upstream weakly coupled discipline raises "is both a
  coupling and a design variable" (the MDA keeps the weak couplings among "all inputs"; also on Sobieski): accepted
  reading, counted; notes/fixes/c07_mda_compute_all_jacobians_weak_couplings.diff proposes to drop them.
* cache tolerances: ``exec_cache_tol`` > 0 / ``lin_cache_tol_fact`` > 0 ("the tolerance factor to cache the Jacobian": the
  disciplines are not re-executed and an entry cached within the tolerance is used) are documented approximations: the
  value of a step run under a positive tolerance is not judged; ``exec_cache_tol=None`` "sets no tolerance", i.e. leaves
  a loose one in place: not judged either.  At MDA level the tolerance is put on the discipline caches by the
  linearization, after the MDA execution of the same ``linearize`` call: the first step after the factor is set back to
  0 still executes the MDA under the loose tolerance (the couplings it linearizes at are those of an approximate cache
  hit) - a consequence of the documented mechanism, not judged; the step after it is.  An answer the MDA serves again
  from its own cache for a step that was not judged is not judged.  All of them must still not raise.
* the EXTRA_GRAPHS are crossed with the GMRES-type solvers only (thorough tier; the quick tier uses the default solver
  there): on resweakup CGS stagnates (SciPy's own ``cgs`` on the harness's dense dR/dy: info = 1000, relative residual
  0.3; gemseo logs "did not converge" and returns the iterate) - same family and same cause as the breakdowns on weakup.
* ``resweakmda`` only with MDAGaussSeidel / MDAJacobi (see EXTRA_KINDS): nobody converges the state equation of a weakly
  coupled discipline in MDAChain (executed once) and MDANewtonRaphson refuses weak couplings.
* the residual output ``r`` of a state equation is not in the request pools; when it is returned (ALL) its total
  derivative must be the zero block the formula gives.
"""
from __future__ import annotations

import numpy as np

from mc import product
from mc.core import Tally, pmap

LEVEL = "exploration"
LIN_TOL = 1e-12  # linear_solver_tolerance handed to gemseo (its default value, made explicit)
MDA_TOL = 1e-12
MAX_ITER = 100
EPS = float(np.finfo(float).eps)

# ------------------------------------------------------------------------------------------------
# value alphabets (VERIF_SEED rotates; the enumerated structure never changes)
#   ysz: sizes of the (up to) three couplings in order of production, xsz: sizes of the three design variables,
#   fsz: sizes of the non-coupling outputs, shift: moves every gain, points: the two input points
# ------------------------------------------------------------------------------------------------
ALPHABETS = [
    {"name": "y212-x213", "ysz": (2, 1, 2), "xsz": (2, 1, 3), "fsz": (1, 2), "shift": 0, "points": (0.7, -1.3)},
    {"name": "y123-x132", "ysz": (1, 2, 3), "xsz": (1, 3, 2), "fsz": (2, 1), "shift": 3, "points": (-0.4, 2.1)},
    {"name": "y321-x321", "ysz": (3, 2, 1), "xsz": (3, 2, 1), "fsz": (1, 3), "shift": 5, "points": (1.9, 0.3)},
]
ALPHA = ALPHABETS[0]

# names: sorted order (what JacobianAssembly uses) differs from the order of production / listing
Y = ("yc", "ya", "yb")  # produced by disciplines 0, 1, 2
X = ("xb", "xc", "xa")  # shared, local to 0, local to the last discipline
F = ("fb", "fa")


def system_specs() -> dict:
    ys, xs, fs = ALPHA["ysz"], ALPHA["xsz"], ALPHA["fsz"]
    base = {X[0]: xs[0], X[1]: xs[1], X[2]: xs[2], F[0]: fs[0], F[1]: fs[1]}
    yc, ya, yb = Y
    xb, xc, xa = X
    fb, fa = F
    return {
        "full3": {
            "sizes": {**base, yc: ys[0], ya: ys[1], yb: ys[2]},
            "discs": [
                {"name": "D2", "ins": [xb, xc, ya, yb], "outs": [yc, fb]},
                {"name": "D0", "ins": [xb, yc, yb], "outs": [ya]},
                {"name": "D1", "ins": [xb, xa, yc, ya], "outs": [yb, fa]},
            ],
            "req_in": [xb, xc, xa], "req_out": [fb, ya, fa],
        },
        "weakdown": {
            "sizes": {**base, yc: ys[0], ya: ys[1]},
            "discs": [
                {"name": "D2", "ins": [xb, xc, ya], "outs": [yc, fb]},
                {"name": "D0", "ins": [xb, yc], "outs": [ya]},
                {"name": "D1", "ins": [xa, yc, ya], "outs": [fa]},
            ],
            "req_in": [xb, xc, xa], "req_out": [fb, yc, fa],
        },
        "weakup": {
            "sizes": {**base, yc: ys[0], ya: ys[1], yb: ys[2]},
            "discs": [
                {"name": "D2", "ins": [xb, xc], "outs": [yb, fb]},  # upstream: yb is a weak coupling
                {"name": "D0", "ins": [xb, yb, ya], "outs": [yc]},
                {"name": "D1", "ins": [xa, yc], "outs": [ya, fa]},
            ],
            "req_in": [xb, xc, xa], "req_out": [fb, yb, fa],
        },
        "selfc": {
            "sizes": {**base, yc: ys[0], ya: ys[1], "sa": ys[2]},
            "discs": [
                {"name": "D2", "ins": [xb, xc, "sa", ya], "outs": ["sa", yc, fb]},
                {"name": "D0", "ins": [xb, xa, yc], "outs": [ya, fa]},
            ],
            "req_in": [xb, xc, xa], "req_out": [fb, "sa", fa],
        },
        "ressolved": {
            "sizes": {**base, yc: ys[0], ya: ys[1], "w": ys[2], "r": ys[2]},
            "discs": [
                {"name": "D2", "ins": [xb, xc, "w", ya], "outs": ["w", "r", yc, fb], "state": {"r": "w"}, "solved": True},
                {"name": "D0", "ins": [xb, xa, yc], "outs": [ya, fa]},
            ],
            "req_in": [xb, xc, xa], "req_out": [fb, yc, fa],
        },
        "resmda": {
            "sizes": {**base, yc: ys[0], ya: ys[1], "w": ys[2], "r": ys[2]},
            "discs": [
                {"name": "D2", "ins": [xb, xc, "w", ya], "outs": ["w", "r", yc, fb], "state": {"r": "w"}, "solved": False},
                {"name": "D0", "ins": [xb, xa, yc], "outs": [ya, fa]},
            ],
            "req_in": [xb, xc, xa], "req_out": [fb, "w", fa],
        },
        # -- disciplines with a residual / state pair that are only WEAKLY coupled (member of no strongly coupled group) --
        "resweakup": {  # weakup whose upstream discipline has a state equation it solves itself
            "sizes": {**base, yc: ys[0], ya: ys[1], yb: ys[2], "w": ys[1], "r": ys[1]},
            "discs": [
                {"name": "D2", "ins": [xb, xc, "w"], "outs": ["w", "r", yb, fb], "state": {"r": "w"}, "solved": True},
                {"name": "D0", "ins": [xb, yb, ya], "outs": [yc]},
                {"name": "D1", "ins": [xa, yc], "outs": [ya, fa]},
            ],
            "req_in": [xb, xc, xa], "req_out": [fb, yb, fa],
        },
        "resweakdown": {  # weakdown whose downstream discipline has a state equation it solves itself; the state is requested
            "sizes": {**base, yc: ys[0], ya: ys[1], "w": ys[2], "r": ys[2]},
            "discs": [
                {"name": "D2", "ins": [xb, xc, ya], "outs": [yc, fb]},
                {"name": "D0", "ins": [xb, yc], "outs": [ya]},
                {"name": "D1", "ins": [xa, yc, ya, "w"], "outs": ["w", "r", fa], "state": {"r": "w"}, "solved": True},
            ],
            "req_in": [xb, xc, xa], "req_out": [fb, "w", fa],
        },
        "reschain": {  # no strongly coupled group at all: state discipline -> discipline computing an output
            "sizes": {**base, yb: ys[2], "w": ys[1], "r": ys[1]},
            "discs": [
                {"name": "D2", "ins": [xb, xc, "w"], "outs": ["w", "r", yb, fb], "state": {"r": "w"}, "solved": True},
                {"name": "D0", "ins": [xb, xa, yb], "outs": [fa]},
            ],
            "req_in": [xb, xc, xa], "req_out": [fb, yb, fa],
        },
        "resweakmda": {  # resweakup with the state equation left to the MDA (fixed-point MDAs only, see EXTRA_KINDS)
            "sizes": {**base, yc: ys[0], ya: ys[1], yb: ys[2], "w": ys[1], "r": ys[1]},
            "discs": [
                {"name": "D2", "ins": [xb, xc, "w"], "outs": ["w", "r", yb, fb], "state": {"r": "w"}, "solved": False},
                {"name": "D0", "ins": [xb, yb, ya], "outs": [yc]},
                {"name": "D1", "ins": [xa, yc], "outs": [ya, fa]},
            ],
            "req_in": [xb, xc, xa], "req_out": [fb, "w", fa],
        },
    }


GRAPHS = ["full3", "weakdown", "weakup", "selfc", "ressolved", "resmda"]
# Graphs added later (state discipline outside every strongly coupled group).  They are crossed with a reduced set of the
# other axes in the quick tier (see ``extra_cases``) so that the cost of the quick tier stays where it was.
EXTRA_GRAPHS = ["resweakup", "resweakdown", "reschain", "resweakmda"]
ALL_GRAPHS = GRAPHS + EXTRA_GRAPHS
# Oracle boundary: a weakly coupled discipline whose state equation is NOT solved inside is only converged by the MDAs that
# sweep every discipline until every resolved variable (couplings and states) is stationary; MDAChain executes a weakly
# coupled discipline once and MDANewtonRaphson refuses weakly coupled disciplines (documented), so the converged solution
# the statement speaks of exists for the two fixed-point MDAs only.
EXTRA_KINDS = {"resweakmda": ["MDAGaussSeidel", "MDAJacobi"]}


# ------------------------------------------------------------------------------------------------
# coefficients
# ------------------------------------------------------------------------------------------------
def _code(v: str) -> int:
    return sum((i + 1) * ord(c) for i, c in enumerate(v)) % 97


def _pattern(cv: int, cu: int, rows: int, cols: int, phase: float) -> np.ndarray:
    """Dense, sign-mixed, non-symmetric block with inf-norm 1 (generic values: no accidental cancellation)."""
    r = np.arange(rows)[:, None]
    c = np.arange(cols)[None, :]
    pat = np.sin(1.3 * cv + 0.7 * cu + 2.1 * r + 0.9 * c + phase) + 0.35 * np.cos(0.5 * cv - 1.1 * cu + 1.7 * r * (c + 1))
    return pat / np.abs(pat).sum(axis=1).max()


def _int_pattern(cv: int, cu: int, rows: int, cols: int, sh: int) -> np.ndarray:
    r = np.arange(rows)[:, None]
    c = np.arange(cols)[None, :]
    ip = ((3 * cv + 5 * cu + 2 * r + 7 * c + 3 * r * c + sh) % 4) - 1
    if not ip.any():
        ip[0, 0] = 1
    return ip


class Body:
    """Pure-numpy node: explicit outputs v = c + sum_u B[v,u] u + sum_{design u} Q[v,u] (u*u)/2; optional state equation
    r = Aw w + (same form) with w either solved inside (``solved``) or left as an input."""

    def __init__(self, d: dict, sizes: dict, produced: set, read: set, dt: str = "f64", salt: int = 0):
        self.dt = dt
        self.read = read
        self.name = d["name"]
        self.ins = list(d["ins"])
        self.outs = list(d["outs"])
        self.state = dict(d.get("state") or {})  # residual name -> state name
        self.solved = bool(d.get("solved"))
        self.sizes = sizes
        states = set(self.state.values())
        self.design = [u for u in self.ins if u not in produced]
        self.B, self.Q, self.c = {}, {}, {}
        sh = ALPHA["shift"]
        for v in self.outs:
            if v in states:
                continue  # a state is defined by its residual equation
            cv = _code(v)
            self.c[v] = 0.3 + 0.1 * (cv % 7) + 0.2 * np.arange(sizes[v])
            row_of_r = v in read or v in self.state  # a row of the residual system (coupling, self-coupling, state equation)
            for u in self.ins:
                cu = _code(u)
                pat = _pattern(cv, cu, sizes[v], sizes[u], 0.4)
                if self._integer_block(row_of_r, u in self.design):
                    # integer coefficients (dtype policies "int/..."): entries in {-1, 0, 1, 2}, never an all-zero block; no
                    # quadratic term, so that the block is integral at every point and can be declared as an int64 array
                    n = sizes[u]
                    ip = _int_pattern(cv, cu, sizes[v], n, sh + 7 * salt)
                    if self.state.get(v) == u:
                        ip = (3 * np.eye(n) + np.triu(ip, 1) - np.tril(ip, -1).clip(-1, 0)) if self.solved else (-np.eye(n) + np.triu(ip, 1))
                    self.B[v, u] = ip.astype(float)
                    continue
                if u in self.design:
                    self.B[v, u] = (0.6 + 0.2 * ((cv + cu) % 4)) * pat
                    self.Q[v, u] = (0.3 + 0.1 * ((cv + 2 * cu) % 3)) * _pattern(cv, cu, sizes[v], sizes[u], 1.9)
                elif self.state.get(v) == u:
                    # d r / d w: solved inside -> a generic well-conditioned matrix; left to the MDA -> -I + small (w <- w + r contracts)
                    n = sizes[u]
                    self.B[v, u] = (2.0 * np.eye(n) + 0.6 * pat) if self.solved else (-np.eye(n) + 0.15 * pat)
                elif row_of_r:
                    gain = 0.05 + 0.02 * ((3 * cv + 5 * cu + sh) % 6)  # in [0.05, 0.15]
                    self.B[v, u] = (-gain if (cv + cu) % 2 else gain) * pat
                else:
                    self.B[v, u] = (0.5 + 0.25 * ((cv + cu + sh) % 3)) * pat  # non-coupling output reading a coupling / state

    # -- dtype policies -----------------------------------------------------------------------
    def _integer_block(self, row_of_r: bool, wrt_design: bool) -> bool:
        dt = self.dt
        if not dt.startswith("int/"):
            return False
        if not row_of_r:
            return dt in ("int/F", "int/all")
        if wrt_design:
            return dt in ("int/Rx", "int/R", "int/all")
        return dt in ("int/R", "int/all")

    def declare(self, v: str, block: np.ndarray) -> np.ndarray:
        """The array the discipline declares for a block of row v: the dtype axis.  int/*: an integral block is an int64
        array (the others stay float64); f32/all | f32/F | f32/R: float32 for all rows | the non-coupling outputs | the
        rows of the residual system.  The oracle is built from float64(declare(...)), i.e. from the declared numbers."""
        dt = self.dt
        if dt.startswith("int/"):
            return block.astype(np.int64) if np.array_equal(block, np.round(block)) else block
        if dt.startswith("f32/"):
            row_of_r = v in self.read or v in self.state or v in self.state.values()
            if dt == "f32/all" or (dt == "f32/R") == row_of_r:
                return block.astype(np.float32)
        return block

    # -- evaluation ---------------------------------------------------------------------------
    def _affine(self, v, data, skip=()):
        val = self.c[v].copy()
        for u in self.ins:
            if u in skip:
                continue
            x = np.asarray(data[u], dtype=float)
            val = val + self.B[v, u] @ x
            if (v, u) in self.Q:
                val = val + 0.5 * self.Q[v, u] @ (x * x)
        return val

    def f(self, data: dict) -> dict:
        data = dict(data)
        out = {}
        for r, w in self.state.items():
            if self.solved:
                rest = self._affine(r, data, skip=(w,))
                data[w] = np.linalg.solve(self.B[r, w], -rest)
            out[w] = np.asarray(data[w], dtype=float).copy()
            if not self.solved:  # one relaxation sweep of the state equation: w <- w + r(w, ...) (fixed point <=> r = 0)
                out[w] = out[w] + self._affine(r, data)
        for v in self.outs:
            if v not in out:
                out[v] = self._affine(v, data)
        return out

    def partial(self, v, u, data) -> np.ndarray:
        """d v / d u with every input (states included) held independent."""
        j = self.B[v, u].copy()
        if (v, u) in self.Q:
            j = j + self.Q[v, u] * np.asarray(data[u], dtype=float)[None, :]
        return self.declare(v, j).astype(float)  # the declared numbers (float32 rounding included)

    def jac(self, data: dict) -> dict:
        """What the gemseo discipline declares: partials; for a state output w the derivative of the solved state
        with respect to the other inputs (solved) or the partials of the relaxation sweep w + r (left to the MDA)."""
        out = {}
        states = {w: r for r, w in self.state.items()}
        for v in self.outs:
            out[v] = {}
            for u in self.ins:
                if v in states:
                    r = states[v]
                    if self.solved:
                        out[v][u] = np.zeros((self.sizes[v], self.sizes[u])) if u == v else -np.linalg.solve(self.B[r, v], self.partial(r, u, data))
                    else:  # w_out = w_in + r(w_in, ...)
                        out[v][u] = self.partial(r, u, data) + (np.eye(self.sizes[v]) if u == v else 0.0)
                else:
                    out[v][u] = self.partial(v, u, data)
        return out


_SALTS: dict = {}


def _salt(graph: str, dt: str) -> int:
    """Integer coupling blocks (int/R, int/all) can make dR/dy singular: the first member of a deterministic family of
    integer patterns whose residual Jacobian has kappa_2 <= 30 is used (computed by the harness, per value alphabet)."""
    if dt not in ("int/R", "int/all"):
        return 0
    key = (ALPHA["name"], graph, dt)
    if key not in _SALTS:
        for salt in range(80):
            try:
                if Oracle(graph, 0, dt, salt=salt).kappa <= 30.0:
                    _SALTS[key] = salt
                    break
            except np.linalg.LinAlgError:
                continue
        else:
            raise RuntimeError(f"no well-conditioned integer system for {key}")
    return _SALTS[key]


def bodies(graph: str, dt: str = "f64", salt: int | None = None):
    spec = system_specs()[graph]
    produced = {v for d in spec["discs"] for v in d["outs"]}
    read = {u for d in spec["discs"] for u in d["ins"]}
    salt = _salt(graph, dt) if salt is None else salt
    return spec, [Body(d, spec["sizes"], produced, read, dt, salt) for d in spec["discs"]]


NEAR = 1e-3  # relative step between a point and its neighbour (cache-tolerance histories): inside LOOSE_TOL, and the partials
#              (Q x) move by ~3e-4, five orders above the derived bound


def xpoint(k, sizes: dict) -> dict:
    """Input point k (0 | 1) of the value alphabet; ``[k, n]`` = its n-th neighbour  x_k * (1 + n * NEAR)."""
    k, n = (k, 0) if isinstance(k, int) else (int(k[0]), int(k[1]))
    base = ALPHA["points"][k]
    return {x: (base + 0.35 * i + 0.25 * np.arange(sizes[x]) * (1 if k == 0 else -1)) * (1.0 + n * NEAR) for i, x in enumerate(X)}


# ------------------------------------------------------------------------------------------------
# oracle
# ------------------------------------------------------------------------------------------------
class Oracle:
    def __init__(self, graph: str, point: int, dt: str = "f64", salt: int | None = None):
        self.dt = dt
        self.eps = float(np.finfo(np.float32).eps) if dt.startswith("f32/") else EPS  # precision of the declared blocks
        self.spec, self.bodies = bodies(graph, dt, salt)
        sizes = self.sizes = self.spec["sizes"]
        bs = self.bodies
        self.x = xpoint(point, sizes)
        produced = [v for b in bs for v in b.outs]
        read = {u for b in bs for u in b.ins}
        residuals = {r for b in bs for r in b.state}
        states = {w for b in bs for w in b.state.values()}
        self.states = states
        self.residual_of = {w: r for b in bs for r, w in b.state.items()}
        self.y = sorted(v for v in dict.fromkeys(produced) if v in read and v not in residuals)  # couplings + self + states
        self.design = [x for x in X if x in read]
        self.owner = {v: b for b in bs for v in b.outs}
        yoff, k = {}, 0
        for v in self.y:
            yoff[v] = k
            k += sizes[v]
        self.yoff, self.ny = yoff, k
        xoff, k = {}, 0
        for v in self.design:
            xoff[v] = k
            k += sizes[v]
        self.xoff, self.nx = xoff, k
        data = dict(self.x)  # partials wrt y are constant, wrt x depend on x only: any y value will do
        for v in self.y:
            data[v] = np.zeros(sizes[v])
        # residual Jacobians
        A = np.zeros((self.ny, self.ny))
        Bx = np.zeros((self.ny, self.nx))
        for v in self.y:
            b = self.owner[v]
            fn = self.residual_of.get(v, v)  # the row of a state is its residual equation
            rows = slice(yoff[v], yoff[v] + sizes[v])
            for u in b.ins:
                p = b.partial(fn, u, data)
                if u in yoff:
                    A[rows, yoff[u]:yoff[u] + sizes[u]] += p
                else:
                    Bx[rows, xoff[u]:xoff[u] + sizes[u]] += p
            if v not in states:
                A[rows, rows] -= np.eye(sizes[v])
        self.A, self.Bx = A, Bx
        self.Ainv_norm = float(np.linalg.norm(np.linalg.inv(A), 2))
        self.kappa = float(np.linalg.cond(A, 2))
        self.dydx = -np.linalg.solve(A, Bx)
        # contraction of the plain fixed point y <- Y(y) / w <- w + r (Jacobi); Gauss-Seidel then contracts as well
        self.rho = float(max(abs(np.linalg.eigvals(A + np.eye(self.ny)))))
        self._data = data

    def solution(self) -> dict:
        """The converged coupled solution at self.x, computed by the harness (the system is affine in y:
        R(y, x) = A y + R(0, x)), as the input data {design variables, couplings, states} of the disciplines."""
        data = dict(self._data)  # x, y = 0
        r0 = np.zeros(self.ny)
        for v in self.y:
            fn = self.residual_of.get(v, v)
            r0[self.yoff[v]:self.yoff[v] + self.sizes[v]] = self.owner[v]._affine(fn, data)
        ysol = np.linalg.solve(self.A, -r0)
        out = {k: np.array(v, dtype=float) for k, v in self.x.items()}
        for v in self.y:
            out[v] = ysol[self.yoff[v]:self.yoff[v] + self.sizes[v]].copy()
        return out

    def partials_of(self, fn: str):
        """(dF/dx, dF/dy) of output fn with every y independent (a y-variable is its own selector)."""
        sizes = self.sizes
        fx = np.zeros((sizes[fn], self.nx))
        fy = np.zeros((sizes[fn], self.ny))
        if fn in self.yoff:
            fy[:, self.yoff[fn]:self.yoff[fn] + sizes[fn]] = np.eye(sizes[fn])
            return fx, fy
        b = self.owner[fn]
        for u in b.ins:
            p = b.partial(fn, u, self._data)
            if u in self.yoff:
                fy[:, self.yoff[u]:self.yoff[u] + sizes[u]] += p
            else:
                fx[:, self.xoff[u]:self.xoff[u] + sizes[u]] += p
        return fx, fy

    def total(self, fn: str, x: str):
        """(exact block d fn / d x, admissible absolute error)."""
        fx, fy = self.partials_of(fn)
        tot = fx + fy @ self.dydx  # = dF/dx - dF/dy (dR/dy)^-1 dR/dx
        blk = tot[:, self.xoff[x]:self.xoff[x] + self.sizes[x]]
        nfy = max(1.0, float(np.linalg.norm(fy, 2)))
        nbx = max(1.0, float(np.linalg.norm(self.Bx, 2)))
        bound = (100.0 * LIN_TOL + 1000.0 * self.eps * self.kappa) * nfy * self.Ainv_norm * nbx + 100.0 * self.eps * float(np.abs(tot).max())
        return blk, bound

    def monolithic(self, fn: str, x: str):
        """Self-check: one dense solve over every produced variable (explicit outputs as unknowns too)."""
        bs, sizes = self.bodies, self.sizes
        names = [v for v in dict.fromkeys(v for b in bs for v in b.outs) if v not in {r for b in bs for r in b.state}]
        off, k = {}, 0
        for v in names:
            off[v] = k
            k += sizes[v]
        E = np.zeros((k, k))
        Ex = np.zeros((k, self.nx))
        for v in names:
            b = self.owner[v]
            fn_ = self.residual_of.get(v, v)
            rows = slice(off[v], off[v] + sizes[v])
            for u in b.ins:
                p = b.partial(fn_, u, self._data)
                if u in off:
                    E[rows, off[u]:off[u] + sizes[u]] += p
                else:
                    Ex[rows, self.xoff[u]:self.xoff[u] + sizes[u]] += p
            if v not in self.states:
                E[rows, rows] -= np.eye(sizes[v])
        dz = -np.linalg.solve(E, Ex)
        return dz[off[fn]:off[fn] + sizes[fn], self.xoff[x]:self.xoff[x] + sizes[x]]


# ------------------------------------------------------------------------------------------------
# gemseo side
# ------------------------------------------------------------------------------------------------
_G: dict = {}
FAST_STATISTICS = True  # replay() switches it off


def _gemseo():
    if _G:
        return _G
    from gemseo.algos.linear_solvers.factory import LinearSolverLibraryFactory
    from gemseo.core.derivatives.jacobian_operator import JacobianOperator
    from gemseo.core.discipline import Discipline
    from gemseo.mda.factory import MDAFactory
    from scipy.sparse import csr_matrix

    class MatOp(JacobianOperator):
        """A discipline Jacobian block given matrix-free."""

        def __init__(self, m):
            super().__init__(m.dtype, m.shape)
            self._m = m

        def _matvec(self, x):
            return self._m @ x

        def _rmatvec(self, x):
            return self._m.T @ x

    class Harness(Discipline):
        """gemseo face of a Body.  ``_compute_jacobian`` fills exactly the blocks it is asked for (fill="requested"):
        a block the assembly needs but forgot to request is then absent, which the assembly reads as a zero block."""

        def __init__(self, body: Body, rep: str, fill: str, x0: dict):
            super().__init__(name=body.name)
            self.body, self.rep, self.fill = body, rep, fill
            self.io.input_grammar.update_from_names(body.ins)
            self.io.output_grammar.update_from_names(body.outs)
            self.io.input_grammar.defaults.update({u: (np.array(x0[u], dtype=float) if u in x0 else np.zeros(body.sizes[u])) for u in body.ins})
            if body.state:
                self.io.residual_to_state_variable = dict(body.state)
                self.io.state_equations_are_solved = body.solved
            self.n_run = self.n_lin = 0

        def _run(self, input_data):
            self.n_run += 1
            return self.body.f(input_data)

        def _compute_jacobian(self, input_names=(), output_names=()):
            self.n_lin += 1
            full = self.body.jac(self.io.data)
            ins = self.body.ins if self.fill == "all" else [u for u in self.body.ins if u in set(input_names)]
            outs = self.body.outs if self.fill == "all" else [v for v in self.body.outs if v in set(output_names)]
            conv = {"dense": lambda m: m, "csr": csr_matrix, "operator": MatOp}[self.rep]
            self.jac = {v: {u: conv(self.body.declare(v, full[v][u])) for u in ins} for v in outs}

    if FAST_STATISTICS:
        # Every Discipline object creates 3 multiprocessing.Value (OS semaphores, ~3-10 ms each on a loaded machine) for
        # its execution statistics - 60 % of the cost of a case.  The counters are unrelated to the derivatives; the
        # module-level name ``Value`` of gemseo.core.execution_statistics is rebound to a process-local equivalent
        # (a seam used from outside, nothing in /repo is edited).  replay() runs with the real one.
        import threading

        import gemseo.core.execution_statistics as es

        class _LocalValue:
            def __init__(self, typecode, value):
                self.value = value
                self._lock = threading.RLock()

            def get_lock(self):
                return self._lock

        es.Value = _LocalValue

    fac = LinearSolverLibraryFactory()
    usable, excluded = [], []
    for name in fac.algorithms:
        lib = fac.create(name)
        d = lib.ALGORITHM_INFOS[name]
        (excluded if (d.lhs_must_be_symmetric or d.lhs_must_be_positive_definite) else usable).append(name)
    usable.sort(key=lambda n: (n != "DEFAULT", n))
    _G.update(Harness=Harness, MDAFactory=MDAFactory(), solvers=usable, excluded_solvers=excluded)
    return _G


MDA_KINDS = ["MDAJacobi", "MDAGaussSeidel", "MDANewtonRaphson", "MDAChain", "MDAChain/chain_linearize"]
WEAK_GRAPHS = ("weakdown", "weakup", "resweakup", "resweakdown", "reschain", "resweakmda")


def build_mda(cfg: dict, x0: dict):
    g = _gemseo()
    spec, bs = bodies(cfg["graph"], cfg.get("dt", "f64"))
    discs = [g["Harness"](b, cfg.get("rep", "dense"), cfg.get("fill", "requested"), x0) for b in bs]
    lin = dict(linear_solver=cfg.get("solver", "DEFAULT"), use_lu_fact=bool(cfg.get("lu")), linear_solver_tolerance=LIN_TOL)
    kind = cfg.get("mda", "MDAGaussSeidel")
    common = dict(tolerance=MDA_TOL, max_mda_iter=MAX_ITER, **lin)
    if kind == "MDAJacobi":
        mda = g["MDAFactory"].create(kind, discs, n_processes=1, **common)
    elif kind in ("MDAGaussSeidel",):
        mda = g["MDAFactory"].create(kind, discs, **common)
    elif kind == "MDANewtonRaphson":
        if cfg["graph"] in WEAK_GRAPHS:  # documented: not supported directly (oracle boundary)
            mda = g["MDAFactory"].create("MDAChain", discs, inner_mda_name="MDANewtonRaphson", inner_mda_settings=dict(lin), **common)
        else:
            mda = g["MDAFactory"].create(kind, discs, **common)
    elif kind.startswith("MDAChain"):
        inner = cfg.get("inner", "MDAJacobi")
        inner_settings = dict(lin)
        if inner == "MDAJacobi":
            inner_settings["n_processes"] = 1
        mda = g["MDAFactory"].create("MDAChain", discs, inner_mda_name=inner, inner_mda_settings=inner_settings,
                                     chain_linearize=kind.endswith("chain_linearize"), **common)
        for m in mda.inner_mdas:  # the inner MDAs are linearized by themselves when the chain is linearized
            m.matrix_type = cfg.get("mtype", "matrix")
            m.linearization_mode = cfg.get("mode", "auto")
    else:
        raise ValueError(kind)
    mda.matrix_type = cfg.get("mtype", "matrix")
    mda.linearization_mode = cfg.get("mode", "auto")
    return spec, bs, discs, mda


def _dense(m):
    """Dense array of a returned block: ndarray, SciPy sparse matrix, or (matrix-free disciplines composed by the chain
    rule of MDAChain(chain_linearize=True)) a gemseo JacobianOperator / SciPy LinearOperator."""
    if isinstance(m, np.ndarray):
        return np.asarray(m, dtype=float)
    if hasattr(m, "toarray"):
        return np.asarray(m.toarray(), dtype=float)
    if hasattr(m, "get_matrix_representation"):  # JacobianOperator: ``op @ array`` is lazy, ``dot`` applies it
        return np.asarray(m.get_matrix_representation(), dtype=float)
    if hasattr(m, "matmat"):
        return np.asarray(m.matmat(np.eye(m.shape[1])), dtype=float)
    if hasattr(m, "todense"):
        return np.asarray(m.todense(), dtype=float)
    return np.asarray(m, dtype=float)


def request_shape(cfg, ins, outs, second=False) -> str:
    spec = system_specs()[cfg["graph"]]
    if second:
        return "second-request"
    read = {u for d in spec["discs"] for u in d["ins"]}
    if any(o in read for o in outs):
        return "coupling-requested" + ("" if len(ins) == len(spec["req_in"]) and len(outs) == len(spec["req_out"]) else ",strict-subset")
    if len(ins) == len(spec["req_in"]) and len(outs) == len(spec["req_out"]):
        return "all"
    return "strict-subset"


def signature(inv, cfg, shape, msg=""):
    if inv == "linearize-raises":  # the exception class is part of the defect site
        inv = "linearize-raises:" + msg.split(":")[0].strip()[:40]
    return {"invariant": inv, "mode": cfg.get("mode", "auto"), "matrix": cfg.get("mtype", "matrix"), "lu": bool(cfg.get("lu")),
            "solver": cfg.get("solver", "DEFAULT"), "graph": cfg["graph"], "mda": cfg.get("mda", "MDAGaussSeidel"), "request": shape}


def check_jac(jac, oracle: Oracle, ins, outs, exact_keys=True):
    """([(invariant, message)], worst error / bound) for one returned Jacobian dict against the oracle.

    Requested blocks must be present; a block that was not requested but is returned anyway (e.g. the Jacobian cached by
    an earlier, larger request at the same point) is not a violation of the statement - it is checked like the others
    whenever the oracle knows the pair (oracle boundary; ``exact_keys`` is kept for the call sites and ignored)."""
    bad = []
    worst = 0.0
    if not hasattr(jac, "keys"):
        return [("jacobian-is-a-mapping", f"{type(jac).__name__}")], worst
    missing = [o for o in outs if o not in jac]
    if missing:
        return [("requested-output-present", f"outputs {missing} missing; keys {sorted(jac)}")], worst
    known_out = set(oracle.owner)
    known_in = set(oracle.design)
    for o in list(outs) + sorted(k for k in jac if k in known_out and k not in outs):
        row = jac[o]
        miss = [i for i in ins if i not in row] if o in outs else []
        if miss:
            bad.append(("requested-input-present", f"d{o}/d{miss} missing; keys {sorted(row)}"))
            continue
        for i in list(ins) + sorted(k for k in row if k in known_in and k not in ins):
            if i not in row:
                continue
            ref, bound = oracle.total(o, i)
            try:
                got = _dense(row[i])
            except Exception as e:
                bad.append(("block-is-an-array", f"d{o}/d{i}: {type(row[i]).__name__}: {e}"))
                continue
            if got.shape != ref.shape:
                bad.append(("block-shape", f"d{o}/d{i}: shape {got.shape}, expected {ref.shape}"))
                continue
            if not np.all(np.isfinite(got)):
                bad.append(("block-finite", f"d{o}/d{i} = {got.tolist()}"))
                continue
            err = float(np.max(np.abs(got - ref)))
            worst = max(worst, err / bound)
            if not err <= bound:
                bad.append(("implicit-function-value", f"d{o}/d{i} = {np.round(got, 10).tolist()} expected {np.round(ref, 10).tolist()} "
                                                       f"(|error| {err:.3e} > bound {bound:.3e}, kappa {oracle.kappa:.2f})"))
    return bad, worst


REQUEST_TIMEOUT = 20  # seconds; a request costs 0.02-0.1 s.  A linear solver that does not terminate on a 5 x 5 system is reported


class _RequestTimeout(Exception):
    pass


class _guard:
    """SIGALRM deadline around one request, nested inside the per-case alarm of mc.core.pmap (restored afterwards)."""

    def __enter__(self):
        import signal
        import time

        def handler(signum, frame):
            raise _RequestTimeout()

        self._t0 = time.time()
        self._old = signal.signal(signal.SIGALRM, handler)
        self._left = signal.alarm(REQUEST_TIMEOUT)
        return self

    def __exit__(self, *exc):
        import signal
        import time

        signal.alarm(0)
        signal.signal(signal.SIGALRM, self._old)
        if self._left:
            signal.alarm(max(1, int(self._left - (time.time() - self._t0))))
        return False


def one_request(cfg: dict, point: int, ins, outs):
    """Fresh disciplines + fresh MDA, one linearize.  -> (jac | None, observations, [(inv, msg)])."""
    oracle = _oracle(cfg["graph"], point, cfg.get("dt", "f64"))
    obs = {}
    try:
        with _guard():
            spec, bs, discs, mda = build_mda(cfg, xpoint(0, oracle.sizes))
            mda.add_differentiated_inputs(list(ins))
            mda.add_differentiated_outputs(list(outs))
            jac = mda.linearize({k: v.copy() for k, v in oracle.x.items()})
    except _RequestTimeout:
        obs["timeout"] = True
        return None, obs, [("linearize-terminates", f"no answer within {REQUEST_TIMEOUT} s (a request normally costs < 0.1 s)")]
    except Exception as e:
        if _is_breakdown(e, cfg):
            obs["breakdown"] = True
            return None, obs, []
        return None, obs, [("linearize-raises", f"{type(e).__name__}: {str(e)[:300]}")]
    obs["mda_residual"] = float(mda.normed_residual)
    obs["body_runs"] = [d.n_run for d in discs]
    obs["body_linearizations"] = [d.n_lin for d in discs]
    asm = mda.assembly.coupled_system
    obs["linear_resolutions"] = [asm.n_direct_modes, asm.n_adjoint_modes, asm.lu_fact, asm.n_linear_resolutions]
    bad, worst = check_jac(jac, oracle, ins, outs)
    obs["worst_error_over_bound"] = worst
    return jac, obs, bad


LANCZOS_TYPE = ("BICG", "BICGSTAB", "CGS", "TFQMR")


def _is_breakdown(e: Exception, cfg: dict) -> bool:
    """Oracle boundary.  The solvers built on the two-sided Lanczos recurrence break down (division by r~.r = 0) on
    legitimate systems - here whenever the right-hand side is an eigenvector of dR/dy^T (an upstream weakly coupled
    discipline: its row of dR/dy is -I) - and gemseo then raises RuntimeError("... illegal input or breakdown"): a
    loud "no result", not a wrong derivative.  Accepted for these four solvers only, and never with LU; the
    GMRES-type solvers (DEFAULT, LGMRES, GMRES, GCROT) of the same product must answer every request."""
    return (isinstance(e, RuntimeError) and "illegal input or breakdown" in str(e) and cfg.get("solver") in LANCZOS_TYPE
            and not cfg.get("lu"))


_ORACLES: dict = {}


def _oracle(graph, point, dt="f64") -> Oracle:
    key = (ALPHA["name"], graph, point if isinstance(point, int) else tuple(point), dt)
    if key not in _ORACLES:
        o = Oracle(graph, point, dt)
        spec = o.spec
        for fn in spec["req_out"]:  # harness self-check: formula == monolithic solve
            for x in spec["req_in"]:
                a, _ = o.total(fn, x)
                b = o.monolithic(fn, x)
                assert np.allclose(a, b, rtol=0, atol=1e-12), (graph, fn, x, a, b)
        if dt == "f64":  # harness self-check: solution() is a fixed point of every body (states: residual zero)
            sol = o.solution()
            for b in o.bodies:
                out = b.f({u: sol[u] for u in b.ins})
                for v in b.outs:
                    if v in sol:
                        assert np.allclose(out[v], sol[v], rtol=0, atol=1e-11), (graph, v, out[v], sol[v])
        _ORACLES[key] = o
    return _ORACLES[key]


def cfg_key(cfg):
    return tuple(cfg.get(k) for k in ("graph", "mda", "mode", "mtype", "lu", "solver", "rep", "fill", "inner", "dt"))


# ------------------------------------------------------------------------------------------------
# parts
# ------------------------------------------------------------------------------------------------
def _requests(cfg, which):
    spec = system_specs()[cfg["graph"]]
    if which == "all":  # simplest first: the kept witness of a signature is the smallest failing request
        subs_i = product.nonempty_subsets(spec["req_in"])
        subs_o = product.nonempty_subsets(spec["req_out"])
        reqs = [(list(i), list(o)) for i in subs_i for o in subs_o]
        return sorted(reqs, key=lambda r: len(r[0]) + len(r[1]))
    return [(list(i), list(o)) for i, o in which]


def part_product(case, tally):
    """One configuration x one input point: every (input subset, output subset), each on fresh objects."""
    cfg, point = case["cfg"], case["point"]
    oracle = _oracle(cfg["graph"], point, cfg.get("dt", "f64"))
    out = {"violations": [], "requests": []}
    reference = {}  # (o, i) -> (block, request) of the first request that returned it
    reqs = _requests(cfg, case.get("requests", "all"))
    for ins, outs in reqs:
        jac, obs, bad = one_request(cfg, point, ins, outs)
        shape = request_shape(cfg, ins, outs)
        first = None
        if jac is not None and not bad:
            for o in outs:
                for i in ins:
                    blk = _dense(jac[o][i])
                    if (o, i) not in reference:
                        reference[o, i] = (blk, [ins, outs])
                    else:
                        _, bound = oracle.total(o, i)
                        err = float(np.max(np.abs(blk - reference[o, i][0])))
                        if not err <= 2 * bound:
                            first = reference[o, i][1]
                            bad.append(("block-independent-of-request", f"d{o}/d{i} differs by {err:.3e} from the block of request {first} (2 x bound {2 * bound:.3e})"))
        for inv, msg in bad:
            sub = {**case, "requests": [[ins, outs]] if inv != "block-independent-of-request" else [first, [ins, outs]]}
            tally.violation(signature(inv, cfg, shape, msg), sub, f"{inv}: {msg}\n  config={cfg} point={point} inputs={ins} outputs={outs}")
            out["violations"].append({"invariant": inv, "inputs": ins, "outputs": outs, "message": msg})
        mode_used = "-"
        if obs.get("linear_resolutions"):
            d, a, lu, _ = obs["linear_resolutions"]
            mode_used = ("direct" if d else "adjoint" if a else "none") + ("+lu" if lu else "")
        tally.case((cfg_key(cfg), point, tuple(ins), tuple(outs)),
                   nontrivial=shape != "all",
                   outcome=f"{cfg['graph']}:{'solver-breakdown' if obs.get('breakdown') else 'raises' if jac is None else mode_used + (':conv' if obs.get('mda_residual', 1) <= MDA_TOL * 10 else ':notconv')}",
                   sample={"config": cfg, "point": point, "inputs": ins, "outputs": outs, **obs} if (len(ins), len(outs)) == (2, 2) and cfg["graph"] == "weakup" and cfg.get("mode") == "adjoint" else None)
        if obs.get("mda_residual", 0) > MDA_TOL * 10:
            tally.count("mda_not_converged")
        if obs.get("breakdown"):
            tally.count(f"lanczos_type_solver_breakdown_accepted:{cfg['graph']}:{cfg['solver']}")
        out["requests"].append({"inputs": ins, "outputs": outs, **obs,
                                "jacobian": None if jac is None else {o: {i: _dense(jac[o][i]).tolist() for i in jac[o]} for o in jac}})
        if obs.get("timeout"):  # the run is red already; do not spend REQUEST_TIMEOUT on each remaining request of this configuration
            tally.count("requests_skipped_after_a_timeout", len(reqs) - len(out["requests"]))
            break
    return out


PARTS = {"product": part_product}


def _case(case, tally):
    global ALPHA
    PARTS[case["part"]](case, tally)


# ------------------------------------------------------------------------------------------------
# histories: two requests on the SAME objects
# ------------------------------------------------------------------------------------------------
ALL = "ALL"  # linearize(compute_all_jacobians=True)
LIMITATION = "is both a coupling and a design variable"


def _all_outputs(oracle: Oracle):
    return [v for b in oracle.bodies for v in b.outs]


def _linearize_request(mda, oracle, req, x):
    """One request through the public discipline API.  -> (jac, ins, outs) of what must be returned."""
    if req == ALL:
        jac = mda.linearize({k: v.copy() for k, v in x.items()}, compute_all_jacobians=True)
        return jac, list(oracle.design), _all_outputs(oracle)
    ins, outs = req
    mda.add_differentiated_inputs(list(ins))
    mda.add_differentiated_outputs(list(outs))
    jac = mda.linearize({k: v.copy() for k, v in x.items()})
    return jac, None, None


def history_mda(cfg, points, r1, r2):
    """add_differentiated_*(r1); linearize(x_p); add_differentiated_*(r2); linearize(x_q) on one MDA object.
    The differentiated names of a discipline only grow, so the second answer must hold r1 | r2 (just r2 after ALL)."""
    p, q = points
    o1, o2 = _oracle(cfg["graph"], p), _oracle(cfg["graph"], q)
    bad, obs = [], {}
    try:
        spec, bs, discs, mda = build_mda(cfg, xpoint(0, o1.sizes))
    except Exception as e:
        return [("first", "linearize-raises", f"build: {type(e).__name__}: {e}")], obs
    acc_in, acc_out = [], []
    for step, (req, orc) in enumerate(((r1, o1), (r2, o2))):
        label = "first" if step == 0 else "second"
        try:
            with _guard():
                jac, ins, outs = _linearize_request(mda, orc, req, orc.x)
        except _RequestTimeout:
            bad.append((label, "linearize-terminates", f"no answer within {REQUEST_TIMEOUT} s"))
            obs["timeout"] = True
            return bad, obs
        except ValueError as e:
            if req == ALL and LIMITATION in str(e):  # oracle boundary, see the module docstring
                obs[label] = "documented-limitation"
                return bad, obs
            bad.append((label, "linearize-raises", f"ValueError: {str(e)[:300]}"))
            return bad, obs
        except Exception as e:
            bad.append((label, "linearize-raises", f"{type(e).__name__}: {str(e)[:300]}"))
            return bad, obs
        if req != ALL:
            acc_in += [i for i in req[0] if i not in acc_in]
            acc_out += [v for v in req[1] if v not in acc_out]
            ins, outs = list(acc_in), list(acc_out)
            exact = True
        else:
            exact = False  # which coupling inputs belong to "all inputs" is left open; design inputs are required
        b, worst = check_jac(jac, orc, ins, outs, exact_keys=exact)
        bad += [(label, inv, msg) for inv, msg in b]
        obs[label] = {"inputs": ins, "outputs": outs, "worst_error_over_bound": worst,
                      "body_linearizations": [d.n_lin for d in discs], "body_runs": [d.n_run for d in discs]}
    return bad, obs


def _assembly_call(mda, cfg, ins, outs):
    """JacobianAssembly.total_derivatives called the way BaseMDA._compute_jacobian documents it."""
    residual_variables = {}
    for d in mda.disciplines:
        residual_variables.update(d.io.residual_to_state_variable)
    couplings = sorted(set(mda.coupling_structure.all_couplings) - set(residual_variables) - set(residual_variables.values()))
    return mda.assembly.total_derivatives(
        mda.io.data, list(outs), list(ins), couplings, linear_solver=cfg.get("solver", "DEFAULT"), mode=cfg.get("mode", "auto"),
        matrix_type=cfg.get("mtype", "matrix"), use_lu_fact=bool(cfg.get("lu")), residual_variables=residual_variables, rtol=LIN_TOL)


def history_assembly(cfg, point, r1, r2):
    """One executed MDA; two successive requests (any two: a subset after a superset is possible here) handed to the
    public ``JacobianAssembly.total_derivatives`` of the MDA's assembly."""
    orc = _oracle(cfg["graph"], point, cfg.get("dt", "f64"))
    bad, obs = [], {}
    try:
        spec, bs, discs, mda = build_mda(cfg, xpoint(0, orc.sizes))
        mda.execute({k: v.copy() for k, v in orc.x.items()})
    except Exception as e:
        return [("first", "linearize-raises", f"build/execute: {type(e).__name__}: {e}")], obs
    for label, (ins, outs) in (("first", r1), ("second", r2)):
        try:
            with _guard():
                jac = _assembly_call(mda, cfg, ins, outs)
        except _RequestTimeout:
            bad.append((label, "linearize-terminates", f"no answer within {REQUEST_TIMEOUT} s"))
            obs["timeout"] = True
            return bad, obs
        except Exception as e:
            bad.append((label, "linearize-raises", f"{type(e).__name__}: {str(e)[:300]}"))
            return bad, obs
        b, worst = check_jac(jac, orc, ins, outs, exact_keys=True)
        bad += [(label, inv, msg) for inv, msg in b]
        obs[label] = {"inputs": ins, "outputs": outs, "worst_error_over_bound": worst}
    return bad, obs


def _rel(r1, r2):
    if r1 == ALL or r2 == ALL:
        return "all->subset" if r1 == ALL and r2 != ALL else "subset->all" if r2 == ALL and r1 != ALL else "all->all"
    a = {("i", x) for x in r1[0]} | {("o", x) for x in r1[1]}
    b = {("i", x) for x in r2[0]} | {("o", x) for x in r2[1]}
    if a == b:
        return "same"
    if a < b:
        return "subset->superset"
    if a > b:
        return "superset->subset"
    if not (a & b):
        return "disjoint"
    return "overlapping"


def history_requests(cfg, which):
    """The request alphabet of the histories: "full" = the 49 subsets (+ ALL); "reduced" = input subsets of size 1 and 3."""
    spec = system_specs()[cfg["graph"]]
    subs_i = product.nonempty_subsets(spec["req_in"])
    if which == "reduced":
        subs_i = [s for s in subs_i if len(s) in (1, len(spec["req_in"]))]
    subs_o = product.nonempty_subsets(spec["req_out"])
    return [[list(i), list(o)] for i in subs_i for o in subs_o]


def part_history(case, tally):
    cfg, level = case["cfg"], case["level"]
    r1 = case["r1"]
    seconds = case["r2"]
    if isinstance(seconds, str) and seconds in ("full", "reduced"):
        seconds = history_requests(cfg, seconds) + ([ALL] if level == "mda" else [])
    out = {"violations": [], "runs": []}
    for r2 in seconds:
        if level == "mda":
            bad, obs = history_mda(cfg, case["points"], r1, r2)
        else:
            bad, obs = history_assembly(cfg, case["points"][0], r1, r2)
        rel = _rel(r1, r2)
        for label, inv, msg in bad:
            shape = "second-request" if label == "second" else ("all" if r1 == ALL else request_shape(cfg, r1[0], r1[1]))
            sig = signature(inv, cfg, shape, msg)
            sig["level"] = level
            if label == "second":
                sig["relation"] = rel
            tally.violation(sig, {**case, "r2": [r2]}, f"{inv} ({label} request, {rel}, {level} level): {msg}\n  config={cfg} points={case['points']} r1={r1} r2={r2}")
            out["violations"].append({"invariant": inv, "request": label, "r1": r1, "r2": r2, "message": msg})
        first_lim = obs.get("first") == "documented-limitation" or obs.get("second") == "documented-limitation"
        if first_lim:
            tally.count("documented_limitation_coupling_and_design_variable")
        tally.case((cfg_key(cfg), level, tuple(case["points"]), repr(r1), repr(r2)), nontrivial=rel != "same",
                   outcome=f"{level}:{cfg['graph']}:{rel}:{'limitation' if first_lim else 'raises' if any(b[1] == 'linearize-raises' for b in bad) else 'ok' if not bad else 'bad'}",
                   sample={"config": cfg, "points": case["points"], "r1": r1, "r2": r2, **obs} if rel == "superset->subset" and cfg["graph"] == "weakdown" and len(r2[0]) == 1 and len(r2[1]) == 1 else None)
        out["runs"].append({"r1": r1, "r2": r2, "relation": rel, **{k: v for k, v in obs.items()}})
        if obs.get("timeout"):
            tally.count("requests_skipped_after_a_timeout", len(seconds) - len(out["runs"]))
            break
    return out


PARTS["history"] = part_history


# ------------------------------------------------------------------------------------------------
# cache-tolerance histories: successive linearizations of the SAME objects with different cache tolerances
# ------------------------------------------------------------------------------------------------
LOOSE_TOL = 1e-2  # exec_cache_tol of a "loose" step (assembly level); MDA level: lin_cache_tol_fact = LOOSE_TOL / MDA_TOL
TOLS = {"assembly": [None, 0.0, LOOSE_TOL], "mda": [0.0, LOOSE_TOL]}
MOVES = ["same", "near", "far"]  # the point of a step relative to the point of the previous step


def _move(point, move):
    b, n = point
    return [b, n] if move == "same" else [b, n + 1] if move == "near" else [1 - b, 0]


def cachetol_steps(level: str):
    return [[t, m] for t in TOLS[level] for m in MOVES]


def cachetol_histories(level: str, prefix, depth: int):
    """Every history of ``depth`` steps [tol, move] that starts with the steps of ``prefix`` (first step: [tol, "start"])."""
    import itertools

    return [[*map(list, prefix), *map(list, rest)] for rest in itertools.product(cachetol_steps(level), repeat=depth - len(prefix))]


def run_cachetol(cfg, level, start, request, history):
    """One history on fresh objects.  -> [per-step dict(checked, bad, point, ...)].

    Model of the documented semantics (what the oracle may rely on):
    * assembly level - ``exec_cache_tol``: "the discipline cache tolerance to [use] when calling the linearize method. If None,
      no tolerance is set": a number sets the tolerance of every discipline cache before the disciplines are executed and
      linearized at the given data, None leaves the caches as they are.  A step is CHECKED iff the tolerance in force
      during it is 0 (tol == 0.0, or None with no loose tolerance set since the objects were created / since the last 0.0).
    * MDA level - ``lin_cache_tol_fact`` ("the tolerance factor to cache the Jacobian", exec_cache_tol = factor * MDA
      tolerance, the disciplines are not re-executed when it is positive): the tolerance is put on the discipline caches
      when the MDA is *linearized*, i.e. after the MDA execution that precedes it.  A step is CHECKED iff its factor is 0,
      the previous step actually linearized with factor 0 (tolerance known to be 0 during the execution of this step) and
      the answer cannot be the one cached by the MDA for an unchecked step at the same point.
    Everything else (a step under a positive tolerance, the first step after a positive factor was set back to 0, an
    answer served again from the MDA cache) is the documented approximation: executed, must not raise, value not judged."""
    spec = system_specs()[cfg["graph"]]
    ins, outs = request
    steps = []
    _, _, discs, mda = build_mda(cfg, xpoint(0, spec["sizes"]))
    if level == "mda":
        mda.add_differentiated_inputs(list(ins))
        mda.add_differentiated_outputs(list(outs))
        residual_variables, couplings = {}, []
    else:
        residual_variables = {}
        for d in mda.disciplines:
            residual_variables.update(d.io.residual_to_state_variable)
        couplings = sorted(set(mda.coupling_structure.all_couplings) - set(residual_variables) - set(residual_variables.values()))
    point = [start, 0]
    state = 0.0          # tolerance known to be on the discipline caches (None = unknown)
    prev = None          # (point, checked) of the previous step
    for k, (tol, move) in enumerate(history):
        if k:
            point = _move(point, move)
        orc = _oracle(cfg["graph"], point)
        runs0 = [d.n_run for d in discs]
        rec = {"tol": tol, "move": move, "point": list(point), "bad": []}
        if level == "assembly":
            if tol is not None:
                state = tol
            checked = state == 0.0
        else:
            checked = tol == 0.0 and state == 0.0 and (prev is None or prev[0] != point or prev[1])
        try:
            with _guard():
                if level == "assembly":
                    jac = mda.assembly.total_derivatives(
                        orc.solution(), list(outs), list(ins), couplings, linear_solver=cfg.get("solver", "DEFAULT"),
                        mode=cfg.get("mode", "auto"), matrix_type=cfg.get("mtype", "matrix"), use_lu_fact=bool(cfg.get("lu")),
                        exec_cache_tol=tol, residual_variables=residual_variables, rtol=LIN_TOL)
                else:
                    mda.lin_cache_tol_fact = tol / MDA_TOL
                    jac = mda.linearize({k_: v.copy() for k_, v in orc.x.items()})
        except _RequestTimeout:
            rec["bad"].append(("linearize-terminates", f"no answer within {REQUEST_TIMEOUT} s"))
            rec["timeout"] = True
            steps.append(rec)
            break
        except Exception as e:
            rec["bad"].append(("linearize-raises", f"{type(e).__name__}: {str(e)[:300]}"))
            steps.append(rec)
            break
        if level == "mda":  # the tolerance the library is documented to leave on the discipline caches
            if tol != 0.0:
                state = tol
            elif prev is None or prev[0] != point:  # a new point: the MDA cannot answer from its own cache, it linearizes
                state = 0.0
            # factor 0 at the point of the previous step: the MDA may answer from its cache without linearizing -> unchanged
        rec["checked"] = checked
        rec["disciplines_executed"] = [a - b for a, b in zip([d.n_run for d in discs], runs0)]
        if checked:
            b, worst = check_jac(jac, orc, ins, outs)
            rec["bad"] += b
            rec["worst_error_over_bound"] = worst
        prev = (list(point), checked)
        steps.append(rec)
    return steps


def _tol_label(t):
    return "none" if t is None else "zero" if t == 0.0 else "loose"


def part_cachetol(case, tally):
    cfg, level, start = case["cfg"], case["level"], case["start"]
    spec = system_specs()[cfg["graph"]]
    request = case.get("request") or [spec["req_in"], spec["req_out"]]
    histories = case.get("histories") or cachetol_histories(level, case["prefix"], case["depth"])
    out = {"violations": [], "runs": []}
    for history in histories:
        try:
            steps = run_cachetol(cfg, level, start, request, history)
        except Exception as e:
            steps = [{"tol": history[0][0], "move": "start", "point": [start, 0], "bad": [("linearize-raises", f"build: {type(e).__name__}: {str(e)[:300]}")]}]
        loose_before = False  # a positive tolerance was used by an earlier step
        for k, rec in enumerate(steps):
            prefix = history[:k + 1]
            label = "->".join(f"{_tol_label(t)}:{m}" for t, m in prefix)
            # the step is a non-trivial check when a loose tolerance was in force earlier and the point is a neighbour of
            # the previous one: an approximate cache hit is possible if the tolerance was not reset
            nontrivial = bool(rec.get("checked")) and loose_before and rec["move"] in ("near", "same")
            for inv, msg in rec["bad"]:
                sig = signature(inv, cfg, "cache-tolerance-history", msg)
                sig.update(level=level, step=f"tolerance {_tol_label(rec['tol'])}, {rec['move']} point" + (", after a loose tolerance" if loose_before else ""))
                tally.violation(sig, {**case, "histories": [prefix]},
                                f"{inv} (step {k + 1} of the history {label}, {level} level): {msg}\n  config={cfg} start={start} request={request} "
                                f"history={prefix} [tolerance, point relative to the previous step]")
                out["violations"].append({"invariant": inv, "history": prefix, "message": msg})
            executed = rec.get("disciplines_executed")
            hit = "-" if executed is None else "no-discipline-run" if not any(executed) else "some-disciplines-run" if not all(executed) else "all-run"
            tally.case((cfg_key(cfg), level, start, repr(request), repr(prefix)), nontrivial=nontrivial,
                       outcome=f"cachetol:{level}:{_tol_label(rec['tol'])}:{rec['move']}:{'after-loose' if loose_before else 'clean'}:"
                               f"{'bad' if rec['bad'] else 'checked-ok' if rec.get('checked') else 'not-judged'}:{hit}",
                       sample={"config": cfg, "level": level, "history": prefix, "steps": steps[:k + 1]} if nontrivial and cfg["graph"] == "weakup" and k == 2 and rec["move"] == "near" else None)
            if not rec.get("checked") and not rec["bad"]:
                tally.count("cachetol_steps_not_judged_documented_approximation")
            loose_before = loose_before or (rec["tol"] not in (None, 0.0))
        out["runs"].append({"history": history, "steps": steps})
        if any(r.get("timeout") for r in steps):
            tally.count("requests_skipped_after_a_timeout", len(histories) - len(out["runs"]))
            break
    return out


PARTS["cachetol"] = part_cachetol


# ------------------------------------------------------------------------------------------------
# dtype axis: the disciplines declare their Jacobian blocks as int64 / float32 / a mix per block
# ------------------------------------------------------------------------------------------------
DTYPES = ["int/F", "int/Rx", "int/R", "int/all", "f32/all", "f32/F", "f32/R"]
#   int/F   non-coupling outputs have integer coefficients: dF/dy, dF/dx are int64 arrays, dR/dy, dR/dx float64
#   int/Rx  the couplings depend on the design variables through integer blocks: dR/dx int64, the rest float64
#   int/R   every block of the residual system is int64 (dR/dy, dR/dx), dF/. float64        [Newton MDA: no contraction]
#   int/all everything int64                                                                  [Newton MDA]
#   f32/all | f32/F | f32/R   float32 everywhere | for dF/. only | for the residual rows only


def dtype_calls(cfg, which="all"):
    """Ordered requests for ``JacobianAssembly.total_derivatives``: one output, two outputs in both orders; all design
    inputs, the first one alone ("reduced": the single input only with a single output)."""
    import itertools

    spec = system_specs()[cfg["graph"]]
    singles = [[o] for o in spec["req_out"]]
    pairs = [list(p) for p in itertools.permutations(spec["req_out"], 2)]
    all_in, one_in = list(spec["req_in"]), spec["req_in"][:1]
    calls = [[one_in, o] for o in singles] + [[all_in, o] for o in singles + pairs]
    if which == "all":
        calls += [[one_in, o] for o in pairs]
    return calls


def part_dtype(case, tally):
    """One configuration x one declared-dtype policy: every ordered request, each on fresh objects, through the assembly
    (``Discipline.linearize`` does not keep the order of the outputs; the assembly processes the functions in the order given,
    re-using one LinearProblem for all the right-hand sides of a call)."""
    cfg, point = case["cfg"], case["point"]
    orc = _oracle(cfg["graph"], point, cfg["dt"])
    calls = dtype_calls(cfg, case["calls"]) if case.get("calls", "all") in ("all", "reduced") else case["calls"]
    out = {"violations": [], "calls": []}
    for ins, outs in calls:
        bad, obs, jac = [], {}, None
        try:
            with _guard():
                spec, bs, discs, mda = build_mda(cfg, xpoint(0, orc.sizes))
                mda.execute({k: v.copy() for k, v in orc.x.items()})
                obs["mda_residual"] = float(mda.normed_residual)
                jac = _assembly_call(mda, cfg, ins, outs)
        except _RequestTimeout:
            bad.append(("linearize-terminates", f"no answer within {REQUEST_TIMEOUT} s"))
            obs["timeout"] = True
        except Exception as e:
            if _is_breakdown(e, cfg):
                obs["breakdown"] = True
            else:
                bad.append(("linearize-raises", f"{type(e).__name__}: {str(e)[:300]}"))
        if jac is not None:
            b, worst = check_jac(jac, orc, ins, outs)
            bad += b
            obs["worst_error_over_bound"] = worst
            obs["block_dtypes"] = sorted({str(getattr(jac[o][i], "dtype", "?")) for o in outs for i in ins if o in jac and i in jac[o]})
        shape = ("one-output" if len(outs) == 1 else "two-outputs-ordered") + ("" if len(ins) > 1 else ",one-input")
        for inv, msg in bad:
            sig = signature(inv, cfg, shape, msg)
            sig.update(dtype=cfg["dt"], rep=cfg.get("rep", "dense"), level="assembly")
            tally.violation(sig, {**case, "calls": [[ins, outs]]}, f"{inv}: {msg}\n  config={cfg} point={point} inputs={ins} outputs(ordered)={outs}")
            out["violations"].append({"invariant": inv, "inputs": ins, "outputs": outs, "message": msg})
        tally.case((cfg_key(cfg), point, tuple(ins), tuple(outs), "dtype"), nontrivial=True,
                   outcome=f"dtype:{cfg['dt']}:{cfg.get('rep', 'dense')}:{'breakdown' if obs.get('breakdown') else 'raises' if jac is None else 'ok' if not bad else 'bad'}"
                           f":{'conv' if obs.get('mda_residual', 1) <= MDA_TOL * 10 else 'notconv'}",
                   sample={"config": cfg, "inputs": ins, "outputs": outs, **obs} if cfg["graph"] == "selfc" and cfg["dt"] == "int/all" and cfg.get("mode") == "adjoint" and len(outs) == 2 and len(ins) > 1 and outs[0] == "fa" else None)
        if obs.get("breakdown"):
            tally.count(f"lanczos_type_solver_breakdown_accepted:{cfg['graph']}:{cfg['solver']}")
        out["calls"].append({"inputs": ins, "outputs": outs, **obs,
                             "jacobian": None if jac is None else {o: {i: _dense(jac[o][i]).tolist() for i in jac[o]} for o in jac}})
        if obs.get("timeout"):
            tally.count("requests_skipped_after_a_timeout", len(calls) - len(out["calls"]))
            break
    return out


PARTS["dtype"] = part_dtype


# ------------------------------------------------------------------------------------------------
# enumeration
# ------------------------------------------------------------------------------------------------
MODES = ["auto", "direct", "adjoint"]
DEFAULT_KIND = "MDAGaussSeidel"


def linear_configs(solvers, lu_solvers):
    """mode x (matrix | matrix+LU | linear operator) x solver; LU only with the sparse matrix (gemseo refuses the other)."""
    out = []
    for mode in MODES:
        for mtype, lu in (("matrix", False), ("linear_operator", False), ("matrix", True)):
            for solver in (lu_solvers if lu else solvers):
                out.append({"mode": mode, "mtype": mtype, "lu": lu, "solver": solver})
    return out


def cases(thorough: bool, solvers: list):
    """Simplest first: default kind / default solver / full3 come first in every loop."""
    default_lin = linear_configs(["DEFAULT"], ["DEFAULT"])
    nolu_lin = [c for c in default_lin if not c["lu"]]
    full_lin = linear_configs(solvers, solvers if thorough else ["DEFAULT"])
    kinds = [DEFAULT_KIND] + [k for k in MDA_KINDS if k != DEFAULT_KIND]
    others = kinds[1:]
    seen = set()

    def emit(cfg, point):
        key = (cfg_key(cfg), point)
        if key in seen:
            return None
        seen.add(key)
        return {"part": "product", "cfg": cfg, "point": point, "requests": "all"}

    # A. the full product  graph x mode x matrix type x LU x solver x (input subset x output subset)  [x point x MDA kind]
    for kind in (kinds if thorough else [DEFAULT_KIND]):
        for point in ((0, 1) if thorough and kind == DEFAULT_KIND else (0,)):
            for lin in full_lin:
                for graph in GRAPHS:
                    c = emit({"graph": graph, "mda": kind, **lin}, point)
                    if c:
                        yield c
    # B. the second point (default kind, quick) and the other MDA kinds at the second point, default solver
    for kind, lins in [(DEFAULT_KIND, default_lin)] + [(k, default_lin if thorough else nolu_lin) for k in others]:
        for lin in lins:
            for graph in GRAPHS:
                c = emit({"graph": graph, "mda": kind, **lin}, 1)
                if c:
                    yield c
    # C. representation of the disciplines' partial Jacobians (dense | CSR | JacobianOperator) and disciplines that fill
    #    every block whatever is requested
    for rep, fill in (("csr", "requested"), ("operator", "requested"), ("dense", "all")):
        for kind in (kinds if thorough else [DEFAULT_KIND]):
            for lin in (default_lin if thorough else nolu_lin if fill == "requested" else [c for c in nolu_lin if c["mtype"] == "matrix"]):
                for graph in GRAPHS:
                    c = emit({"graph": graph, "mda": kind, **lin, "rep": rep, "fill": fill}, 1)
                    if c:
                        yield c
    # D. histories on one object, default configuration
    dflt = {"mode": "auto", "mtype": "matrix", "lu": False, "solver": "DEFAULT"}
    for kind in (kinds if thorough else [DEFAULT_KIND]):
        alphabet = "full" if thorough and kind == DEFAULT_KIND else "reduced"
        for graph in GRAPHS:
            cfg = {"graph": graph, "mda": kind, **dflt}
            for points in (([0, 1], [1, 1]) if kind == DEFAULT_KIND else ([0, 1],)):  # new point | same point (cache hit of the MDA)
                for r1 in history_requests(cfg, alphabet) + [ALL]:
                    yield {"part": "history", "level": "mda", "cfg": cfg, "points": points, "r1": r1, "r2": alphabet}
    for kind, modes in ([(DEFAULT_KIND, MODES), ("MDAChain", ["auto"])] if thorough else [(DEFAULT_KIND, ["auto"])]):
        alphabet = "full" if thorough else "reduced"
        for graph in GRAPHS:
            for mode in modes:
                cfg = {"graph": graph, "mda": kind, **dflt, "mode": mode}
                for r1 in history_requests(cfg, alphabet):
                    yield {"part": "history", "level": "assembly", "cfg": cfg, "points": [1, 1], "r1": r1, "r2": alphabet}


def extra_cases(thorough: bool, solvers: list):
    """F. the graphs of EXTRA_GRAPHS (a discipline with a state equation that belongs to no strongly coupled group) in the
    same products, crossed with fewer of the other axes in the quick tier:
      quick     MDAGaussSeidel x mode x {matrix, linear operator, matrix + LU} at the default solver, point 0; every other MDA
                kind x {direct + matrix, adjoint + linear operator}, point 1 - all 49 requests each
      thorough  MDAGaussSeidel x the GMRES-type solvers x both points; the other kinds x mode x matrix type x LU; the three
                representations of the partials; the request histories at both levels (reduced request alphabet)."""
    default_lin = linear_configs(["DEFAULT"], ["DEFAULT"])
    two_lin = [{"mode": "direct", "mtype": "matrix", "lu": False, "solver": "DEFAULT"},
               {"mode": "adjoint", "mtype": "linear_operator", "lu": False, "solver": "DEFAULT"}]
    # Oracle boundary: three of these graphs have the upstream weakly coupled discipline of ``weakup`` (rows -I: the right-hand
    # sides are eigenvectors of dR/dy^T), on which the solvers built on the two-sided Lanczos recurrence break down
    # (RuntimeError, accepted on weakup) or - with the state block in front - stagnate: scipy.sparse.linalg.cgs applied by the
    # harness to its own dense dR/dy of resweakup returns info = 1000 with a relative residual 0.3, gemseo logs "The linear
    # solver CGS did not converge" and hands the iterate over.  A limitation of those methods on these matrices (as in the
    # dtype part): the graphs of this part are crossed with the GMRES-type solvers only, the six first graphs keep the full
    # solver product.
    gmres_type = [s_ for s_ in solvers if s_ not in LANCZOS_TYPE]
    full_lin = linear_configs(gmres_type, gmres_type)
    dflt = {"mode": "auto", "mtype": "matrix", "lu": False, "solver": "DEFAULT"}

    def kinds_of(graph):
        ks = EXTRA_KINDS.get(graph, MDA_KINDS)
        return [DEFAULT_KIND] + [k for k in ks if k != DEFAULT_KIND]

    for point in ((0, 1) if thorough else (0,)):
        for lin in (full_lin if thorough else default_lin):
            for graph in EXTRA_GRAPHS:
                yield {"part": "product", "cfg": {"graph": graph, "mda": DEFAULT_KIND, **lin}, "point": point, "requests": "all"}
    for lin in (default_lin if thorough else two_lin):
        for graph in EXTRA_GRAPHS:
            for kind in kinds_of(graph)[1:]:
                yield {"part": "product", "cfg": {"graph": graph, "mda": kind, **lin}, "point": 1, "requests": "all"}
    if not thorough:
        return
    for rep, fill in (("csr", "requested"), ("operator", "requested"), ("dense", "all")):
        for lin in default_lin:
            for graph in EXTRA_GRAPHS:
                yield {"part": "product", "cfg": {"graph": graph, "mda": DEFAULT_KIND, **lin, "rep": rep, "fill": fill}, "point": 1, "requests": "all"}
    for graph in EXTRA_GRAPHS:
        cfg = {"graph": graph, "mda": DEFAULT_KIND, **dflt}
        for points in ([0, 1], [1, 1]):
            for r1 in history_requests(cfg, "reduced") + [ALL]:
                yield {"part": "history", "level": "mda", "cfg": cfg, "points": points, "r1": r1, "r2": "reduced"}
        for r1 in history_requests(cfg, "reduced"):
            yield {"part": "history", "level": "assembly", "cfg": cfg, "points": [1, 1], "r1": r1, "r2": "reduced"}


CACHETOL_KINDS = ["MDAGaussSeidel", "MDAJacobi", "MDANewtonRaphson", "MDAChain"]
CACHETOL_QUICK3 = ["full3", "selfc", "ressolved", "resweakup"]  # quick tier: 3-step assembly-level histories on these graphs, 2-step on the others
#   MDAChain(chain_linearize=True) composes the Jacobians of its inner MDAs by the chain rule and never reads its own
#   lin_cache_tol_fact: not a configuration of this part.


def cachetol_cases(thorough: bool):
    """G. histories of linearizations with different cache tolerances on the same objects (see ``run_cachetol``).
      assembly level  steps [exec_cache_tol in {None, 0.0, LOOSE_TOL}] x [point: same | neighbour | far]: every history of
                      3 steps on the graphs of CACHETOL_QUICK3 and of 2 steps on the others (thorough: 3 steps everywhere,
                      4 steps for the default configuration on the first six graphs; 2 more linear configurations, a
                      one-input one-output request, both start points)
      MDA level       steps [lin_cache_tol_fact in {0, LOOSE_TOL / tolerance}] x [point]: every history of 3 steps for
                      MDAGaussSeidel on every graph, and after a loose first step for the 3 other kinds on two graphs
                      (thorough: 4 steps for MDAGaussSeidel, 3 steps for the other kinds, every graph)
    One case record = the histories that share their first step (first two steps when there are 4)."""
    dflt = {"mode": "auto", "mtype": "matrix", "lu": False, "solver": "DEFAULT"}
    lins = [dflt] + ([{"mode": "direct", "mtype": "linear_operator", "lu": False, "solver": "DEFAULT"},
                      {"mode": "adjoint", "mtype": "matrix", "lu": True, "solver": "DEFAULT"}] if thorough else [])

    def records(level, cfg, start, depth, request=None, firsts=None):
        for first in (TOLS[level][::-1] if firsts is None else firsts):  # loose first: the shortest failing history is met first
            prefixes = [[[first, "start"]]] if depth <= 3 else [[[first, "start"], st] for st in cachetol_steps(level)]
            for prefix in prefixes:
                c = {"part": "cachetol", "level": level, "cfg": cfg, "start": start, "prefix": prefix, "depth": depth}
                if request:
                    c["request"] = request
                yield c

    for graph in ALL_GRAPHS:
        spec = system_specs()[graph]
        for lin in lins:
            cfg = {"graph": graph, "mda": DEFAULT_KIND, **lin}
            yield from records("assembly", cfg, 0, (4 if lin is dflt and graph in GRAPHS else 3) if thorough else 3 if graph in CACHETOL_QUICK3 else 2)
            if thorough:
                yield from records("assembly", cfg, 1, 3)
                if lin is dflt:
                    yield from records("assembly", cfg, 0, 3, request=[spec["req_in"][:1], spec["req_out"][-1:]])
    for kind in (CACHETOL_KINDS if thorough else [DEFAULT_KIND]):
        for graph in ALL_GRAPHS:
            if kind in EXTRA_KINDS.get(graph, MDA_KINDS):
                yield from records("mda", {"graph": graph, "mda": kind, **dflt}, 0, 4 if thorough and kind == DEFAULT_KIND else 3)
    if not thorough:  # the other kinds on one strongly coupled graph and one graph with a weakly coupled state discipline
        for kind in CACHETOL_KINDS[1:]:
            for graph in ("full3", "resweakup"):
                yield from records("mda", {"graph": graph, "mda": kind, **dflt}, 0, 3, firsts=[LOOSE_TOL])


DTYPE_GRAPHS_QUICK = ["weakdown", "selfc", "ressolved"]  # a function reading every coupling (all-integer dF/dy row) | -I branches | states


def dtype_cases(thorough: bool, solvers: list):
    """E. declared dtype of the disciplines' Jacobian blocks x {dense, CSR} x mode x matrix type x LU, ordered requests."""
    for dt in DTYPES:
        kind = "MDANewtonRaphson" if dt in ("int/R", "int/all") else DEFAULT_KIND  # integer couplings: no contraction
        for rep in ("dense", "csr"):
            # Oracle boundary: the integer-coefficient systems of this part make the (near-)breakdowns of the two-sided Lanczos
            # recurrence generic (r~.r = 0 exactly): BICG / BICGSTAB / CGS / TFQMR then stagnate or return NaN on a 5 x 5
            # system with kappa 5, gemseo logs "The linear solver ... did not converge", and the very same numbers come out
            # when the same blocks are declared as float64 (checked) - a limitation of those methods on these matrices, not
            # a dtype effect.  The dtype axis is therefore crossed with the GMRES-type solvers only; the float systems of
            # part A keep the full solver product.
            dsolvers = [s for s in solvers if s not in LANCZOS_TYPE]
            for lin in linear_configs(dsolvers if thorough else ["DEFAULT"], ["DEFAULT"]):
                for graph in (GRAPHS if thorough else DTYPE_GRAPHS_QUICK):
                    yield {"part": "dtype", "cfg": {"graph": graph, "mda": kind, **lin, "rep": rep, "dt": dt}, "point": 1,
                           "calls": "all" if thorough else "reduced"}


def run(ctx):
    global ALPHA
    ALPHA = ctx.pick(ALPHABETS)
    g = _gemseo()
    only = getattr(ctx, "only", None)
    todo = [c for c in [*cases(ctx.thorough, g["solvers"]), *dtype_cases(ctx.thorough, g["solvers"]),
                        *extra_cases(ctx.thorough, g["solvers"]), *cachetol_cases(ctx.thorough)]
            if not only or only in (c["part"], c.get("level"), c["cfg"]["graph"], c["cfg"]["mda"], c["cfg"].get("dt"))]
    counts = {}
    for c in todo:
        k = c["part"] + (":" + c["level"] if "level" in c else "")
        counts[k] = counts.get(k, 0) + 1
    t = ctx.tally
    t.notes["case_records"] = counts
    t.notes["linear_solvers"] = {"enumerated": g["solvers"], "excluded_need_symmetric_positive_definite": g["excluded_solvers"]}
    t.notes["graphs"] = {gr: {"kappa_2(dR/dy)": round(_oracle(gr, 0).kappa, 3), "n_y": _oracle(gr, 0).ny, "y": _oracle(gr, 0).y} for gr in ALL_GRAPHS}
    t.notes["alphabet"] = ALPHA["name"]
    pmap(_case, todo, t, jobs=ctx.jobs, chunk=2, timeout=600)
    classes = {}
    for v in t.violations.values():
        sg = v["signature"]
        k = f"{sg.get('invariant')}|{sg.get('graph')}"
        classes[k] = classes.get(k, 0) + v["count"]
    t.notes["violations_by_invariant_and_graph"] = classes
    return {
        "level": LEVEL,
        "rule": "E2 full product: coupling graph (6) x linearization mode (3) x {sparse matrix, sparse matrix + LU, linear operator} x linear "
        "solver (every factory algorithm that accepts a non-symmetric system) x every non-empty subset of 3 design inputs x every non-empty "
        "subset of 3 outputs (a coupling / self-coupling / state among them), each request on fresh disciplines and a fresh MDA"
        + (" x 5 MDA kinds (x 2 input points for the default kind; second point with the default solver for the others); 3 representations of "
           "the disciplines' Jacobians x 5 kinds x mode x matrix type x LU" if ctx.thorough else "; the second input point, the 4 other MDA kinds, 3 representations of the "
           "disciplines' Jacobians are crossed with mode x matrix type x LU at the default solver")
        + "; declared dtype of the partials (7 policies: int64 / float32 / mixed per block) x {dense, CSR} x mode x matrix type x LU x ordered "
        "one- and two-output requests through JacobianAssembly.total_derivatives"
        + "; histories: every ordered pair of requests on the same MDA object through the discipline API (cumulative requests + "
        "compute_all_jacobians) and through JacobianAssembly.total_derivatives (arbitrary pairs)"
        + "; 4 more graphs whose discipline with a residual / state pair belongs to no strongly coupled group (upstream of a coupled pair, "
        "downstream of it, no coupled pair at all, state equation left to the MDA) x "
        + ("the GMRES-type solvers x 2 points for MDAGaussSeidel, mode x matrix type x LU for the other kinds, 3 representations of the partials, "
           "request histories" if ctx.thorough else "mode x {matrix, linear operator, matrix + LU} for MDAGaussSeidel and {direct + matrix, adjoint + linear "
           "operator} for the other kinds")
        + " x the 49 requests; cache-tolerance histories on the same objects: every sequence of "
        + ("3-4" if ctx.thorough else "2-3") + " steps [exec_cache_tol in {None, 0, 1e-2}] x [same point | neighbour at 1e-3 | far point] through "
        "JacobianAssembly.total_derivatives and of " + ("3-4" if ctx.thorough else "3") + " steps [lin_cache_tol_fact in {0, 1e-2 / tolerance}] x [point] through "
        "mda.linearize, every step that runs under a zero tolerance compared with the closed form at ITS point.  A case is non-trivial when the "
        "request is a strict subset or contains a coupling (product), when the two requests differ (request histories), when a zero-tolerance "
        "step follows a loose one at the same point or a neighbour (cache-tolerance histories)",
        "exhaustive": True,
        "bounds": {"graphs": GRAPHS, "graphs_with_a_weakly_coupled_state_discipline": EXTRA_GRAPHS, "disciplines": "2-3",
                   "cache_tolerance_histories": {"loose_tolerance": LOOSE_TOL, "neighbour_relative_step": NEAR,
                                                 "mda_kinds": CACHETOL_KINDS if ctx.thorough else [DEFAULT_KIND, "the 3 others after a loose first step on full3 and resweakup"],
                                                 "steps": "3-4" if ctx.thorough else "assembly level: 3 on %s, 2 on the other graphs; MDA level: 3" % CACHETOL_QUICK3}, "sizes": {"y": ALPHA["ysz"], "x": ALPHA["xsz"], "f": ALPHA["fsz"]},
                   "dtype_policies": DTYPES, "dtype_graphs": GRAPHS if ctx.thorough else DTYPE_GRAPHS_QUICK,
                   "linear_solver_tolerance": LIN_TOL, "mda_tolerance": MDA_TOL, "mda_kinds": MDA_KINDS,
                   "history_request_alphabet": "49 subsets (+ ALL), every ordered pair, for the default MDA kind; input subsets of size 1 and 3 for the other kinds" if ctx.thorough
                   else "input subsets of size 1 and 3 x 7 output subsets (+ ALL at the discipline API): 29 x 29 and 28 x 28 ordered pairs per graph"},
        "assumptions": [
            "systems affine in the couplings / states (dR/dy constant, kappa_2 <= 3) and quadratic in the design variables; three value alphabets "
            "(sizes, gains, points) rotated by VERIF_SEED; structural axes exhaustive, values not",
            "tolerance (100 t + 1000 eps kappa) ||dF/dy|| ||dR/dy^-1|| ||dR/dx|| with t = linear_solver_tolerance = 1e-12 (derivation in the module docstring)",
            "CG excluded (needs a symmetric positive definite matrix); inputs are design variables only (a coupling as differentiation variable is "
            "refused by gemseo with a documented ValueError); MDANewtonRaphson on the two weak graphs goes through MDAChain(inner_mda_name=MDANewtonRaphson)",
            "linearize(compute_all_jacobians=True): a ValueError 'is both a coupling and a design variable' is accepted (MDAJacobi keeps the weak "
            "couplings among its inputs) and counted in coverage.documented_limitation_coupling_and_design_variable",
            "cache-tolerance histories: a step executed under a positive cache tolerance (exec_cache_tol > 0, lin_cache_tol_fact > 0, None after a "
            "positive one), the first MDA-level step after the factor is set back to 0 (its MDA execution still runs under the tolerance left on the "
            "discipline caches, which the linearization resets afterwards) and an answer served again from the MDA's own cache for such a step are the "
            "documented approximation: executed, must not raise, values not judged (counted in cachetol_steps_not_judged_documented_approximation)",
            "resweakmda (weakly coupled discipline whose state equation is left to the MDA) is enumerated with MDAGaussSeidel and MDAJacobi only: "
            "MDAChain executes a weakly coupled discipline once and MDANewtonRaphson refuses weak couplings, so no converged solution exists there",
            "execution-statistics counters are process-local during the exploration (module-level name Value of gemseo.core.execution_statistics "
            "rebound; replay uses the real one)",
        ],
    }


def replay(case, ctx):
    global ALPHA, FAST_STATISTICS
    ALPHA = ctx.pick(ALPHABETS)
    FAST_STATISTICS = False
    t = Tally()
    obs = PARTS[case["part"]](case, t)
    obs["case"] = case
    obs.setdefault("violations", [])
    for v in t.violations.values():
        if not any(v["signature"]["invariant"].split(":")[0] == o.get("invariant") for o in obs["violations"]):
            obs["violations"].append({"invariant": v["signature"]["invariant"], "message": v["message"]})
    return obs
