"""C05 - discipline caches are transparent (engine E1).

Part H  BFS over histories of execute / linearize / in-place-modified caller arrays / defaults-only / reopen on harness
        disciplines with known ground truth and body-run counters, for every cache policy x tolerance.
Part S  every shipped discipline class that can be built without arguments and has an analytic Jacobian, driven by
        {execute(d), execute(1.07 d), linearize(d), linearize(1.07 d)} to depth 3 with a full cache, against an uncached
        twin running the same history (the differential oracle of the statement).
"""
from __future__ import annotations

import itertools
import time
import os

import numpy as np

from mc import explore
from mc.core import Tally, pmap
from mc.explore import Rejected

LEVEL = "model_checking"
TOL = 1e-6

VALSETS = [
    {"v1": ([1.0], [2.0, 3.0]), "v2": ([-1.0], [0.5, 3.0]), "v1e": ([1.0 + 1e-9], [2.0, 3.0])},
    {"v1": ([0.5], [-2.0, 1.0]), "v2": ([2.0], [-2.0, 1.0]), "v1e": ([0.5], [-2.0, 1.0 + 2e-9])},
    {"v1": ([3.0], [1.0, 1.0]), "v2": ([3.0], [1.0, 4.0]), "v1e": ([3.0 - 1e-9], [1.0, 1.0])},
]
VALS = VALSETS[0]
DEFAULT = ([0.0], [1.0, 1.0])

POLICIES = [("none", 0.0), ("simple", 0.0), ("simple", TOL), ("memF", 0.0), ("memF", TOL), ("memT", 0.0), ("hdf", 0.0), ("hdf", TOL)]


def F(a, b):
    return {"y": np.array([a[0] ** 2 + 3 * b[0] * b[1]]), "z": np.array([a[0] * b[0], b[1] - a[0]])}


def J(a, b):
    return {"y": {"a": np.array([[2 * a[0]]]), "b": np.array([[3 * b[1], 3 * b[0]]])}, "z": {"a": np.array([[b[0]], [-1.0]]), "b": np.array([[a[0], 0.0], [0.0, 1.0]])}}


def _disc_cls(sparse, selfc, inplace=False, fd=False):
    from gemseo.core.discipline import Discipline
    from scipy.sparse import csr_array

    class D(Discipline):
        def __init__(self):
            super().__init__(name="D")
            if fd:  # the Jacobian is approximated: the body runs at perturbed points, which pass through the cache
                self.linearization_mode = self.LinearizationMode.FINITE_DIFFERENCES
            self.input_grammar.update_from_names(["a", "b"])
            self.output_grammar.update_from_names(["y", "z"] + (["b"] if selfc else []))
            self.default_input_data = {"a": np.array(DEFAULT[0]), "b": np.array(DEFAULT[1])}
            self.runs = []
            self.jruns = 0

        def _run(self, input_data):
            a, b = input_data["a"], input_data["b"]
            self.runs.append((tuple(a.tolist()), tuple(b.tolist())))
            out = F(a, b)
            if selfc and inplace:
                b *= 0.5  # the body updates its self-coupled input array in place (as a solver would) ...
                b += 1.0
                out["b"] = b  # ... and returns it
            elif selfc:
                out["b"] = b * 0.5 + 1.0  # self-coupled variable: the output overwrites the input
            return out

        def _compute_jacobian(self, input_names=(), output_names=()):
            self.jruns += 1
            jac = J(self.io.data["a"], self.io.data["b"]) if not selfc else J(self.io.data["a"], (self.io.data["b"] - 1.0) / 0.5)
            if selfc:
                jac["b"] = {"a": np.zeros((2, 1)), "b": 0.5 * np.eye(2)}
            if sparse:
                jac = {o: {i: csr_array(m) for i, m in r.items()} for o, r in jac.items()}
            self.jac = jac

    return D


_COUNTER = itertools.count()


class World:
    """The discipline under a cache policy + the harness bookkeeping (what the caller did so far)."""

    def __init__(self, policy, variant, scratch):
        self.policy, self.variant = policy, variant
        self.sparse, self.selfc = variant == "sparse", variant in ("selfc", "selfc_inplace")
        self.fd = variant == "fd"
        self.d = _disc_cls(self.sparse, self.selfc, variant == "selfc_inplace", self.fd)()
        self.last_b = None
        self.last_out = None  # the data returned by the last execution (the caller may modify its arrays)
        self.h5 = os.path.join(scratch, f"c05_{os.getpid()}_{next(_COUNTER)}.h5")
        self._set_cache()
        self.shared = {"a": np.array([9.0]), "b": np.array([9.0, 9.0])}
        self.seen = []  # input values the discipline was asked about, in order
        self.problems = []

    def _set_cache(self):
        d, (kind, tol) = self.d, self.policy
        if kind == "none":
            d.set_cache(d.CacheType.NONE)
        elif kind == "simple":
            d.set_cache(d.CacheType.SIMPLE, tolerance=tol)
        elif kind == "memF":
            d.set_cache(d.CacheType.MEMORY_FULL, tolerance=tol, is_memory_shared=False)
        elif kind == "memT":
            d.set_cache(d.CacheType.MEMORY_FULL, tolerance=tol, is_memory_shared=True)
        elif kind == "hdf":
            d.set_cache(d.CacheType.HDF5, tolerance=tol, hdf_file_path=self.h5, hdf_node_path="grp/node")

    def __del__(self):
        if self.policy[0] == "hdf":
            try:
                from gemseo.utils.singleton import SingleInstancePerFileAttribute

                for k in [k for k in SingleInstancePerFileAttribute.instances if k[1] == os.path.realpath(self.h5)]:
                    SingleInstancePerFileAttribute.instances.pop(k, None)
                if os.path.exists(self.h5):
                    os.remove(self.h5)
            except Exception:
                pass


V0 = ([1.0], [0.0, 3.0])


def _val(name):
    return V0 if name == "v0" else VALS[name]


def _dense(m):
    return np.asarray(m.todense()) if hasattr(m, "todense") else np.asarray(m)


class Spec:
    def __init__(self, policy, variant, scratch):
        self.policy, self.variant, self.scratch = policy, variant, scratch
        self.full = policy[0] in ("memF", "memT", "hdf")

    def starts(self):
        return [["start", self.policy[0], self.policy[1], self.variant]]

    def build(self, hist):
        w = World(self.policy, self.variant, self.scratch)
        for op in hist[1:]:
            try:
                self._apply(w, op, check=False)
            except Exception:
                pass
        return w

    def enabled(self, w, hist):
        ops = []
        inplace = self.variant == "selfc_inplace"  # its body modifies the arrays it is given: only fresh arrays are passed
        if self.variant == "sparse":
            # a point with zero components: its sparse Jacobian blocks have an empty trailing column / are empty
            ops += [["exec", "v0"], ["lin_all", "v0"]]
        if w.last_out is not None and not self.variant.startswith("selfc"):
            # the caller modifies in place the input arrays found in the data returned by the last call, and calls again
            ops += [["exec_ret", v] for v in list(VALS)[:2]]
        for v in VALS:
            ops += [["exec", v]] + ([] if inplace else [["exec_alias", v]])
            if self.variant == "fd":
                ops += [["lin_all", v], ["lin_alias", v]]
            elif not self.variant.startswith("selfc"):
                ops += [["lin_all", v], ["lin_sub", v]]
                if self.variant == "dense":
                    ops.append(["lin_alias", v])  # linearize through the caller's reused arrays
        if not inplace:
            ops.append(["exec_default"])
        if self.variant.startswith("selfc") and w.last_b is not None:
            ops.append(["exec_prev_out"])  # feed the self-coupled output back as the next input (fixed-point use)
        if self.policy[0] == "hdf":
            ops.append(["reopen"])
        return ops

    def apply(self, w, op):
        try:
            return self._apply(w, op, check=True)
        except Rejected:
            raise
        except Exception as e:  # a legal call on a cached discipline must behave like the uncached one: it never raises here
            w.problems.append(("operation-raises", f"{op}: {type(e).__name__}: {str(e)[:300]}"))
            return "raised"

    def _apply(self, w, op, check):
        d, tol = w.d, self.policy[1]
        kind = op[0]
        if kind == "reopen":
            n_runs = len(d.runs)
            w._set_cache()  # a new cache object on the same file / node
            if check:
                # every previously stored entry is served without running the body
                for a, b in {(tuple(x), tuple(y)) for x, y in w.seen}:
                    out = d.execute({"a": np.array(a), "b": np.array(b)})
                    if not self._admissible(w, np.array(a), np.array(b), lambda ca, cb: self._out_ok(out, ca, cb)):
                        w.problems.append(("reopened-cache-wrong-output", f"{dict(out)} for a={a} b={b}"))
                if tol == 0.0 and len(d.runs) != n_runs:
                    w.problems.append(("reopened-cache-lost-entries", f"body ran {len(d.runs) - n_runs} time(s) for inputs stored before the cache was reopened"))
            return "reopen"
        if kind == "exec_default":
            a, b = np.array(DEFAULT[0]), np.array(DEFAULT[1])
            data = {}
        elif kind == "exec_ret":
            a, b = (np.array(x) for x in _val(op[1]))
            arr_a, arr_b = w.last_out["a"], w.last_out["b"]
            if not (isinstance(arr_a, np.ndarray) and isinstance(arr_b, np.ndarray) and arr_a.flags.writeable and arr_b.flags.writeable):
                raise Rejected("returned input arrays are not writeable")
            arr_a[:] = a
            arr_b[:] = b
            data = {"a": arr_a, "b": arr_b}
        elif kind == "exec_prev_out":
            a, b = np.array(w.seen[-1][0]), np.array(w.last_b)
            data = {"a": a.copy(), "b": b.copy()}
        else:
            a, b = (np.array(x) for x in _val(op[1]))
            if kind in ("exec_alias", "lin_alias"):
                w.shared["a"][:] = a
                w.shared["b"][:] = b
                data = {"a": w.shared["a"], "b": w.shared["b"]}
            else:
                data = {"a": a.copy(), "b": b.copy()}
        if kind in ("exec", "exec_alias", "exec_default", "exec_prev_out", "exec_ret"):
            out = d.execute(data)
            # only after a call that was given the CALLER's arrays are the returned input arrays the caller's to modify
            # (after a defaults-only call they are the discipline's own default arrays)
            w.last_out = out if kind in ("exec", "exec_alias", "exec_ret") else None
            if self.variant.startswith("selfc"):
                w.last_b = tuple(np.asarray(out["b"]).tolist())
            if check and not self._admissible(w, a, b, lambda ca, cb: self._out_ok(out, ca, cb)):
                w.problems.append(("wrong-output", f"execute(a={a.tolist()}, b={b.tolist()}) returned { {k: np.asarray(v).tolist() for k, v in out.items() if k in ('y', 'z', 'b')} }; exact value {self._truth(a, b)}"))
            outcome = "exec"
        else:
            if kind == "lin_sub":
                d.add_differentiated_inputs(["a"])
                d.add_differentiated_outputs(["y"])
                jac = d.linearize(data)
                pairs = [("y", "a")]
            else:
                jac = d.linearize(data, compute_all_jacobians=True)
                pairs = [(o, i) for o in ("y", "z") for i in ("a", "b")]

            # finite differences (default step 1e-7) of the quadratic F: truncation <= step/2 * max|F''| = 3e-7 * 3,
            # rounding <= 4 eps |F| / step ~ 1e-7; Jacobians of two different alphabet points differ by >= 0.5
            jtol = 1e-5 if w.fd else 0.0

            def chk(ca, cb):
                ref = J(ca, cb)
                try:
                    return all(np.allclose(_dense(jac[o][i]), ref[o][i], rtol=0, atol=jtol) for o, i in pairs)
                except KeyError:
                    return False

            if check and not self._admissible(w, a, b, chk):
                w.problems.append(("wrong-jacobian", f"linearize(a={a.tolist()}, b={b.tolist()}) returned { {o: {i: _dense(v).tolist() for i, v in r.items()} for o, r in jac.items()} }"))
            outcome = "lin"
        w.seen.append((tuple(a.tolist()), tuple(b.tolist())))
        return outcome

    def _truth(self, a, b):
        out = {k: v.tolist() for k, v in F(a, b).items()}
        if self.variant.startswith("selfc"):
            out["b"] = (b * 0.5 + 1.0).tolist()
        return out

    def _out_ok(self, out, ca, cb):
        exp = F(ca, cb)
        if self.variant.startswith("selfc"):
            exp["b"] = cb * 0.5 + 1.0
        return all(k in out and np.array_equal(np.asarray(out[k]), v) for k, v in exp.items())

    def _admissible(self, w, a, b, ok):
        tol = self.policy[1]
        cands = [(a, b)]
        if tol:
            # (fd variant: the perturbed points at which the approximation ran the body are previously seen inputs too)
            for sa, sb in list(w.seen) + (list(w.d.runs) if w.fd else []):
                sa, sb = np.array(sa), np.array(sb)
                if np.linalg.norm(np.concatenate([sa - a, sb - b])) <= 10 * tol * (1 + np.linalg.norm(np.concatenate([a, b]))):
                    cands.append((sa, sb))
        return any(ok(ca, cb) for ca, cb in cands)

    def check(self, w, hist):
        out = []
        last = hist[-1][0]
        base = {"policy": self.policy[0], "tolerance": self.policy[1] > 0, "variant": self.variant}
        for inv, msg in w.problems:
            out.append(({"invariant": inv, **base, "op": last}, f"{inv}: {msg}\n  history={hist}"))
        w.problems = []
        d, tol = w.d, self.policy[1]
        if w.fd:
            return out  # perturbed points are legitimately executed and stored: the run / entry counts say nothing here
        if self.full and tol == 0.0:
            distinct = set(w.seen)
            if len(d.runs) > len(distinct):
                out.append(({"invariant": "body-ran-more-than-once-per-input", **base}, f"body ran {len(d.runs)} times for {len(distinct)} distinct inputs; runs={d.runs}\n  history={hist}"))
        if self.full and len(d.cache) > 0:  # (iterating an *empty* HDF5 cache raises AssertionError in keep_open; not part of the statement)
            try:
                entries = list(d.cache.get_all_entries())
            except Exception as e:
                out.append(({"invariant": "cache-entries-unreadable", **base}, f"{type(e).__name__}: {e}\n  history={hist}"))
                entries = []
            if tol == 0.0 and len(entries) != len(set(w.seen)):
                out.append(({"invariant": "cache-entry-count", **base}, f"{len(entries)} entries for {len(set(w.seen))} distinct inputs\n  history={hist}"))
            for e in entries:
                if e.outputs:
                    ea, eb = np.asarray(e.inputs["a"]), np.asarray(e.inputs["b"])
                    if self.variant.startswith("selfc"):
                        continue  # stored inputs of a self-coupled name are the pre-run values; covered by wrong-output
                    exp = F(ea, eb)
                    if not all(np.allclose(e.outputs[k], exp[k], rtol=0, atol=(1e-4 if tol else 0)) for k in exp):
                        out.append(({"invariant": "cache-entry-pairs-input-with-another-inputs-output", **base},
                                    f"entry inputs={ {k: np.asarray(v).tolist() for k, v in e.inputs.items()} } outputs={ {k: np.asarray(v).tolist() for k, v in e.outputs.items()} } exact={ {k: v.tolist() for k, v in exp.items()} }\n  history={hist}"))
                        break
                if e.jacobian and not self.variant.startswith("selfc"):
                    ea, eb = np.asarray(e.inputs["a"]), np.asarray(e.inputs["b"])
                    ref = J(ea, eb)
                    wrong = [(o, i) for o, r in e.jacobian.items() for i, m in r.items() if not np.allclose(_dense(m), ref[o][i], rtol=0, atol=(1e-4 if tol else 0))]
                    if wrong:
                        out.append(({"invariant": "cache-entry-holds-another-inputs-jacobian", **base},
                                    f"entry inputs={ {k: np.asarray(v).tolist() for k, v in e.inputs.items()} } stores d{wrong[0][0]}/d{wrong[0][1]}={_dense(e.jacobian[wrong[0][0]][wrong[0][1]]).tolist()} exact={ref[wrong[0][0]][wrong[0][1]].tolist()}\n  history={hist}"))
                        break
        return out

    def canon(self, w):
        d = w.d
        ent = []
        if self.full and len(d.cache) > 0:
            try:
                for e in d.cache.get_all_entries():
                    ent.append((tuple((k, np.asarray(v).tobytes()) for k, v in sorted(e.inputs.items())),
                                tuple((k, np.asarray(v).tobytes()) for k, v in sorted((e.outputs or {}).items())),
                                tuple(sorted((o, i) for o, r in (e.jacobian or {}).items() for i in r))))
            except Exception:
                ent.append("unreadable")
        elif self.policy[0] == "simple":
            le = d.cache.last_entry
            ent.append((tuple((k, np.asarray(v).tobytes()) for k, v in sorted(le.inputs.items())), tuple(sorted(le.outputs)), tuple(sorted(le.jacobian))))
        return (
            tuple(ent),
            tuple((k, np.asarray(v).tobytes()) for k, v in sorted(d.io.data.items()) if isinstance(v, np.ndarray)),
            tuple(sorted((o, i) for o, r in (d.jac or {}).items() for i in r)),
            tuple(sorted(d._differentiated_input_names)) if hasattr(d, "_differentiated_input_names") else (),
            tuple(sorted(d._differentiated_output_names)) if hasattr(d, "_differentiated_output_names") else (),
            w.shared["a"].tobytes(), w.shared["b"].tobytes(), w.last_b, w.last_out is not None,
            tuple(sorted(set(w.seen))), len(d.runs),
        )

    def nontrivial(self, hist):
        vals = [op[1] if len(op) > 1 else "default" for op in hist[1:] if op[0] != "reopen"]
        return len(vals) != len(set(vals)) or any(op[0] in ("exec_alias", "lin_alias", "reopen") for op in hist[1:])


# ---- part S: shipped disciplines against an uncached twin ------------------------------------------
SKIP_SHIPPED = {"Discipline", "MDOChain", "MDOParallelChain", "MDOAdditiveChain", "MDOWarmStartedChain", "MDOInitializationChain"}


def shipped_classes():
    from gemseo.disciplines.factory import DisciplineFactory

    import time

    f = DisciplineFactory()
    out = []
    for name in sorted(f.class_names):
        if name in SKIP_SHIPPED:
            continue
        try:
            t0 = time.time()
            d = f.create(name)
            if not d.io.input_grammar or not d.default_input_data:
                continue
            d.execute()
            d.linearize(compute_all_jacobians=True)
            if d._linearization_mode not in (d.LinearizationMode.AUTO,) and "finite" in str(d._linearization_mode).lower():
                continue
            out.append((name, time.time() - t0 > 0.4))  # (class, slow?)
        except Exception:
            continue
    return out


def _scaled(d, s):
    out = {}
    for k, v in d.default_input_data.items():
        if isinstance(v, np.ndarray) and v.dtype.kind == "f":
            out[k] = v * s
        else:
            out[k] = v
    return out


def _shipped_case(case, tally):
    from gemseo.disciplines.factory import DisciplineFactory

    name, hist, cache = case["cls"], case["hist"], case["cache"]
    f = DisciplineFactory()
    d, twin = f.create(name), f.create(name)
    twin.set_cache(twin.CacheType.NONE)
    if cache == "memF":
        d.set_cache(d.CacheType.MEMORY_FULL, is_memory_shared=False)
    else:
        d.set_cache(d.CacheType.SIMPLE)
    bad = None
    for step, (kind, s) in enumerate(hist):
        x1, x2 = _scaled(d, s), _scaled(twin, s)
        try:
            if kind == "exec":
                o1, o2 = d.execute(x1), twin.execute(x2)
                for k in twin.io.output_grammar:
                    a, b = o1.get(k), o2.get(k)
                    if isinstance(b, np.ndarray) and not (isinstance(a, np.ndarray) and a.shape == b.shape and np.allclose(a, b, rtol=1e-12, atol=1e-12, equal_nan=True)):
                        bad = ("shipped-wrong-output", f"step {step} {kind}({s}): output {k}: cached {a} vs uncached {b}")
                        break
            else:
                j1, j2 = d.linearize(x1, compute_all_jacobians=True), twin.linearize(x2, compute_all_jacobians=True)
                for o, r in j2.items():
                    for i, m in r.items():
                        a, b = _dense(j1[o][i]), _dense(m)
                        if a.shape != b.shape or not np.allclose(a, b, rtol=1e-10, atol=1e-12, equal_nan=True):
                            bad = ("shipped-wrong-jacobian", f"step {step} {kind}({s}): d{o}/d{i}: max abs difference {np.max(np.abs(a - b)) if a.shape == b.shape else 'shape'} between cached and uncached twin")
                            break
                    if bad:
                        break
        except Exception as e:
            bad = ("shipped-cached-raises", f"step {step} {kind}({s}): {type(e).__name__}: {str(e)[:200]}")
        if bad:
            break
    tally.case(("S", name, cache, tuple(map(tuple, hist))), nontrivial=len({s for _, s in hist}) > 1, outcome=f"shipped:{'bad' if bad else 'ok'}")
    tally.traces += 1
    tally.transitions += len(hist)
    if bad:
        tally.violation({"invariant": bad[0], "cls": name, "cache": cache}, case, f"{bad[0]}: {name} with {cache} cache, history {hist}: {bad[1]}")


# ---- part K: inputs whose arrays have identical bytes (equal hashes) but are different inputs -----------------------
K_FORMS = {
    "flat": lambda: np.array([2.0, 3.0]),
    # (oracle boundary: compare_dict_of_arrays deliberately identifies a (1, n) array with the (n,) one, so a "row" form
    #  is by design the same input as "flat" and is not part of the alphabet)
    "col": lambda: np.array([[2.0], [3.0]]),
    "cplx": lambda: np.array([2.0 + 3.0j]),  # one complex number = the bytes of two floats
    "other": lambda: np.array([3.0, 2.0]),
}


def _k_cls():
    from gemseo.core.discipline import Discipline

    class K(Discipline):
        """y = a0 * sum(b, axis=0): a plain reduction whose value and shape depend on the shape / type of b."""

        default_grammar_type = Discipline.GrammarType.SIMPLE

        def __init__(self):
            super().__init__(name="K")
            self.input_grammar.update_from_names(["a", "b"])
            self.output_grammar.update_from_names(["y"])
            self.default_input_data = {"a": np.array([1.0]), "b": np.array([1.0, 1.0])}
            self.n = 0

        def _run(self, input_data):
            self.n += 1
            return {"y": np.atleast_1d(input_data["b"].sum(axis=0)) * input_data["a"][0]}

    return K


def _k_case(case, tally):
    kind, hist = case["cache"], case["hist"]
    d = _k_cls()()
    h5 = os.path.join(case["scratch"], f"c05k_{os.getpid()}_{next(_COUNTER)}.h5")
    if kind == "memF":
        d.set_cache(d.CacheType.MEMORY_FULL, is_memory_shared=False)
    elif kind == "memT":
        d.set_cache(d.CacheType.MEMORY_FULL, is_memory_shared=True)
    elif kind == "hdf":
        d.set_cache(d.CacheType.HDF5, hdf_file_path=h5, hdf_node_path="k")
    else:
        d.set_cache(d.CacheType.SIMPLE)
    bad = None
    try:
        for step, form in enumerate(hist):
            b = K_FORMS[form]()
            exp = np.atleast_1d(b.sum(axis=0)) * 2.0
            try:
                got = np.asarray(d.execute({"a": np.array([2.0]), "b": b})["y"])
            except Exception as e:
                bad = ("colliding-input-raises", f"step {step} ({form}): {type(e).__name__}: {str(e)[:200]}")
                break
            if got.shape != exp.shape or not np.array_equal(got, exp):
                bad = ("colliding-input-served-another-inputs-output", f"step {step}: b={b.tolist()} (shape {b.shape}, {b.dtype}) returned y={got.tolist()}, the body gives {exp.tolist()}")
                break
        # (oracle boundary: the HDF5 file deliberately keeps the real part of complex data (caches.utils.to_real), so a complex
        #  input is never found again there; its outputs are recomputed, which is what is checked above)
        if bad is None and kind != "simple" and not (kind == "hdf" and "cplx" in hist) and d.n > len(set(hist)):
            bad = ("body-ran-more-than-once-per-input", f"{d.n} runs for {len(set(hist))} distinct inputs")
    finally:
        if kind == "hdf":
            from gemseo.utils.singleton import SingleInstancePerFileAttribute

            for k in [k for k in SingleInstancePerFileAttribute.instances if k[1] == os.path.realpath(h5)]:
                SingleInstancePerFileAttribute.instances.pop(k, None)
            if os.path.exists(h5):
                os.remove(h5)
    tally.case(("K", kind, tuple(hist)), nontrivial=len(set(hist) - {"other"}) > 1, outcome=f"K:{kind}:runs={d.n}:{'bad' if bad else 'ok'}")
    tally.traces += 1
    tally.transitions += len(hist)
    if bad:
        tally.violation({"invariant": bad[0], "part": "K", "policy": kind}, {k: v for k, v in case.items() if k != "scratch"}, f"{bad[0]}: {kind} cache, history {hist}: {bad[1]}")


# ---- part N: inputs with non-finite components (a failed upstream computation) -----------------------------------
N_FORMS = {"p": [1.0, 2.0], "q": [3.0, 2.0], "nan0": [float("nan"), 2.0], "nan1": [3.0, float("nan")], "inf": [float("inf"), 2.0]}


def _n_cls():
    from gemseo.core.discipline import Discipline

    class N(Discipline):
        def __init__(self):
            super().__init__(name="N")
            self.input_grammar.update_from_names(["a"])
            self.output_grammar.update_from_names(["y"])
            self.default_input_data = {"a": np.array([0.0, 0.0])}
            self.n = 0

        def _run(self, input_data):
            self.n += 1
            return {"y": 2.0 * input_data["a"] + 1.0}

    return N


def _n_case(case, tally):
    (kind, tol), hist = case["policy"], case["hist"]
    d = _n_cls()()
    h5 = os.path.join(case["scratch"], f"c05n_{os.getpid()}_{next(_COUNTER)}.h5")
    if kind == "memF":
        d.set_cache(d.CacheType.MEMORY_FULL, tolerance=tol, is_memory_shared=False)
    elif kind == "hdf":
        d.set_cache(d.CacheType.HDF5, tolerance=tol, hdf_file_path=h5, hdf_node_path="n")
    else:
        d.set_cache(d.CacheType.SIMPLE, tolerance=tol)
    bad = None
    try:
        for step, form in enumerate(hist):
            a = np.array(N_FORMS[form])
            exp = 2.0 * a + 1.0
            try:
                got = np.asarray(d.execute({"a": a.copy()})["y"])
            except Exception as e:
                bad = ("non-finite-input-raises", f"step {step} ({form}): {type(e).__name__}: {str(e)[:200]}")
                break
            # no alphabet value is within the tolerance of another one, and a NaN is within the tolerance of nothing:
            # the outputs are those of the body on that very input
            if got.shape != exp.shape or not np.array_equal(got, exp, equal_nan=True):
                bad = ("non-finite-input-served-another-inputs-output", f"step {step}: a={a.tolist()} returned y={got.tolist()}, the body gives {exp.tolist()}")
                break
        finite = [f for f in hist if f in ("p", "q")]
        if bad is None and kind != "simple" and set(hist) <= {"p", "q"} and d.n > len(set(finite)):
            bad = ("body-ran-more-than-once-per-input", f"{d.n} runs for {len(set(finite))} distinct inputs")
    finally:
        if kind == "hdf":
            from gemseo.utils.singleton import SingleInstancePerFileAttribute

            for k in [k for k in SingleInstancePerFileAttribute.instances if k[1] == os.path.realpath(h5)]:
                SingleInstancePerFileAttribute.instances.pop(k, None)
            if os.path.exists(h5):
                os.remove(h5)
    tally.case(("N", kind, tol, tuple(hist)), nontrivial=any(f not in ("p", "q") for f in hist) and len(hist) > 1, outcome=f"N:{kind}:tol={tol > 0}:{'bad' if bad else 'ok'}")
    tally.traces += 1
    tally.transitions += len(hist)
    if bad:
        tally.violation({"invariant": bad[0], "part": "N", "policy": kind, "tolerance": tol > 0}, {k: v for k, v in case.items() if k != "scratch"}, f"{bad[0]}: {kind} cache tolerance={tol}, history {hist}: {bad[1]}")


def _run_policy(policy, variant, depth, scratch, jobs):
    t = Tally()
    spec = Spec(tuple(policy), variant, scratch)
    info = explore.bfs(spec, depth, t, jobs=jobs)
    return t, info


def run(ctx):
    global VALS
    VALS = ctx.pick(VALSETS)
    tally = ctx.tally
    only = ctx.only or "HSKN"
    bounds = {}
    if "H" in only:
        for policy in POLICIES:
            variants = ["dense", "sparse", "selfc", "selfc_inplace", "fd"] if policy[0] in ("simple", "memF") or ctx.thorough else (["dense", "sparse", "selfc_inplace"] if policy[0] == "hdf" else ["dense", "selfc_inplace"])
            for variant in variants:
                slow = policy[0] in ("memT", "hdf")
                depth = (3 if slow else 4) if ctx.thorough else (2 if slow else 3)
                if variant != "dense" and not ctx.thorough:
                    depth = min(depth, 2) if variant == "sparse" else depth
                spec = Spec(policy, variant, ctx.scratch)
                t = Tally()
                t0 = time.time()
                info = explore.bfs(spec, depth, t, jobs=ctx.jobs)
                bounds[f"{policy[0]}/tol={policy[1]}/{variant}"] = {"depth": depth, "states": t.states, "transitions": t.transitions, "seconds": round(time.time() - t0, 1)}
                tally.merge(t)
    if "K" in only:
        forms = list(K_FORMS)
        cases = [{"part": "K", "cache": c, "hist": list(h), "scratch": ctx.scratch} for c in ("memF", "memT", "hdf", "simple")
                 for L in ((1, 2, 3, 4) if ctx.thorough else (1, 2, 3)) for h in itertools.product(forms, repeat=L)]
        pmap(_k_case, cases, tally, jobs=ctx.jobs, chunk=25, timeout=300)
        bounds["K"] = {"forms": forms, "max_length": 4 if ctx.thorough else 3, "histories": len(cases)}
    if "N" in only:
        forms = list(N_FORMS)
        cases = [{"part": "N", "policy": list(pol), "hist": list(h), "scratch": ctx.scratch}
                 for pol in (("simple", 0.0), ("simple", TOL), ("memF", 0.0), ("memF", TOL), ("hdf", 0.0), ("hdf", TOL))
                 for L in ((1, 2, 3, 4) if ctx.thorough else (1, 2, 3)) for h in itertools.product(forms, repeat=L)]
        pmap(_n_case, cases, tally, jobs=ctx.jobs, chunk=25, timeout=300)
        bounds["N"] = {"forms": forms, "max_length": 4 if ctx.thorough else 3, "histories": len(cases)}
    if "S" in only:
        names = shipped_classes()
        tally.notes["shipped_disciplines"] = [n for n, _ in names]
        tally.notes["shipped_disciplines_limited_depth"] = [n for n, slow in names if slow]
        ops = [("exec", 1.0), ("exec", 1.07), ("lin", 1.0), ("lin", 1.07)]
        cases = []
        for name, slow in names:
            for cache in ("memF", "simple"):
                for L in (1, 2, 3):
                    if slow and L > (2 if ctx.thorough else 1):  # large topology-optimization disciplines (seconds per call)
                        continue
                    for h in itertools.product(ops, repeat=L):
                        if cache == "simple" and L == 3 and not ctx.thorough:
                            continue
                        cases.append({"part": "S", "cls": name, "cache": cache, "hist": [list(o) for o in h]})
        pmap(_shipped_case, cases, tally, jobs=ctx.jobs, chunk=40, timeout=300)
    return {
        "level": LEVEL,
        "rule": "H: BFS over histories of execute / execute-through-reused-arrays / defaults-only / linearize(all|subset) / reopen for each cache policy; "
        "non-trivial = a repeated input value, an in-place modified caller array or a reopen; S: every history of <= 3 operations over 4 operations on each shipped discipline, "
        "non-trivial = two different inputs in the history; K: every history of <= 3 (thorough 4) executions over 4 input forms of which 3 have identical bytes "
        "(flat, column, complex) on exact-matching caches, non-trivial = two byte-identical forms in the history; "
        "N: every history of <= 3 (4) executions over 5 inputs of which 3 have a NaN or infinite component, exact and tolerance-based caches, non-trivial = a non-finite input after another input",
        "exhaustive": True,
        "bounds": bounds,
        "assumptions": ["value alphabet: 3 inputs (one within the tolerance of another) + defaults; 3 alphabets rotated by VERIF_SEED",
                        "shipped disciplines: those the factory builds without arguments and that execute and linearize on their defaults"],
    }


def replay(case, ctx):
    t = Tally()
    if case.get("part") == "S":
        _shipped_case(case, t)
        return {"violations": [v["message"] for v in t.violations.values()]}
    if case.get("part") == "N":
        _n_case(dict(case, scratch=ctx.scratch), t)
        return {"violations": [v["message"] for v in t.violations.values()]}
    if case.get("part") == "K":
        _k_case(dict(case, scratch=ctx.scratch), t)
        return {"violations": [v["message"] for v in t.violations.values()]}
    hist = case["history"]
    _, kind, tol, variant = hist[0]
    spec = Spec((kind, tol), variant, ctx.scratch)
    w = World((kind, tol), variant, ctx.scratch)
    msgs = []
    for i, op in enumerate(hist[1:]):
        spec._apply(w, op, check=True)
        msgs += [f"{inv}: {m}" for sig, m in spec.check(w, hist[: i + 2]) for inv in [sig["invariant"]]]
    return {"runs": w.d.runs, "violations": msgs}
