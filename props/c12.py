"""C12 - a crashed run leaves a loadable prefix backup and restarts without rework (engine E4).

For every configuration (scenario kind x algorithm x backup granularity x normalization) an uninterrupted reference
run is logged (database snapshot + number of discipline executions started, at every store / new-iteration event).
Then, for EVERY crash point k = 1..K (process death by os._exit inside the k-th discipline execution) the backup file
is inspected against the reference log, a fresh process restarts with load=True (logged the same way), and - "file
already containing earlier data" - for every second crash point k2 of that restart the same is done again.
"""
from __future__ import annotations

import os
import shutil

import numpy as np

from mc import crash
from mc.core import pmap, pmap_raw

LEVEL = "fault_enumeration"
H = {"n": 0, "crash_at": None, "pts": []}  # harness state of the current process


def _tick(x):
    H["n"] += 1
    H["pts"].append([float(v) for v in np.asarray(x).real.ravel()])
    if H["crash_at"] == H["n"]:
        os._exit(crash.CRASH_CODE)


def _classes(shift):
    from gemseo.core.discipline import Discipline

    a, b = 1.0 + shift, 2.0 - shift

    class D(Discipline):
        def __init__(self):
            super().__init__(name="D")
            self.input_grammar.update_from_names(["x"])
            self.output_grammar.update_from_names(["f", "g"])
            self.default_input_data = {"x": np.array([0.0, 0.0])}

        def _run(self, input_data):
            x = input_data["x"]
            _tick(x)
            return {"f": np.array([(x[0] - a) ** 2 + (x[1] - b) ** 2]), "g": np.array([x[0] + x[1] - 2.0])}

        def _compute_jacobian(self, input_names=(), output_names=()):
            x = self.io.data["x"]
            self.jac = {"f": {"x": np.array([[2 * (x[0] - a), 2 * (x[1] - b)]])}, "g": {"x": np.array([[1.0, 1.0]])}}

    class DV(Discipline):
        """Vector-valued objective y (size 2) and scalar constraint c: in the HDF file y is an array and c a scalar."""

        def __init__(self):
            super().__init__(name="DV")
            self.input_grammar.update_from_names(["x"])
            self.output_grammar.update_from_names(["y", "c"])
            self.default_input_data = {"x": np.array([0.0, 0.0])}

        def _run(self, input_data):
            x = input_data["x"]
            _tick(x)
            return {"y": np.array([x[0] + 2 * x[1] + a, x[0] * x[1] - b]), "c": np.array([x[0] ** 2 - x[1] - 1.5])}

    class D1(Discipline):
        def __init__(self):
            super().__init__(name="D1")
            self.input_grammar.update_from_names(["x", "y2"])
            self.output_grammar.update_from_names(["y1", "f"])
            self.default_input_data = {"x": np.array([0.0, 0.0]), "y2": np.array([0.0])}

        def _run(self, input_data):
            x, y2 = input_data["x"], input_data["y2"]
            _tick(x)
            y1 = 0.3 * y2 + x[0] - 0.5 * x[1]
            return {"y1": y1, "f": np.array([(x[0] - a) ** 2 + (x[1] - b) ** 2 + 0.1 * y1[0] ** 2])}

        def _compute_jacobian(self, input_names=(), output_names=()):
            x, y2 = self.io.data["x"], self.io.data["y2"]
            y1 = 0.3 * y2 + x[0] - 0.5 * x[1]
            self.jac = {
                "y1": {"x": np.array([[1.0, -0.5]]), "y2": np.array([[0.3]])},
                "f": {"x": np.array([[2 * (x[0] - a) + 0.2 * y1[0], 2 * (x[1] - b) - 0.1 * y1[0]]]), "y2": np.array([[0.06 * y1[0]]])},
            }

    class D2(Discipline):
        def __init__(self):
            super().__init__(name="D2")
            self.input_grammar.update_from_names(["x", "y1"])
            self.output_grammar.update_from_names(["y2", "g"])
            self.default_input_data = {"x": np.array([0.0, 0.0]), "y1": np.array([0.0])}

        def _run(self, input_data):
            x, y1 = input_data["x"], input_data["y1"]
            _tick(x)
            y2 = -0.2 * y1 + 0.5 * x[1]
            return {"y2": y2, "g": np.array([x[0] + x[1] - 2.0 + 0.1 * y2[0]])}

        def _compute_jacobian(self, input_names=(), output_names=()):
            self.jac = {
                "y2": {"x": np.array([[0.0, 0.5]]), "y1": np.array([[-0.2]])},
                "g": {"x": np.array([[1.0, 1.05]]), "y1": np.array([[-0.02]])},
            }

    return D, D1, D2, DV


CUSTOM_SAMPLES = [[0.0, 0.0], [1.0, 2.0], [-2.0, 3.0], [1.0, 1.0], [4.0, -3.0], [0.5, 1.5]]


def build(cfg, path, load):
    from gemseo import create_design_space, create_scenario

    D, D1, D2, DV = _classes(cfg["shift"])
    ds = create_design_space()
    ds.add_variable("x", 2, lower_bound=-5.0, upper_bound=5.0, value=np.array([0.0, 0.0]))
    kind = "DOE" if cfg["scen"].startswith("DOE") else "MDO"
    if "IDF" in cfg["scen"]:
        # IDF: the couplings are design variables, every discipline is executed separately for its own functions,
        # and an observable is computed by its own discipline execution
        ds.add_variable("y1", 1, lower_bound=-10.0, upper_bound=10.0, value=np.array([0.5]))
        ds.add_variable("y2", 1, lower_bound=-10.0, upper_bound=10.0, value=np.array([0.25]))
        s = create_scenario([D1(), D2()], "f", ds, formulation_name="IDF", scenario_type=kind)
        s.add_observable("g")
        s.set_optimization_history_backup(path, load=load, at_each_iteration=cfg["mode"] == "iteration", at_each_function_call=cfg["mode"] == "call")
        return s
    if "MDF" in cfg["scen"]:
        s = create_scenario([D1(), D2()], "f", ds, formulation_name="MDF", scenario_type=kind, main_mda_name="MDAGaussSeidel",
                            main_mda_settings={"tolerance": 1e-12, "max_mda_iter": 30})
    elif "Vec" in cfg["scen"]:
        s = create_scenario([DV()], "y", ds, formulation_name="DisciplinaryOpt", scenario_type=kind)
        s.add_constraint("c", constraint_type="ineq")
    else:
        s = create_scenario([D()], "f", ds, formulation_name="DisciplinaryOpt", scenario_type=kind)
    if "Vec" not in cfg["scen"]:
        s.add_constraint("g", constraint_type="ineq")
    s.set_optimization_history_backup(path, load=load, at_each_iteration=cfg["mode"] == "iteration", at_each_function_call=cfg["mode"] == "call")
    return s


def execute(s, cfg):
    a = cfg["algo"]
    if a == "PYDOE_FULLFACT":
        s.execute(algo_name=a, n_samples=9)
    elif a == "CustomDOE":
        s.execute(algo_name=a, samples=np.array(CUSTOM_SAMPLES))
    else:
        s.execute(algo_name=a, max_iter=cfg["max_iter"], normalize_design_space=cfg["norm"], **({"reset_iteration_counters": False} if cfg.get("keep_counter") else {}))


def snap(db):
    out = []
    for x, vals in db.items():
        out.append([[float(v) for v in x.wrapped_array.ravel()], {k: [float(u) for u in np.asarray(v, dtype=float).ravel()] for k, v in vals.items()}])
    return out


def _stage(cfg, path, load, crash_at, log_events):
    """Body of one process: (re)start the scenario on ``path``; returns the observations (if it survives)."""
    H["n"], H["crash_at"], H["pts"] = 0, crash_at, []
    s = build(cfg, path, load)
    pb = s.formulation.optimization_problem
    loaded = snap(pb.database)
    log = []
    if log_events:
        pb.database.add_store_listener(lambda x: log.append([H["n"], "store", snap(pb.database)]))
        pb.database.add_new_iter_listener(lambda x: log.append([H["n"], "iter", snap(pb.database)]))
    execute(s, cfg)
    res = s.optimization_result
    return {
        "K": H["n"], "pts": H["pts"], "log": log, "final": snap(pb.database), "loaded": loaded,
        "f_opt": None if res is None or res.f_opt is None else float(res.f_opt), "is_feasible": None if res is None else bool(res.is_feasible),
        "x_opt": None if res is None or res.x_opt is None else [float(v) for v in res.x_opt],
    }


_WARM = False


def _warm(scratch):
    """Import gemseo and fill its factory caches once per (worker) process, so that forked children start hot."""
    global _WARM
    if _WARM:
        return
    _WARM = True
    import contextlib
    import io

    from gemseo.algos.database import Database  # noqa: F401

    cfg = {"scen": "MDO-MDF", "algo": "SLSQP", "max_iter": 1, "mode": "call", "norm": True, "deterministic": True, "shift": 0.0}
    d = os.path.join(scratch, f"warm_{os.getpid()}")
    os.makedirs(d, exist_ok=True)
    with contextlib.redirect_stderr(io.StringIO()):
        for c in (cfg, dict(cfg, scen="DOE-DOpt", algo="CustomDOE"), dict(cfg, scen="DOE-DOpt", algo="PYDOE_FULLFACT"), dict(cfg, scen="MDO-DOpt", algo="NLOPT_COBYLA")):
            crash_at, H["crash_at"] = H["crash_at"], None
            s = build(c, os.path.join(d, "w.h5"), False)
            execute(s, c)
    H["n"], H["pts"] = 0, []
    shutil.rmtree(d, ignore_errors=True)


def _load_backup(path):
    from gemseo.algos.database import Database

    if not os.path.exists(path):
        return None
    return snap(Database.from_hdf(path))


def _expected_at(log, mode, k, initial):
    ev = "store" if mode == "call" else "iter"
    cands = [sn for (n, e, sn) in log if e == ev and n < k]
    return cands[-1] if cands else initial


def _names_at(sn, x):
    for p, vals in sn or []:
        if p == x:
            return set(vals)
    return None


def _constraints(cfg):
    """(name, kind, tolerance) of the constraints of the scenario (gemseo's default tolerances), and its observables."""
    if "IDF" in cfg["scen"]:
        return [("y1", "eq", 1e-2), ("y2", "eq", 1e-2)], {"g"}
    if "Vec" in cfg["scen"]:
        return [("c", "ineq", 1e-4)], set()
    return [("g", "ineq", 1e-4)], set()


def _best_feasible(sn, cfg):
    """Best objective among the recorded points that have a scalar objective and every constraint within tolerance."""
    cons, _ = _constraints(cfg)
    best = None
    for p, vals in sn or []:
        if "f" not in vals or len(vals["f"]) != 1 or any(n not in vals for n, _, _ in cons):
            continue
        ok = all((max(vals[n]) <= t) if k == "ineq" else (max(abs(v) for v in vals[n]) <= t) for n, k, t in cons)
        if ok and (best is None or vals["f"][0] < best):
            best = vals["f"][0]
    return best


def _only_observables_missing(final, ref_final, cfg, coupled):
    """The restarted history equals the uninterrupted one except that some entries lack observable values."""
    _, observables = _constraints(cfg)
    if not observables or len(final) != len(ref_final):
        return False
    some = False
    for (pa, va), (pb, vb) in zip(final, ref_final):
        if pa != pb or not set(va) <= set(vb) or not (set(vb) - set(va)) <= observables:
            return False
        if any(va[k] != vb[k] for k in va):
            return False
        some = some or set(va) != set(vb)
    return some


def _check_restart(cfg, backup, obs, ref_final, tally, case, stage):
    """Oracle (b) of DESIGN.md for a restart from ``backup`` that ran to completion with observations ``obs``."""
    sig = {"part": stage, "scen": cfg["scen"], "mode": cfg["mode"]}
    final = obs["final"]
    if obs["loaded"] != (backup or []):
        tally.violation({**sig, "invariant": "restart-loaded-differs-from-backup"}, case, f"loaded {obs['loaded']} vs backup {backup}")
    # no wasted execution at a stored point: every execution at a backed-up point must add an output the backup lacked there
    for x in obs["pts"]:
        had = _names_at(backup, x)
        if had is not None:
            now = _names_at(final, x) or set()
            if not (now > had):
                tally.violation({**sig, "invariant": "re-executed-at-stored-point"}, case,
                                f"the disciplines ran again at x={x}, stored in the backup with outputs {sorted(had)}; final outputs there {sorted(now)}")
                break
    # loaded entries are kept, unchanged
    fin = {tuple(p): vals for p, vals in final}
    for p, vals in backup or []:
        got = fin.get(tuple(p))
        if got is None or any(got.get(k) != v for k, v in vals.items()):
            tally.violation({**sig, "invariant": "loaded-entry-lost-or-changed"}, case, f"backup entry {p}: {vals} -> {got}")
            break
    # optimum at least as good as the best loaded one
    best = _best_feasible(backup, cfg)
    if best is not None:
        if obs["f_opt"] is None or not obs["is_feasible"] or obs["f_opt"] > best + 1e-12:
            tally.violation({**sig, "invariant": "optimum-worse-than-best-loaded"}, case, f"best loaded feasible f={best}, reported f_opt={obs['f_opt']} feasible={obs['is_feasible']}")
    # exact replay: same history as the uninterrupted run
    if not cfg["norm"] and cfg["deterministic"]:
        if not _same_history(final, ref_final, "MDF" in cfg["scen"]):
            n = len(ref_final)
            head_ok = _same_history(final[:n], ref_final, "MDF" in cfg["scen"]) or _only_observables_missing(final[:n], ref_final, cfg, False)
            shape = "extends-uninterrupted-history" if len(final) > n and head_ok else "diverges"
            if _only_observables_missing(final, ref_final, cfg, False):
                shape = "observable-missing-at-loaded-point"
            tally.violation({**sig, "invariant": "restart-history-differs-from-uninterrupted", "shape": shape, "counter_reset": not cfg.get("keep_counter", False),
                             "kind": "DOE" if cfg["scen"].startswith("DOE") else "MDO"}, case,
                            f"{len(final)} entries vs {len(ref_final)} in the uninterrupted run; first difference: "
                            + str(next(((a, b) for a, b in zip(final, ref_final) if a != b), (final[len(ref_final):][:1], ref_final[len(final):][:1]))))


def _same_history(a, b, coupled):
    """Exact for single-discipline scenarios; for MDF the MDA is warm-started from the previous evaluation of the same
    process, so values are only reproduced within the MDA tolerance (1e-12) times the conditioning of the test system."""
    if not coupled:
        return a == b
    if len(a) != len(b):
        return False
    for (pa, va), (pb, vb) in zip(a, b):
        if not np.allclose(pa, pb, rtol=1e-7, atol=1e-9) or set(va) != set(vb):
            return False
        if any(not np.allclose(va[k], vb[k], rtol=1e-6, atol=1e-8) for k in va):
            return False
    return True


def _case(case, tally):
    cfg, k1 = case["cfg"], case["k1"]
    ref = case["ref"]
    _warm(case["scratch"])
    d = os.path.join(case["scratch"], f"c_{os.getpid()}")
    os.makedirs(d, exist_ok=True)
    path = os.path.join(d, "bk.h5")
    resf = os.path.join(d, "res.json")
    for f in (path,):
        if os.path.exists(f):
            os.remove(f)
    base = {"cfg": cfg, "k1": k1}
    sig = {"scen": cfg["scen"], "mode": cfg["mode"]}
    # ---- first crash -------------------------------------------------------------------
    code, _ = crash.run_child(lambda: _stage(cfg, path, False, k1, False), resf)
    crashed = code == crash.CRASH_CODE
    if k1 <= ref["K"] and not crashed:
        tally.violation({**sig, "invariant": "harness-crash-not-reached"}, base, f"exit code {code}")
        return
    try:
        backup = _load_backup(path)
    except Exception as e:
        tally.violation({**sig, "part": "crash1", "invariant": "backup-not-loadable"}, base, f"{type(e).__name__}: {e}")
        return
    # (without a crash the same rule applies: in iteration mode the file lags by the outputs stored after the last new point)
    exp = _expected_at(ref["log"], cfg["mode"], k1, None)
    outcome = f"{cfg['scen']}:{cfg['mode']}:backup={'absent' if backup is None else len(backup)}"
    if (backup or []) != (exp or []) or (backup is None) != (exp is None):
        tally.violation({**sig, "part": "crash1", "invariant": "backup-is-not-the-completed-prefix"}, base,
                        f"crash during execution {k1}: backup={backup}\n  expected (reference snapshot at the last backup event before it)={exp}")
    tally.case(("c1", str(cfg), k1), nontrivial=crashed and backup is not None, outcome=outcome,
               sample={"scen": cfg["scen"], "algo": cfg["algo"], "mode": cfg["mode"], "norm": cfg["norm"], "crash_at_execution": k1, "backup_entries": None if backup is None else len(backup)})
    if not crashed:
        return
    # ---- restart (uninterrupted, logged) -------------------------------------------------
    keep = path + ".k1"
    if backup is not None:
        shutil.copy(path, keep)
    code, obs = crash.run_child(lambda: _stage(cfg, path, True, None, True), resf)
    if code != 0 or obs is None or "__error__" in (obs or {}):
        tally.violation({**sig, "part": "restart1", "invariant": "restart-raises"}, base, f"exit {code}: {(obs or {}).get('__error__', '')[-800:]}")
        return
    _check_restart(cfg, backup, obs, ref["final"], tally, base, "restart1")
    tally.case(("r1", str(cfg), k1), nontrivial=backup is not None, outcome=f"{cfg['scen']}:{cfg['mode']}:restart-executions={obs['K']}")
    tally.count("restarts")
    # ---- second crash: the file already contains earlier data ------------------------------
    if not case["double"] or backup is None:
        return
    for k2 in range(1, obs["K"] + 1):
        shutil.copy(keep, path)
        c2 = {"cfg": cfg, "k1": k1, "k2": k2}
        code, _ = crash.run_child(lambda: _stage(cfg, path, True, k2, False), resf)
        if code != crash.CRASH_CODE:
            tally.violation({**sig, "invariant": "harness-crash-not-reached"}, c2, f"exit code {code}")
            continue
        try:
            backup2 = _load_backup(path)
        except Exception as e:
            tally.violation({**sig, "part": "crash2", "invariant": "backup-not-loadable"}, c2, f"{type(e).__name__}: {e}")
            continue
        exp2 = _expected_at(obs["log"], cfg["mode"], k2, backup)
        if backup2 != exp2:
            tally.violation({**sig, "part": "crash2", "invariant": "backup-is-not-the-completed-prefix"}, c2,
                            f"crash at {k1}, restart, crash during execution {k2}: backup={backup2}\n  expected={exp2}")
        code, obs2 = crash.run_child(lambda: _stage(cfg, path, True, None, False), resf)
        if code != 0 or obs2 is None or "__error__" in (obs2 or {}):
            tally.violation({**sig, "part": "restart2", "invariant": "restart-raises"}, c2, f"exit {code}: {(obs2 or {}).get('__error__', '')[-800:]}")
            continue
        _check_restart(cfg, backup2, obs2, ref["final"], tally, c2, "restart2")
        tally.case(("c2", str(cfg), k1, k2), nontrivial=True, outcome=f"{cfg['scen']}:{cfg['mode']}:double-crash:backup={len(backup2)}")
        tally.count("double_crashes")
    shutil.rmtree(d, ignore_errors=True)


def _reference(cfg, scratch):
    _warm(scratch)
    d = os.path.join(scratch, f"ref_{os.getpid()}")
    os.makedirs(d, exist_ok=True)
    path = os.path.join(d, "ref.h5")
    if os.path.exists(path):
        os.remove(path)
    code, obs = crash.run_child(lambda: _stage(cfg, path, False, None, True), os.path.join(d, "ref.json"))
    file_final = _load_backup(path)
    shutil.rmtree(d, ignore_errors=True)
    return code, obs, file_final


def configs(ctx):
    shift = [0.0, 0.25, -0.5, 0.125][ctx.seed % 4]
    out = []
    scen = [
        ("MDO-DOpt", "SLSQP", 6 if not ctx.thorough else 10, True),
        ("MDO-DOpt", "NLOPT_COBYLA", 6 if not ctx.thorough else 10, True),
        ("MDO-MDF", "SLSQP", 2 if not ctx.thorough else 4, True),
        ("DOE-DOpt", "PYDOE_FULLFACT", 0, True),
        ("DOE-DOpt", "CustomDOE", 0, True),
        ("DOE-MDF", "CustomDOE", 0, True),
        ("DOE-Vec", "CustomDOE", 0, True),
        ("MDO-IDF", "SLSQP", 3 if not ctx.thorough else 6, True),  # consistency constraints + an observable with its own discipline execution  # array-valued objective + scalar constraint (mixed storage kinds in the file)
    ]
    for name, algo, mi, det in scen:
        for mode in ("call", "iteration"):
            for norm in ((False, True) if name.startswith("MDO") else (False,)):
                for keep in ((True, False) if name.startswith("MDO") and not norm else (True,)):
                    # keep: the restart passes reset_iteration_counters=False, so that the evaluation counter restored by load=True is used
                    out.append({"scen": name, "algo": algo, "max_iter": mi, "mode": mode, "norm": norm, "deterministic": det, "shift": shift, "keep_counter": keep})
    return out


def run(ctx):
    tally = ctx.tally
    _warm(ctx.scratch)
    cfgs = configs(ctx)
    refs = pmap_raw(_reference, [(c, ctx.scratch) for c in cfgs], jobs=ctx.jobs)
    cases = []
    kinfo = {}
    for cfg, (code, obs, file_final) in zip(cfgs, refs):
        key = f"{cfg['scen']}/{cfg['algo']}/{cfg['mode']}/norm={cfg['norm']}/keep_counter={cfg['keep_counter']}"
        if code != 0 or obs is None or "__error__" in obs:
            tally.violation({"invariant": "reference-run-failed", "scen": cfg["scen"]}, {"cfg": cfg}, str(obs)[-800:])
            continue
        if file_final != obs["final"] and cfg["mode"] == "call":
            tally.violation({"invariant": "final-backup-differs-from-database", "scen": cfg["scen"], "mode": cfg["mode"]}, {"cfg": cfg},
                            f"uninterrupted run: backup file {file_final}\n  database {obs['final']}")
        kinfo[key] = {"K": obs["K"], "entries": len(obs["final"])}
        ref = {"K": obs["K"], "log": obs["log"], "final": obs["final"]}
        double = obs["K"] <= (12 if not ctx.thorough else 40) and not (cfg["norm"] and not ctx.thorough)
        for k in range(1, obs["K"] + 2):  # K+1 = no crash (control)
            cases.append({"cfg": cfg, "k1": k, "ref": ref, "double": double, "scratch": ctx.scratch})
    tally.notes["configurations"] = kinfo
    # longest cases first would be better balanced; they are independent anyway
    pmap(_case, cases, tally, jobs=ctx.jobs, chunk=1, timeout=600)
    return {
        "level": LEVEL,
        "rule": "one case = one crash point k (process death inside the k-th discipline execution) of one configuration, followed by the inspection of the backup, "
        "a restart with load=True in a fresh process and, for small runs, every second crash point of that restart; non-trivial = the backup exists when the process dies",
        "exhaustive": True,
        "bounds": {"crash_points": "every k = 1..K of every configuration (+ K+1 = no crash)", "configurations": len(cfgs)},
        "assumptions": [
            "the crash is a process death (os._exit) inside a discipline execution, when no HDF5 write is in progress; torn HDF5 writes are not enumerated",
            "a restart execution at a backed-up point is accepted when it adds an output the backup lacked at that point (iteration-mode backups hold partial entries)",
            "exact equality of the restarted history with the uninterrupted one is only demanded without design-space normalization",
        ],
    }


def replay(case, ctx):
    from mc.core import Tally

    t = Tally()
    cfg = case["cfg"]
    code, obs, _ = _reference(cfg, ctx.scratch)
    ref = {"K": obs["K"], "log": obs["log"], "final": obs["final"]}
    _case({"cfg": cfg, "k1": case["k1"], "ref": ref, "double": "k2" in case, "scratch": ctx.scratch}, t)
    return {"K": obs["K"], "violations": [v["message"] for v in t.violations.values()]}
