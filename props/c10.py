"""C10 - function algebra and transformations evaluate and differentiate exactly (engine E2).

Bounded-exhaustive enumeration of *programs*: every expression tree to a depth bound over a small leaf
alphabet (scalar / vector m=n / vector m!=n user functions, dense and sparse ``MDOLinearFunction``,
``MDOQuadraticFunction``, numbers, arrays) and the operators {+, -, *, /, unary -, offset}, and every helper
constructor (``FunctionRestriction``, ``LinearCompositeFunction``, ``Concatenate``,
``MDOLinearFunction.normalize/restrict``, Taylor polynomials, ``ConvexLinearApprox``, the six
aggregations, the ``ConstraintAggregation`` discipline) applied to every compatible leaf / depth-1 tree.

Oracle: the same program is evaluated by the small forward-mode AD ("dual number") evaluator below, which
returns the value, the exact derivative, and a *running first-order rounding-error bound* of its own
evaluation; the comparison tolerance is SAFETY x that bound (derived, not tuned: the implementation may
associate the same real-number formula differently, each association staying within a small multiple of
the bound).  Further oracles: arrays handed out by the operands are bitwise unchanged after the composite
has been evaluated / differentiated; re-evaluation at the same point returns the same value; KS bounds lie
on the documented side of the true maximum.

Axes of the two helpers with a registered / partial-evaluation path:
* ``ConvexLinearApprox``: ``approx_indexes`` in {None, every boolean mask (all-False, every mixed one, all-True)} x every
  base (separable and non-separable) x expansion point.  The closed form is compared entry by entry at every point; the
  entries into which a reciprocal term enters are the footprint of the registered known finding (reciprocal step) and
  keep its signature (op=ConvexLinearApprox); a mismatch on any other entry - outputs without reciprocal term,
  direct-term entries, columns of the non-approximated inputs (df/dx_i at the MERGED point) - has its own signature
  (op=ConvexLinearApprox[...]) that the known finding does not match.
* ``ConstraintAggregation``: compute_all_jacobians=True on 1- and 2-input layouts, and every multi-input layout
  ([1,1], [1,2], [2,1], [1,1,1]) x every non-empty subset of the inputs declared as differentiated inputs
  (compute_all_jacobians=False) x 6 methods x every index group x scale kind: the requested blocks are the columns of
  the closed-form derivative of the aggregation of the WHOLE constraint vector.

Attribution: phases are run simplest-first (depth 1, helpers on depth <= 1, depth 2, depth 3); a tree that
contains a sub-tree which already failed on its own is not evaluated again ("masked") so that a violation
is reported with the operator and operand shape class of the node that breaks.
"""
from __future__ import annotations

import itertools
import operator

import numpy as np
from numpy import array

from mc import product
from mc.core import Tally, pmap

LEVEL = "exploration"
U = 2.0**-53  # unit round-off
SAFETY = 8.0  # implementation may use another association of the same formula
UNDERFLOW = 1e-200  # absolute floor (times the scale of the result), see compare()
ILL = 1e-7  # a point whose derived tolerance exceeds ILL x scale is reported as ill-conditioned and skipped

# ---------------------------------------------------------------------------------------------------
# value alphabets (rotated by VERIF_SEED; the enumerated structure never changes)
# ---------------------------------------------------------------------------------------------------
# 3 values per input dimension: one zero, no leaf vanishes on the resulting grid (checked at start-up)
AXIS_VALUES = [
    ([1.3, 0.0, -1.1], [-0.7, 2.0, 0.4]),
    ([0.6, -1.7, 0.0], [0.0, 1.2, -0.9]),
    ([-0.8, 0.0, 2.1], [1.6, -0.3, 0.0]),
    ([0.0, 0.9, -2.2], [0.7, 0.0, -1.4]),
]
AXIS3 = [[0.8, -1.2, 0.0], [0.0, 1.9, -0.6], [1.1, 0.0, -0.4], [-0.5, 0.7, 0.0]]
AXIS4 = [[0.8, -1.2, 0.0, 1.7], [0.0, 1.9, -0.6, -1.4], [1.1, 0.0, -0.4, 2.2], [-0.5, 0.7, 0.0, -1.9]]
# frozen values of the restrictions, by input index: pairwise distinct and distinct from every point coordinate
FROZEN_VALUES = [[0.35, -1.65, 2.45, -0.85], [1.25, -0.45, -2.35, 0.65], [-1.05, 2.75, 0.15, -2.55], [2.05, 0.95, -1.75, -0.25]]
CONSTS = [
    {"num": 2.5, "off": -0.75, "arr2": [2.0, -0.5], "arr3": [1.0, 2.0, 3.0]},
    {"num": -1.5, "off": 0.5, "arr2": [-0.25, 3.0], "arr3": [0.5, -2.0, 4.0]},
    {"num": 0.75, "off": -2.0, "arr2": [1.5, 4.0], "arr3": [-3.0, 0.25, 2.0]},
    {"num": 3.0, "off": 1.25, "arr2": [-2.0, 0.5], "arr3": [2.0, -1.0, -0.5]},
]
CFG: dict = {}  # filled by configure(); inherited by the forked workers
BAD: set = set()  # keys of trees that failed on their own (filled between phases)


def configure(seed: int) -> None:
    ax = AXIS_VALUES[seed % len(AXIS_VALUES)]
    grid = [array([a, b]) for a in ax[0] for b in ax[1]]
    # 3 points (one per value of every axis, a latin diagonal) for the deep trees, the 3x3 grid elsewhere
    diag = [array([ax[0][i], ax[1][i]]) for i in range(3)]
    a3 = AXIS3[seed % len(AXIS3)]
    pts3 = [array([a3[i], a3[(i + 1) % 3], a3[(i + 2) % 3]]) for i in range(3)]
    pts3.append(array([a3[0], a3[0], a3[1]]))
    # points without zero component (convex linearization: reciprocal variables)
    nz = [[v for v in axis if v != 0.0] for axis in ax]
    nz2 = [array([a, b]) for a in nz[0] for b in nz[1]]
    b3 = [v for v in a3 if v != 0.0]
    nz3 = [array([b3[0], b3[1], -b3[0]]), array([b3[1], -b3[1], b3[0]]), array([-b3[0], b3[0], b3[1]]), array([b3[1], b3[0], b3[1]])]
    a4 = AXIS4[seed % len(AXIS4)]
    pts4 = [array([a4[(i + j) % 4] for j in range(4)]) for i in range(4)]
    CFG.update(seed=seed, grid=grid, diag=diag, pts3=pts3, pts4=pts4, nz2=nz2, nz3=nz3, consts=CONSTS[seed % len(CONSTS)],
               frozen=FROZEN_VALUES[seed % len(FROZEN_VALUES)])


# ---------------------------------------------------------------------------------------------------
# the dual-number evaluator (value, derivative, running rounding-error bounds of both)
# ---------------------------------------------------------------------------------------------------
class Singular(Exception):
    """A denominator vanishes (or is not resolved) at this point: the point is outside the alphabet."""


class OperandModified(Exception):
    """Raised by a harness adapter that sees its input data modified by the code under test."""


class D:
    """value (m,), derivative (m, n), rounding-error bounds of both, largest magnitude met while computing them."""

    __slots__ = ("v", "d", "ev", "ed", "mag", "tv", "td")

    def __init__(self, v, d, ev=None, ed=None, mag=0.0):
        # optional boolean masks (same shapes as v / d) of the entries that lie in the footprint of a registered known
        # finding (see h_conlin); None everywhere else
        self.tv = self.td = None
        self.v = np.asarray(v, dtype=float).reshape(-1)
        self.d = np.asarray(d, dtype=float).reshape(self.v.size, -1)
        self.ev = np.zeros_like(self.v) if ev is None else np.asarray(ev, dtype=float).reshape(-1)
        self.ed = np.zeros_like(self.d) if ed is None else np.asarray(ed, dtype=float).reshape(self.d.shape)
        own = max(abs(self.v).max(initial=0.0), abs(self.d).max(initial=0.0))
        self.mag = max(mag, own) if np.isfinite(own) else np.inf

    @property
    def m(self):
        return self.v.size


def const(c, n):
    v = np.atleast_1d(np.asarray(c, dtype=float))
    return D(v, np.zeros((v.size, n)))


def d_add(a, b, sign=1.0):
    v = a.v + sign * b.v
    d = a.d + sign * b.d
    return D(v, d, a.ev + b.ev + U * abs(v), a.ed + b.ed + U * abs(d), max(a.mag, b.mag))


def d_neg(a):
    return D(-a.v, -a.d, a.ev, a.ed, a.mag)


def d_mul(a, b):
    v = a.v * b.v
    av, bv = abs(a.v)[:, None], abs(b.v)[:, None]
    t1, t2 = a.d * b.v[:, None], b.d * a.v[:, None]
    ev = abs(a.v) * b.ev + abs(b.v) * a.ev + U * abs(v)
    ed = a.ed * bv + abs(a.d) * b.ev[:, None] + b.ed * av + abs(b.d) * a.ev[:, None] + 3 * U * (abs(t1) + abs(t2))
    return D(v, t1 + t2, ev, ed, max(a.mag, b.mag, abs(t1).max(initial=0.0), abs(t2).max(initial=0.0)))


def d_div(a, b):
    ab = abs(b.v)
    if not np.all(np.isfinite(b.v)) or np.any(ab == 0.0) or np.any(b.ev > 1e-6 * ab):
        raise Singular
    q = a.v / b.v
    eq = (a.ev + abs(q) * b.ev) / ab + U * abs(q)
    t1, t2 = a.d, q[:, None] * b.d
    d = (t1 - t2) / b.v[:, None]
    rel_b = (b.ev / ab)[:, None]
    num_err = a.ed + abs(q)[:, None] * b.ed + eq[:, None] * abs(b.d) + 3 * U * (abs(t1) + abs(t2))
    # the implementation may form (f'g - g'f)/g^2: the relative error of g enters through every term
    ed = (num_err + 3 * rel_b * (abs(t1) + abs(t2))) / ab[:, None] + U * abs(d)
    return D(q, d, eq, ed, max(a.mag, b.mag, (abs(t1) / ab[:, None]).max(initial=0.0), (abs(t2) / ab[:, None]).max(initial=0.0)))


def d_exp(a):
    v = np.exp(a.v)
    ev = v * a.ev + 2 * U * v
    d = a.d * v[:, None]
    return D(v, d, ev, a.ed * v[:, None] + abs(a.d) * ev[:, None] + U * abs(d), a.mag)


def d_log(a):
    if np.any(a.v <= 0) or np.any(a.ev > 1e-6 * abs(a.v)):
        raise Singular
    v = np.log(a.v)
    d = a.d / a.v[:, None]
    rel = (a.ev / abs(a.v))[:, None]
    return D(v, d, a.ev / abs(a.v) + 2 * U * abs(v), a.ed / abs(a.v)[:, None] + abs(d) * rel + U * abs(d), a.mag)


def d_sum(a):
    k = a.m
    return D(
        [a.v.sum()],
        a.d.sum(axis=0)[None, :],
        [a.ev.sum() + k * U * abs(a.v).sum()],
        a.ed.sum(axis=0)[None, :] + k * U * abs(a.d).sum(axis=0)[None, :],
        a.mag,
    )


def d_take(a, idx):
    return D(a.v[idx], a.d[idx, :], a.ev[idx], a.ed[idx, :], a.mag)


def d_stack(parts):
    return D(
        np.concatenate([p.v for p in parts]),
        np.vstack([p.d for p in parts]),
        np.concatenate([p.ev for p in parts]),
        np.vstack([p.ed for p in parts]),
        max(p.mag for p in parts),
    )


def d_right_matmul(a, mat):
    """Derivative with respect to z where x = mat z."""
    k = mat.shape[0]
    return D(a.v, a.d @ mat, a.ev, a.ed @ abs(mat) + k * U * (abs(a.d) @ abs(mat)), a.mag)


class S:
    """Scalar dual number; only used at start-up to validate the hand-written Jacobians of the leaves."""

    def __init__(self, v, g):
        self.v, self.g = v, g

    @staticmethod
    def lift(o, like):
        return o if isinstance(o, S) else S(float(o), np.zeros_like(like.g))

    def __add__(self, o):
        o = S.lift(o, self)
        return S(self.v + o.v, self.g + o.g)

    __radd__ = __add__

    def __neg__(self):
        return S(-self.v, -self.g)

    def __sub__(self, o):
        return self + (-S.lift(o, self))

    def __rsub__(self, o):
        return S.lift(o, self) + (-self)

    def __mul__(self, o):
        o = S.lift(o, self)
        return S(self.v * o.v, self.g * o.v + o.g * self.v)

    __rmul__ = __mul__

    def __pow__(self, k):
        out = S(1.0, np.zeros_like(self.g))
        for _ in range(int(k)):
            out = out * self
        return out


# ---------------------------------------------------------------------------------------------------
# leaves
# ---------------------------------------------------------------------------------------------------
# name: (components(x) -> list, jacobian(x) -> list of rows, returns, jacobian layout)
USER_LEAVES = {
    # scalar, array of size 1 and (1, n) Jacobian
    "s": (lambda x: [x[0] ** 2 * x[1] + 3.0 * x[1] + 5.0], lambda x: [[2 * x[0] * x[1], x[0] ** 2 + 3.0]], "array", "2d"),
    # scalar, python float and 1-D gradient
    "s0": (lambda x: [x[0] * x[1] + 4.0], lambda x: [[x[1], x[0]]], "float", "1d"),
    # m = n = 2
    "v22": (lambda x: [x[0] ** 2 + 1.0, x[0] * x[1] + 6.0], lambda x: [[2 * x[0], 0.0], [x[1], x[0]]], "array", "2d"),
    "w22": (lambda x: [x[1] + 3.5, x[0] - x[1] ** 2 + 7.0], lambda x: [[0.0, 1.0], [1.0, -2 * x[1]]], "array", "2d"),
    # m = 3 != n = 2
    "v32": (
        lambda x: [x[0] + 3.0, x[1] ** 2 + 2.0, x[0] * x[1] + 7.0],
        lambda x: [[1.0, 0.0], [0.0, 2 * x[1]], [x[1], x[0]]],
        "array",
        "2d",
    ),
}
USER_LEAVES3 = {  # n = 3, only used by the helper constructors
    "t3": (lambda x: [x[0] * x[1] - x[2] ** 2 + 9.0], lambda x: [[x[1], x[0], -2 * x[2]]], "float", "1d"),
    "t33": (
        lambda x: [x[0] ** 2 + 2.0, x[1] * x[2] + 5.0, x[0] - x[2] + 6.0],
        lambda x: [[2 * x[0], 0.0, 0.0], [0.0, x[2], x[1]], [1.0, 0.0, -1.0]],
        "array",
        "2d",
    ),
    "t23": (lambda x: [x[0] + x[1] * x[2] + 7.0, x[2] ** 2 + 3.0], lambda x: [[1.0, x[2], x[1]], [0.0, 0.0, 2 * x[2]]], "array", "2d"),
}
LINEAR = {  # name: (A, b, sparse)
    "lin1": ([[2.0, -0.75]], [9.5], False),
    "lin2": ([[2.0, -0.5], [0.25, 1.5]], [8.0, -9.0], False),
    "lin3": ([[1.0, 0.0], [-0.5, 2.0], [0.75, 0.25]], [7.0, 9.0, -8.0], False),
    "lins": ([[1.5, 0.0], [-0.25, 2.0]], [-9.0, 8.5], True),
}
LINEAR3 = {"l23": ([[1.0, -2.0, 0.5], [0.0, 3.0, -1.0]], [4.0, -5.0], False), "l13": ([[0.5, 0.0, -1.5]], [6.0], False)}
QUAD = {"quad": ([[1.0, 2.0], [0.5, -1.0]], [0.5, 1.0], 12.0)}
USER_LEAVES4 = {  # n = 4, none symmetric in its inputs: ordered selections of frozen inputs (FunctionRestriction)
    "u4": (
        lambda x: [x[0] + 2.0 * x[1] ** 2 + 3.0 * x[2] * x[3] - x[3] ** 3 + 20.0],
        lambda x: [[1.0, 4.0 * x[1], 3.0 * x[3], 3.0 * x[2] - 3.0 * x[3] ** 2]],
        "float",
        "1d",
    ),
    "u24": (
        lambda x: [x[0] * x[1] + 5.0 * x[2] - x[3] ** 2 + 15.0, x[0] - 2.0 * x[1] + x[2] * x[3] + 12.0],
        lambda x: [[x[1], x[0], 5.0, -2.0 * x[3]], [1.0, -2.0, x[3], x[2]]],
        "array",
        "2d",
    ),
    "u34": (
        lambda x: [x[0] ** 2 + x[3] + 9.0, x[1] * x[2] + 2.0 * x[3] + 11.0, x[0] * x[3] - x[1] + 3.0 * x[2] + 14.0],
        lambda x: [[2.0 * x[0], 0.0, 0.0, 1.0], [0.0, x[2], x[1], 2.0], [x[3], -1.0, 3.0, x[0]]],
        "array",
        "2d",
    ),
}
LINEAR4 = {"l24": ([[1.0, -2.0, 0.5, 3.0], [0.0, 3.0, -1.0, 0.25]], [4.0, -5.0], False),
           "ls24": ([[0.0, 1.5, -2.0, 0.0], [2.5, 0.0, 0.0, -1.0]], [6.0, 7.0], True)}
ALL_USER = {**USER_LEAVES, **USER_LEAVES3, **USER_LEAVES4}
ALL_LIN = {**LINEAR, **LINEAR3, **LINEAR4}

FUNC_LEAVES = ["s0", "s", "v22", "w22", "v32", "lin1", "lin2", "lin3", "lins", "quad"]
CORE_LEAVES = ["s0", "v22", "v32", "lin2"]  # one per shape class, for the depth-3 tier
LEAVES3 = ["t3", "t33", "t23", "l23", "l13"]
LEAVES4 = ["u4", "u24", "u34", "l24", "ls24"]
LEAF_DIM = {"s0": 1, "s": 1, "v22": 2, "w22": 2, "v32": 3, "lin1": 1, "lin2": 2, "lin3": 3, "lins": 2, "quad": 1,
            "t3": 1, "t33": 3, "t23": 2, "l23": 2, "l13": 1, "u4": 1, "u24": 2, "u34": 3, "l24": 2, "ls24": 2}
LEAF_NIN = {**dict.fromkeys(FUNC_LEAVES, 2), **dict.fromkeys(LEAVES3, 3), **dict.fromkeys(LEAVES4, 4)}
CUR: dict = {}  # name -> defining data currently in force for a leaf edited through its public setters (history cases)


def data_of(name):
    """The defining data of a leaf: the edited ones (history cases) or those of the tables."""
    if name in CUR:
        return CUR[name]
    if name in ALL_USER:
        comp, jacf, _, _ = ALL_USER[name]
        return {"kind": "user", "comp": comp, "jac": jacf}
    if name in ALL_LIN:
        a, b, sparse = ALL_LIN[name]
        return {"kind": "lin", "a": array(a, dtype=float), "b": array(b, dtype=float), "sparse": sparse}
    q, lc, c = QUAD[name]
    return {"kind": "quad", "q": array(q, dtype=float), "lc": array(lc, dtype=float), "c": float(c)}


def leaf_class(name):
    n, m = LEAF_NIN[name], LEAF_DIM[name]
    if name in ALL_LIN:
        base = "sparse-linear" if ALL_LIN[name][2] else "linear"
        return f"{base}({'scalar' if m == 1 else 'm=n' if m == n else 'm!=n'})"
    if name in QUAD:
        return "quadratic"
    spec = ALL_USER[name]
    if m == 1:
        return "scalar" if spec[3] == "1d" else "scalar(1,n)-jac"
    return "vector m=n" if m == n else "vector m!=n"


class Env:
    """Fresh gemseo leaf objects for one case + the record of every array they hand out."""

    def __init__(self, f_type=""):
        self.objs = {}
        self.handed = []  # (array object, pristine copy, leaf name, what)
        self.native = {}  # name -> gemseo-native leaf (linear, quadratic)
        self.data = {}  # name -> defining data the native leaf must currently have
        self.f_type = f_type

    def get(self, name):
        if name not in self.objs:
            self.objs[name] = self._make(name)
        return self.objs[name]

    def _make(self, name):
        from gemseo.core.mdo_functions.mdo_function import MDOFunction
        from gemseo.core.mdo_functions.mdo_linear_function import MDOLinearFunction
        from gemseo.core.mdo_functions.mdo_quadratic_function import MDOQuadraticFunction

        spec = ALL_USER.get(name)
        if spec is not None:
            comp, jacf, returns, layout = spec
            memo_v, memo_j = {}, {}
            handed = self.handed

            # memoizing operand: the same stored array is returned for a repeated point (like a database hit)
            def func(x, comp=comp):
                k = np.asarray(x).tobytes()
                if k not in memo_v:
                    vals = comp(x)
                    if returns == "float":
                        memo_v[k] = float(vals[0])
                    else:
                        memo_v[k] = array(vals, dtype=float)
                        handed.append((memo_v[k], memo_v[k].copy(), name, "value"))
                return memo_v[k]

            def jac(x, jacf=jacf):
                k = np.asarray(x).tobytes()
                if k not in memo_j:
                    rows = array(jacf(x), dtype=float)
                    memo_j[k] = rows[0] if layout == "1d" else rows
                    handed.append((memo_j[k], memo_j[k].copy(), name, "jacobian"))
                return memo_j[k]

            return MDOFunction(func, name, jac=jac, dim=LEAF_DIM[name], f_type=self.f_type,
                               input_names=[f"x{i}" for i in range(LEAF_NIN[name])])
        lin = ALL_LIN.get(name)
        self.data[name] = data_of(name)
        if lin is not None:
            a, b, sparse = lin
            a = array(a, dtype=float)
            if sparse:
                from scipy.sparse import csr_array

                a = csr_array(a)
            f = MDOLinearFunction(a, name, value_at_zero=array(b, dtype=float) if len(b) > 1 else b[0], f_type=self.f_type)
            self.native[name] = f
            return f
        q, lc, c = QUAD[name]
        f = MDOQuadraticFunction(array(q, dtype=float), name, linear_coeffs=array(lc, dtype=float), value_at_zero=c)
        self.native[name] = f
        return f

    def modified(self):
        """The first operand array that no longer equals the copy taken when it was handed out."""
        for arr, pristine, name, what in self.handed:
            if arr.shape != pristine.shape or arr.tobytes() != pristine.tobytes():
                return name, what, pristine, arr
        for name, f in self.native.items():
            d = self.data[name]
            if d["kind"] == "quad":
                ok = np.array_equal(f.quad_coeffs, d["q"]) and np.array_equal(f.linear_coeffs.ravel(), d["lc"])
            else:
                co = f.coefficients
                co = co.toarray() if hasattr(co, "toarray") else co
                ok = np.array_equal(co, d["a"]) and np.array_equal(f.value_at_zero, d["b"])
            if not ok:
                return name, "coefficients", None, None
        return None


def leaf_dual(name, x):
    d = data_of(name)
    n = x.size
    if d["kind"] == "user":
        # the operands are *given*: same callables as handed to gemseo, hence no rounding difference
        return D(d["comp"](x), array(d["jac"](x), dtype=float))
    if d["kind"] == "lin":
        a, b = d["a"], d["b"]
        v = array([sum(a[i, j] * x[j] for j in range(n)) + b[i] for i in range(len(b))])
        return D(v, a, (n + 1) * 2 * U * (abs(a) @ abs(x) + abs(b)), np.zeros_like(a))
    q, lc, c = d["q"], d["lc"], d["c"]
    v = sum(q[i, j] * x[i] * x[j] for i in range(n) for j in range(n)) + sum(lc[j] * x[j] for j in range(n)) + c
    g = (q + q.T) @ x + lc
    ev = (n * n + n + 2) * 2 * U * (abs(x) @ abs(q) @ abs(x) + abs(lc) @ abs(x) + abs(c))
    eg = (2 * n + 2) * 2 * U * ((abs(q) + abs(q.T)) @ abs(x) + abs(lc))
    return D([v], g[None, :], [ev], eg[None, :])


# ---------------------------------------------------------------------------------------------------
# trees
# ---------------------------------------------------------------------------------------------------
BINOPS = {"+": operator.add, "-": operator.sub, "*": operator.mul, "/": operator.truediv}


def t_dim(t):
    k = t[0]
    if k == "leaf":
        return LEAF_DIM[t[1]]
    if k == "num":
        return 1
    if k == "arr":
        return len(t[1])
    if k in ("neg", "offset"):
        return t_dim(t[1])
    return max(t_dim(t[1]), t_dim(t[2]))


def t_depth(t):
    k = t[0]
    if k in ("leaf", "num", "arr"):
        return 0
    if k in ("neg", "offset"):
        return 1 + t_depth(t[1])
    return 1 + max(t_depth(t[1]), t_depth(t[2]))


def t_leaves(t, out=None):
    out = [] if out is None else out
    if t[0] == "leaf":
        out.append(t[1])
    elif t[0] not in ("num", "arr"):
        for c in t[1:]:
            if isinstance(c, list):
                t_leaves(c, out)
    return out


def t_key(t):
    k = t[0]
    if k == "leaf":
        return t[1]
    if k == "num":
        return repr(t[1])
    if k == "arr":
        return "a" + repr(t[1])
    if k == "neg":
        return f"-({t_key(t[1])})"
    if k == "offset":
        return f"off({t_key(t[1])},{t_key(t[2])})"
    return f"({t_key(t[1])}{k}{t_key(t[2])})"


def t_subtrees(t):
    """Proper function sub-trees that are composites."""
    out = []
    for c in t[1:]:
        if isinstance(c, list) and c[0] not in ("leaf", "num", "arr"):
            out.append(c)
            out.extend(t_subtrees(c))
    return out


def t_class(t, n=2):
    k = t[0]
    if k == "leaf":
        return leaf_class(t[1])
    if k == "num":
        return "number"
    if k == "arr":
        return "array"
    m = t_dim(t)
    return "scalar-composite" if m == 1 else ("vector-composite m=n" if m == n else "vector-composite m!=n")


def t_build(t, env):
    k = t[0]
    if k == "leaf":
        return env.get(t[1])
    if k == "num":
        return float(t[1])
    if k == "arr":
        return array(t[1], dtype=float)
    if k == "neg":
        return -t_build(t[1], env)
    if k == "offset":
        return t_build(t[1], env).offset(t_build(t[2], env))
    return BINOPS[k](t_build(t[1], env), t_build(t[2], env))


def t_dual(t, x, memo):
    k = t[0]
    if k == "leaf":
        if t[1] not in memo:
            memo[t[1]] = leaf_dual(t[1], x)
        return memo[t[1]]
    if k in ("num", "arr"):
        return const(t[1], x.size)
    if k == "neg":
        return d_neg(t_dual(t[1], x, memo))
    a, b = t_dual(t[1], x, memo), t_dual(t[2], x, memo)
    if k in ("+", "offset"):
        return d_add(a, b)
    if k == "-":
        return d_add(a, b, -1.0)
    if k == "*":
        return d_mul(a, b)
    return d_div(a, b)


def compatible(da, db):
    # oracle boundary: the operator makers give the composite the output dimension of the first operand, i.e. two
    # function operands are assumed to have the same output dimension; mixed dimensions are not in the alphabet
    return da == db


def second_operands(first, funcs, c):
    """Function operands of a broadcast-compatible dimension, a number, the array of the output size."""
    da = t_dim(first)
    out = [f for f in funcs if compatible(da, t_dim(f))]
    out.append(["num", c["num"]])
    if da > 1:
        out.append(["arr", c[f"arr{da}"]])
    else:
        out.append(["arr", [c["arr2"][0]]])
    return out


def unary(first, c):
    da = t_dim(first)
    arr = c[f"arr{da}"] if da > 1 else [c["arr3"][1]]
    return [["neg", first], ["offset", first, ["num", c["num"]]], ["offset", first, ["num", c["off"]]], ["offset", first, ["arr", arr]]]


def trees_depth1(leaves, c):
    fl = [["leaf", n] for n in leaves]
    out = []
    for a in fl:
        out.extend(unary(a, c))
    for op in BINOPS:
        for a in fl:
            for b in second_operands(a, fl, c):
                out.append([op, a, b])
    return out


def trees_next(lower, exact_prev, c):
    """Trees of depth d+1 from the trees of depth <= d (``lower``) among which ``exact_prev`` have depth d."""
    prev_keys = {t_key(t) for t in exact_prev}
    for a in exact_prev:
        yield from unary(a, c)
    for op in BINOPS:
        for a in lower:
            a_is_prev = t_key(a) in prev_keys
            for b in second_operands(a, lower, c):
                if a_is_prev or (b[0] not in ("num", "arr") and t_key(b) in prev_keys):
                    yield [op, a, b]


def trees_comb(deep, shallow, c):
    """Depth d+1 trees whose root combines one depth-d tree with a leaf / constant (both sides)."""
    for a in deep:
        yield from unary(a, c)
    for op in BINOPS:
        for a in deep:
            for b in second_operands(a, shallow, c):
                yield [op, a, b]
        for a in shallow:
            for b in deep:
                if compatible(t_dim(a), t_dim(b)):
                    yield [op, a, b]


# ---------------------------------------------------------------------------------------------------
# comparison of a gemseo function with the oracle
# ---------------------------------------------------------------------------------------------------
def dense(j):
    if hasattr(j, "toarray"):
        j = j.toarray()
    return np.atleast_2d(np.asarray(j, dtype=float))


def short(a):
    return np.array2string(np.asarray(a), precision=6, separator=",").replace("\n", "")


class Verdict:
    def __init__(self):
        self.bad = []  # (invariant, message, point)
        self.tainted = []  # first mismatch confined to the entries flagged by the oracle (D.tv / D.td), see h_conlin
        self.notes = {}  # counters to add to the tally (coverage classes of the case)
        self.where = None  # boolean mask of the mismatching entries of the first "value" / "jacobian" entry of ``bad``
        self.checked = 0
        self.skipped = 0
        self.max_rel_tol = 0.0


def compare(fn, oracle, pts, env, vd, twice=True):
    """Evaluate ``fn`` (value, Jacobian, value again) at every point and compare with ``oracle(x) -> D``."""
    for x in pts:
        try:
            ref = oracle(x)
            if not (np.all(np.isfinite(ref.v)) and np.all(np.isfinite(ref.d))):
                raise Singular
        except Singular:
            vd.skipped += 1
            continue
        # scale = largest magnitude met by the oracle while evaluating the program (operands and intermediate terms)
        scale_v = scale_d = max(ref.mag, 1e-300)
        # + underflow floor: the rounding model holds above the subnormal range only; intermediates such as
        # exp(-rho*gap)/sum^2 (|sum^2| <= (m e^rho)^2 ~ 1e88 for rho = 100) underflow below ~1e-308*1e88
        tol_v = SAFETY * ref.ev + UNDERFLOW * (1.0 + scale_v)
        tol_d = SAFETY * ref.ed + UNDERFLOW * (1.0 + scale_d)
        rel = max(tol_v.max() / scale_v, tol_d.max() / scale_d)
        if rel > ILL:  # oracle boundary: the point does not resolve the formula in 64 bits
            vd.skipped += 1
            continue
        vd.max_rel_tol = max(vd.max_rel_tol, rel)
        vd.checked += 1
        xin = x.copy()
        try:
            v1 = fn.evaluate(xin)
            v1c = np.array(v1, dtype=float, copy=True)
        except OperandModified as e:
            vd.bad.append(("operand-modified", str(e), x))
            return
        except Exception as e:
            vd.bad.append(("raises:evaluate", f"{type(e).__name__}: {str(e)[:160]}", x))
            return
        mod = env.modified() if env is not None else None
        if mod is None:
            try:
                j = fn.jac(xin)
                jd = dense(j).copy()
            except Exception as e:
                mod = env.modified() if env is not None else None
                if mod is None:
                    vd.bad.append(("raises:jacobian", f"{type(e).__name__}: {str(e)[:160]}", x))
                    return
            else:
                mod = env.modified() if env is not None else None
        if mod is not None:
            name, what, pristine, now = mod
            vd.bad.append(("operand-modified", f"the {what} array returned by operand {name} was modified in place: {short(pristine) if pristine is not None else ''} -> {short(now) if now is not None else ''}", x))
            return
        if not np.array_equal(xin, x):
            vd.bad.append(("input-modified", f"input vector {short(x)} -> {short(xin)}", x))
            return
        v = np.atleast_1d(v1c).reshape(-1) if v1c.ndim <= 1 else v1c
        if v.shape != ref.v.shape:
            vd.bad.append(("value-shape", f"value shape {np.shape(v1)} expected ({ref.m},): got {short(v1c)} expected {short(ref.v)}", x))
            return
        ok_v = abs(v - ref.v) <= tol_v
        if not np.all(ok_v):
            entry = ("value", f"value {short(v)} expected {short(ref.v)} (tolerance {short(tol_v)})", x)
            if ref.tv is None or not np.all(ok_v | ref.tv):
                vd.where = ~ok_v if ref.tv is None else ~(ok_v | ref.tv)
                vd.bad.append(entry)
                return
            if not vd.tainted:
                vd.tainted.append(entry)
        if jd.shape != ref.d.shape:
            vd.bad.append(("jacobian-shape", f"Jacobian shape {np.shape(j)} expected {ref.d.shape} (or 1-D for a scalar function): got {short(jd)} expected {short(ref.d)}", x))
            return
        ok_d = abs(jd - ref.d) <= tol_d
        if not np.all(ok_d):
            entry = ("jacobian", f"Jacobian {short(jd)} expected {short(ref.d)} (tolerance {short(tol_d.max())})", x)
            if ref.td is None or not np.all(ok_d | ref.td):
                vd.where = ~ok_d if ref.td is None else ~(ok_d | ref.td)
                vd.bad.append(entry)
                return
            if not vd.tainted:
                vd.tainted.append(entry)
        if twice:
            try:
                v2 = np.array(fn.evaluate(xin), dtype=float)
            except Exception as e:
                vd.bad.append(("raises:evaluate", f"second evaluation {type(e).__name__}: {str(e)[:160]}", x))
                return
            if v2.shape != v1c.shape or v2.tobytes() != v1c.tobytes():
                vd.bad.append(("re-evaluation", f"second evaluation {short(v2)} differs from the first {short(v1c)}", x))
                return


def report(tally, case, sig_tail, vd, key, nontrivial, what, bad_key=None):
    """One tally.case per executed case, one violation per (invariant, op, operand classes)."""
    if vd.bad and vd.bad[0][0].startswith("raises:") and has_sparse_operand(case):
        # oracle boundary: the statement is silent about the container of a Jacobian; a composite that *raises* on a
        # sparse Jacobian (scipy.sparse array from a sparse MDOLinearFunction) is loud, not inexact: recorded as an
        # outcome, not as a violation (a wrong value or derivative with a sparse operand remains a violation)
        tally.case(key, nontrivial=False, outcome=f"unsupported:sparse-jacobian({sig_tail['op']})")
        if bad_key is not None:
            tally.count("bad:" + bad_key)
        return
    if vd.bad:
        inv, msg, x = vd.bad[0]
        sig = {"invariant": inv, **sig_tail}
        c = dict(case)
        c["point"] = None if x is None else [float(t) for t in x]
        c["seed"] = CFG["seed"]
        tally.violation(sig, c, f"{what}: {msg}" + ("" if x is None else f" at x={short(x)}"))
        tally.case(key, nontrivial=nontrivial, outcome=f"violation:{inv}")
        if bad_key is not None:
            tally.count("bad:" + bad_key)
        return
    if vd.checked == 0:
        tally.case(key, nontrivial=False, outcome="no-regular-point")
        return
    tally.case(key, nontrivial=nontrivial, outcome="ok" if not vd.skipped else "ok(some points singular/ill-conditioned)", sample=case)
    tally.count("points_checked", vd.checked)
    tally.count("points_skipped_singular_or_ill_conditioned", vd.skipped)
    tally.notes["max_rel_tol"] = max(tally.notes.get("max_rel_tol", 0.0), vd.max_rel_tol)


def has_sparse_operand(case):
    trees = [case[k] for k in ("tree", "base") if k in case] + list(case.get("bases", []))
    names = [n for t in trees for n in t_leaves(t)] + ([case["target"]] if "target" in case else [])
    return any(ALL_LIN.get(n, (0, 0, False))[2] for n in names)


def guarded_build(build, vd):
    try:
        return build()
    except Exception as e:
        vd.bad.append(("raises:build", f"{type(e).__name__}: {str(e)[:160]}", None))
        return None


def masked(tree):
    if not BAD:
        return False
    return any(t_key(s) in BAD for s in t_subtrees(tree))


# ---------------------------------------------------------------------------------------------------
# case runners
# ---------------------------------------------------------------------------------------------------
def tree_sig(t):
    k = t[0]
    if k == "neg":
        return {"op": "neg", "operands": t_class(t[1])}
    return {"op": k, "operands": f"{t_class(t[1])},{t_class(t[2])}"}


def tree_nontrivial(t):
    """More than the repository's tests exercise: a vector-valued, linear, quadratic or array operand, or depth >= 2."""
    if t_depth(t) >= 2:
        return True
    ops = [c for c in t[1:] if isinstance(c, list)]
    return any(t_dim(o) > 1 or (o[0] == "leaf" and o[1] not in ("s", "s0")) or o[0] == "arr" for o in ops)


def run_tree(case, tally):
    t = case["tree"]
    key = "tree:" + t_key(t)
    if masked(t):
        tally.case(key, nontrivial=False, outcome="masked(sub-tree failed or unsupported)")
        tally.count("bad:" + t_key(t))
        return
    vd = Verdict()
    env = Env()
    fn = guarded_build(lambda: t_build(t, env), vd)
    if fn is not None:
        pts = CFG["grid"] if (t_depth(t) <= 1 or case.get("grid")) else CFG["diag"]
        compare(fn, lambda x: t_dual(t, x, {}), pts, env, vd)
    report(tally, case, tree_sig(t), vd, key, tree_nontrivial(t), f"tree {t_key(t)}", bad_key=t_key(t))


def base_dual(base, x):
    return t_dual(base, x, {})


def points_for(n):
    return {2: CFG["grid"], 3: CFG["pts3"], 4: CFG["pts4"]}[n]


def order_class(frozen):
    return "increasing" if list(frozen) == sorted(frozen) else "not-increasing"


def base_cls(b):
    return t_class(b, LEAF_NIN[t_leaves(b)[0]])


def h_restriction(case, env, vd):
    from gemseo.core.mdo_functions.function_restriction import FunctionRestriction

    b, frozen = case["base"], case["frozen"]
    n = LEAF_NIN[t_leaves(b)[0]]
    allpts = points_for(n)
    # ``frozen`` is an ORDERED selection (not necessarily increasing); the frozen values are pairwise distinct, so that
    # pairing a value with the wrong index is visible; the oracle completes the full vector index by index
    fvals = [CFG["frozen"][i] for i in frozen]
    active = [i for i in range(n) if i not in frozen]
    f = guarded_build(lambda: t_build(b, env), vd)
    fn = None
    if f is not None:
        fn = guarded_build(lambda: FunctionRestriction(array(frozen, dtype=int), array(fvals, dtype=float), n, f, name="r"), vd)

    def oracle(xs):
        x = np.empty(n)
        x[active] = xs
        x[frozen] = fvals
        r = base_dual(b, x)
        return D(r.v, r.d[:, active], r.ev, r.ed[:, active], r.mag)

    pts = []
    for p in allpts:
        q = p[active]
        if not any(np.array_equal(q, r) for r in pts):
            pts.append(q)
    sig = {"op": "FunctionRestriction", "operands": f"{base_cls(b)};frozen={len(frozen)}of{n};order={order_class(frozen)}"}
    return fn, oracle, pts, sig, f"FunctionRestriction({t_key(b)}, frozen={frozen}={fvals})"


MATRICES = {
    "A22": [[1.0, 2.0], [0.5, -1.0]],
    "A23": [[1.0, 2.0, 0.0], [0.0, -1.0, 3.0]],
    "A21": [[2.0], [-0.5]],
    "A33": [[1.0, 0.0, 2.0], [0.5, -1.0, 0.0], [0.0, 1.5, 1.0]],
    "A32": [[1.0, -1.0], [0.0, 2.0], [0.5, 0.25]],
}
ZPTS = {1: [[0.7], [-1.2], [0.0]], 2: [[1.0, 0.5], [0.0, 2.0], [-0.8, 0.3]], 3: [[1.0, 0.5, -1.0], [0.0, 2.0, 1.0], [-0.7, 0.0, 0.4]]}


def h_lincomp(case, env, vd):
    from gemseo.core.mdo_functions.linear_composite_function import LinearCompositeFunction

    b = case["base"]
    mat = array(MATRICES[case["matrix"]])
    f = guarded_build(lambda: t_build(b, env), vd)
    fn = guarded_build(lambda: LinearCompositeFunction(f, mat), vd) if f is not None else None

    def oracle(z):
        return d_right_matmul(base_dual(b, mat.dot(z)), mat)

    n, p = mat.shape
    shape = "p=n" if p == n else "p!=n"
    sig = {"op": "LinearCompositeFunction", "operands": f"{base_cls(b)};matrix {shape}"}
    return fn, oracle, [array(z) for z in ZPTS[p]], sig, f"LinearCompositeFunction({t_key(b)}, A={MATRICES[case['matrix']]})"


def h_concat(case, env, vd):
    from gemseo.core.mdo_functions.concatenate import Concatenate

    bases = case["bases"]
    fs = guarded_build(lambda: [t_build(b, env) for b in bases], vd)
    fn = guarded_build(lambda: Concatenate(fs, "c"), vd) if fs is not None else None
    sig = {"op": "Concatenate", "operands": ",".join(base_cls(b) for b in bases)}
    return fn, (lambda x: d_stack([base_dual(b, x) for b in bases])), CFG["grid"], sig, f"Concatenate({[t_key(b) for b in bases]})"


SPACES = {  # per component: (lb, ub) ; None = unbounded (not normalized)
    "bounded": [(-2.0, 3.0), (0.5, 4.5)],
    "one-unbounded": [(-1.0, 1.0), (None, None)],
    "half-bounded": [(0.0, None), (-3.0, -1.0)],
    "degenerate lb=ub": [(1.5, 1.5), (-1.0, 2.0)],
    "bounded3": [(-2.0, 3.0), (0.5, 4.5), (-1.0, 0.0)],
}


def h_normalize(case, env, vd):
    from gemseo.algos.design_space import DesignSpace

    name = case["base"][1]
    sp = SPACES[case["space"]]
    split = case["split"]  # one variable of size n, or n variables of size 1
    n = len(sp)
    ds = DesignSpace()
    lbs = array([-np.inf if lo is None else lo for lo, _ in sp])
    ubs = array([np.inf if up is None else up for _, up in sp])
    if split:
        for i in range(n):
            ds.add_variable(f"x{i}", 1, lower_bound=lbs[i], upper_bound=ubs[i])
    else:
        ds.add_variable("x", n, lower_bound=lbs, upper_bound=ubs)
    f = env.get(name)
    fn = guarded_build(lambda: f.normalize(ds), vd)
    normed = np.isfinite(lbs) & np.isfinite(ubs)
    span = np.where(normed, ubs - lbs, 1.0)
    shift = np.where(normed, lbs, 0.0)

    def oracle(u):
        # docstring: "a linear function using a scaled input vector": g(u) = f(x(u)), x = lb + (ub - lb) u on the
        # normalized components, x = u elsewhere  (DesignSpace.unnormalize_vect)
        x = shift + span * u
        r = leaf_dual(name, x)
        a = abs(data_of(name)["a"])
        return D(r.v, r.d * span[None, :], r.ev + 4 * U * (a @ (abs(shift) + abs(span * u))), U * abs(r.d * span[None, :]))

    upts = [array(z) for z in ([[0.0, 1.0], [0.25, 0.5], [1.0, 0.0]] if n == 2 else [[0.0, 1.0, 0.5], [0.25, 0.5, 1.0], [1.0, 0.0, 0.0]])]
    sig = {"op": "MDOLinearFunction.normalize", "operands": f"{leaf_class(name)};space={case['space']}"}
    return fn, oracle, upts, sig, f"{name}.normalize(space {case['space']}, split={split})"


def h_linrestrict(case, env, vd):
    name, frozen = case["base"][1], case["frozen"]
    n = LEAF_NIN[name]
    allpts = points_for(n)
    fvals = [CFG["frozen"][i] for i in frozen]
    active = [i for i in range(n) if i not in frozen]
    f = env.get(name)
    fn = guarded_build(lambda: f.restrict(array(frozen, dtype=int), array(fvals, dtype=float)), vd)

    def oracle(xs):
        x = np.empty(n)
        x[active] = xs
        x[frozen] = fvals
        r = leaf_dual(name, x)
        return D(r.v, r.d[:, active], 2 * r.ev, r.ed[:, active], r.mag)

    pts = []
    for p in allpts:
        q = p[active]
        if not any(np.array_equal(q, r) for r in pts):
            pts.append(q)
    sig = {"op": "MDOLinearFunction.restrict", "operands": f"{leaf_class(name)};frozen={len(frozen)}of{n};order={order_class(frozen)}"}
    return fn, oracle, pts, sig, f"{name}.restrict({frozen}, {fvals})"


def _x0s(n):
    return points_for(n)


def h_taylor1(case, env, vd):
    from gemseo.core.mdo_functions.taylor_polynomials import compute_linear_approximation

    b = case["base"]
    n = LEAF_NIN[t_leaves(b)[0]]
    x0 = _x0s(n)[case["x0"]]
    f = guarded_build(lambda: t_build(b, env), vd)
    fn = guarded_build(lambda: compute_linear_approximation(f, x0.copy()), vd) if f is not None else None

    def oracle(x):
        r = base_dual(b, x0)  # f(x0) + J(x0) (x - x0)
        dx = x - x0
        v = r.v + r.d @ dx
        ev = r.ev + r.ed @ abs(dx) + (n + 3) * 2 * U * (abs(r.v) + abs(r.d) @ (abs(x) + abs(x0)))
        return D(v, r.d, ev, r.ed, r.mag)

    sig = {"op": "compute_linear_approximation", "operands": base_cls(b)}
    return fn, oracle, _x0s(n), sig, f"compute_linear_approximation({t_key(b)}, x0={short(x0)})"


HESSIANS = {2: {"zero": [[0.0, 0.0], [0.0, 0.0]], "sym": [[2.0, -0.5], [-0.5, 1.0]]},
            3: {"zero": [[0.0] * 3] * 3, "sym": [[2.0, -0.5, 0.0], [-0.5, 1.0, 0.25], [0.0, 0.25, -1.5]]}}


def h_taylor2(case, env, vd):
    from gemseo.core.mdo_functions.taylor_polynomials import compute_quadratic_approximation

    b = case["base"]
    n = LEAF_NIN[t_leaves(b)[0]]
    x0 = _x0s(n)[case["x0"]]
    if case["hessian"] == "exact":  # only for the quadratic leaf: the model must reproduce the function
        q = array(QUAD[b[1]][0])
        hess = q + q.T
    else:
        hess = array(HESSIANS[n][case["hessian"]])
    f = guarded_build(lambda: t_build(b, env), vd)
    fn = guarded_build(lambda: compute_quadratic_approximation(f, x0.copy(), hess.copy()), vd) if f is not None else None

    def oracle(x):
        if case["hessian"] == "exact":
            return base_dual(b, x)
        r = base_dual(b, x0)  # f(x0) + g.(x - x0) + 1/2 (x - x0)' H (x - x0), H symmetric
        dx = x - x0
        v = r.v + r.d @ dx + 0.5 * dx @ hess @ dx
        g = r.d + (hess @ dx)[None, :]
        mag = abs(r.v) + abs(r.d) @ (abs(x) + abs(x0)) + (abs(x) + abs(x0)) @ abs(hess) @ (abs(x) + abs(x0))
        ev = r.ev + r.ed @ abs(dx) + (n * n + 4) * 2 * U * mag
        eg = r.ed + (n + 3) * 2 * U * (abs(r.d) + (abs(hess) @ (abs(x) + abs(x0)))[None, :])
        return D(v, g, ev, eg, r.mag)

    sig = {"op": "compute_quadratic_approximation", "operands": f"{base_cls(b)};hessian={case['hessian']}"}
    return fn, oracle, _x0s(n), sig, f"compute_quadratic_approximation({t_key(b)}, x0={short(x0)}, H={case['hessian']})"


THRESHOLD = 1e-9


def h_conlin(case, env, vd):
    from gemseo.core.mdo_functions.convex_linear_approx import ConvexLinearApprox

    b = case["base"]
    n = LEAF_NIN[t_leaves(b)[0]]
    pts = CFG["nz2"] if n == 2 else CFG["nz3"]  # oracle boundary: reciprocal variables need x != 0
    x0 = pts[case["x0"]]
    mask = array(case["mask"], dtype=bool) if case["mask"] is not None else None
    f = guarded_build(lambda: t_build(b, env), vd)
    fn = guarded_build(lambda: ConvexLinearApprox(x0.copy(), f, None if mask is None else mask.copy()), vd) if f is not None else None
    mk = np.ones(n, dtype=bool) if mask is None else mask

    seen = {"coupled": False, "reciprocal": False}

    def oracle(x):
        # convex linearization (Fleury & Braibant): f(x~) + sum_{c>0} c_i (x_i - x0_i) + sum_{c<0} c_i x0_i^2 (1/x0_i - 1/x_i)
        # = f(x~) + sum_{c<0} (-c_i x0_i^2) (1/x_i - 1/x0_i); x~ = x0 on the approximated inputs, x elsewhere; the
        # derivative w.r.t. a non-approximated input is therefore df/dx_i AT x~ (not at x), w.r.t. an approximated one
        # c_i or -c_i x0_i^2 / x_i^2
        r0 = base_dual(b, x0)
        merged = np.where(mk, x0, x)
        rm = base_dual(b, merged)
        m = r0.m
        v = rm.v.copy()
        d = rm.d.copy()
        ev = rm.ev.copy()
        ed = rm.ed.copy()
        tv = np.zeros(m, dtype=bool)
        td = np.zeros((m, n), dtype=bool)
        for i in range(n):
            if not mk[i]:
                continue
            d[:, i] = 0.0
            ed[:, i] = 0.0
            for j in range(m):
                c = r0.d[j, i]
                if abs(c) <= 10 * THRESHOLD:  # oracle boundary: the sign of a derivative within the threshold is open
                    if abs(c) > 0.0:
                        raise Singular
                    continue
                if c > 0:
                    v[j] += c * (x[i] - x0[i])
                    d[j, i] = c
                    ev[j] += r0.ed[j, i] * abs(x[i] - x0[i]) + 4 * U * abs(c) * (abs(x[i]) + abs(x0[i]))
                    ed[j, i] = r0.ed[j, i]
                else:
                    k = -c * x0[i] ** 2
                    v[j] += k * (1.0 / x[i] - 1.0 / x0[i])
                    d[j, i] = -k / x[i] ** 2
                    ev[j] += (r0.ed[j, i] * x0[i] ** 2 + 6 * U * abs(k)) * (abs(1.0 / x[i]) + abs(1.0 / x0[i]))
                    ed[j, i] = (r0.ed[j, i] * x0[i] ** 2 + 6 * U * abs(k)) / x[i] ** 2
                    tv[j] = td[j, i] = True  # a reciprocal term enters this output / this Jacobian entry
        ev += 4 * n * U * abs(v)
        if not np.all(mk) and not np.array_equal(merged, x):
            try:  # coverage only: do the columns of the non-approximated inputs differ between x~ and x ?
                if not np.array_equal(base_dual(b, x).d[:, ~mk], rm.d[:, ~mk]):
                    seen["coupled"] = True
            except Singular:
                pass
        seen["reciprocal"] = seen["reciprocal"] or bool(tv.any())
        out = D(v, d, ev, ed, max(r0.mag, rm.mag))
        out.tv, out.td = tv, td
        return out

    mask_cls = "none" if mask is None else "all-true" if mask.all() else "all-false" if not mask.any() else "mixed"
    sig = {"op": "ConvexLinearApprox", "operands": f"{base_cls(b)};mask={mask_cls}"}
    what = f"ConvexLinearApprox(x0={short(x0)}, {t_key(b)}, mask={case['mask']})"
    if fn is None or vd.bad:
        return None, oracle, pts, sig, what
    # The registered known finding (signature op=ConvexLinearApprox, invariant value / jacobian: reciprocal step
    # 1/(x - x0) instead of 1/x - 1/x0) can only touch the entries into which a reciprocal term enters: the outputs j with
    # a negative dJ_ji(x0) on some approximated input i (value) and the entries (j, i) themselves (Jacobian); the oracle
    # flags them (D.tv / D.td).  The oracle is the closed form on EVERY entry; only the signature differs: a mismatch on a
    # flagged entry keeps the registered signature, a mismatch on any other entry (outputs without reciprocal term,
    # direct-term entries, columns of the non-approximated inputs = df/dx_i at the merged point) gets its own "op" and
    # is therefore never matched by the known finding.  All the points are compared (a flagged mismatch does not stop
    # the comparison), the unflagged mismatch has priority.
    compare(fn, oracle, pts, env, vd)
    if vd.bad and vd.bad[0][0] in ("value", "jacobian") and vd.where is not None:
        if vd.bad[0][0] == "value":
            part = "outputs without reciprocal term"
        elif vd.where[:, ~mk].any():
            part = "columns of the non-approximated inputs"
        else:
            part = "entries without reciprocal term"
        sig["op"] = f"ConvexLinearApprox[{part}]"
    elif not vd.bad and vd.tainted:
        vd.bad.append(vd.tainted[0])
    case_cls = f"mask={mask_cls};{'coupled' if seen['coupled'] else 'not-coupled'};{'reciprocal' if seen['reciprocal'] else 'direct-only'}"
    vd.notes = {f"conlin[{case_cls}]": 1}
    return _Done, oracle, pts, sig, what


# --- aggregations ------------------------------------------------------------------------------------
class _DoneType:
    """Sentinel: the helper already ran its own comparison."""


_Done = _DoneType()


AGGS = ["IKS", "lower_bound_KS", "upper_bound_KS", "MAX", "SUM", "POS_SUM"]
AGG_FUNCS = {"IKS": "aggregate_iks", "lower_bound_KS": "aggregate_lower_bound_ks", "upper_bound_KS": "aggregate_upper_bound_ks",
             "MAX": "aggregate_max", "SUM": "aggregate_sum_square", "POS_SUM": "aggregate_positive_sum_square"}
SCALES = {"default": None, "number": 2.5, "vector": [0.5, 3.0, 1.5, 2.0]}


def agg_dual(method, g, idx, scale, rho, full_len):
    """Value/derivative of the aggregation of the dual vector ``g``; for the readings left open by the
    documentation every admissible value is returned: list of (D, label)."""
    sel = g if idx is None else d_take(g, idx)
    k = sel.m
    sc = const(np.ones(k) if scale is None else (np.full(k, scale) if np.isscalar(scale) else scale), g.d.shape[1])
    if method in ("SUM", "POS_SUM"):
        # "the scaling factor for multiplying the constraints": sum(scale * g^2) (the code) or sum((scale g)^2)
        out = []
        for label, term in (("scale*g^2", d_mul(sc, d_mul(sel, sel))), ("(scale*g)^2", d_mul(d_mul(sc, sel), d_mul(sc, sel)))):
            if method == "POS_SUM":
                if np.any(abs(sel.v) <= 8 * sel.ev + 1e-300):
                    raise Singular  # the side of g = 0 is not resolved
                term = d_mul(term, const((sel.v > 0).astype(float), g.d.shape[1]))
            out.append((d_sum(term), label))
        return out
    t = d_mul(sc, sel)
    order = np.argsort(t.v)
    top = t.v[order[-1]]
    if method == "MAX":
        if k > 1 and top - t.v[order[-2]] <= 8 * (t.ev[order[-1]] + t.ev[order[-2]]) + 1e-300:
            raise Singular  # tie: the maximum is not differentiable there
        return [(d_take(t, [order[-1]]), "max")]
    shifted = d_add(t, const([top], g.d.shape[1]), -1.0)
    rho_c = const([rho], g.d.shape[1])
    e = d_exp(d_mul(rho_c, shifted))
    if method == "IKS":
        return [(d_div(d_sum(d_mul(t, e)), d_sum(e)), "IKS")]
    ks = d_add(const([top], g.d.shape[1]), d_div(d_log(d_sum(e)), rho_c))
    if method == "upper_bound_KS":
        return [(ks, "KS")]
    # lower bound: KS - log(alpha)/rho; alpha = number of aggregated components, or the size of the whole vector
    out = []
    for alpha in sorted({k, full_len}):
        out.append((d_add(ks, const([np.log(alpha) / rho], g.d.shape[1]), -1.0), f"KS-log({alpha})/rho"))
    return out


def compare_multi(fn, oracles, pts, env, vd):
    """``oracles(x)`` returns several admissible (D, label); the function must match one of them, the same at all points."""
    labels = None
    for x in pts:
        try:
            labels = [lab for _, lab in oracles(x)]
            break
        except Singular:
            continue
    if labels is None:
        return
    stage = {"value-shape": 0, "value": 0, "jacobian-shape": 1, "jacobian": 1, "re-evaluation": 2}
    last = None
    for i, lab in enumerate(labels):
        trial = Verdict()
        compare(fn, lambda x, i=i: oracles(x)[i][0], pts, env, trial)
        if not trial.bad:
            vd.checked += trial.checked
            vd.skipped += trial.skipped
            vd.max_rel_tol = max(vd.max_rel_tol, trial.max_rel_tol)
            return
        inv = trial.bad[0][0]
        if inv not in stage:  # raises / operand-modified: independent of the reading
            last = trial
            break
        # report the reading under which the function got furthest
        if last is None or (stage[inv], trial.checked) > (stage[last.bad[0][0]], last.checked):
            last = trial
    vd.bad.extend(last.bad)
    vd.checked += last.checked


def ks_bounds(fn, method, gname, idx, scale, pts, vd):
    """lower_bound_KS <= max(scale * g[idx]) <= upper_bound_KS, from fresh (unmemoized) operand values."""
    if method not in ("lower_bound_KS", "upper_bound_KS") or vd.bad:
        return
    comp = ALL_USER[gname][0]
    for x in pts:
        g = array(comp(x), dtype=float)
        sel = g if idx is None else g[idx]
        sc = 1.0 if scale is None else (scale if np.isscalar(scale) else array(scale))
        mx = (sel * sc).max()
        try:
            val = float(np.asarray(fn.evaluate(x.copy())).reshape(-1)[0])
        except Exception as e:
            vd.bad.append(("raises:evaluate", f"{type(e).__name__}: {str(e)[:160]}", x))
            return
        slack = 64 * U * (abs(mx) + 1.0)
        if method == "lower_bound_KS" and not val <= mx + slack:
            vd.bad.append(("ks-bound", f"lower_bound_KS = {val!r} exceeds the true maximum {mx!r}", x))
            return
        if method == "upper_bound_KS" and not val >= mx - slack:
            vd.bad.append(("ks-bound", f"upper_bound_KS = {val!r} is below the true maximum {mx!r}", x))
            return


def agg_scale(case, k):
    s = SCALES[case["scale"]]
    if isinstance(s, list):
        return array(s[:k])
    return s


def h_aggregate(case, env, vd):
    from gemseo.algos.aggregation import aggregation_func as af

    method, gname = case["method"], case["base"][1]
    idx = case["indices"]
    mfull = LEAF_DIM[gname]
    k = mfull if idx is None else len(idx)
    scale = agg_scale(case, k)
    env.f_type = "eq" if method == "SUM" else "ineq"
    g = env.get(gname)
    kw = {}
    if idx is not None:
        kw["indices"] = list(idx)
    if scale is not None:
        kw["scale"] = scale.copy() if isinstance(scale, np.ndarray) else scale
    if case.get("rho") is not None and method in ("IKS", "lower_bound_KS", "upper_bound_KS"):
        kw["rho"] = case["rho"]
    rho = kw.get("rho", 1e2)
    fn = guarded_build(lambda: getattr(af, AGG_FUNCS[method])(g, **kw), vd)
    n = LEAF_NIN[gname]
    pts = CFG["grid"] if n == 2 else CFG["pts3"]

    def oracles(x):
        return agg_dual(method, leaf_dual(gname, x), idx, scale, rho, mfull)

    sig = {"op": AGG_FUNCS[method], "operands": f"{leaf_class(gname)};indices={'none' if idx is None else 'group'};scale={case['scale']}"}
    what = f"{AGG_FUNCS[method]}({gname}, {kw})"
    if fn is not None and not vd.bad:
        compare_multi(fn, oracles, pts, env, vd)
        ks_bounds(fn, method, gname, idx, scale, pts, vd)
    return None if fn is None or vd.bad else _Done, oracles, pts, sig, what


def h_discipline(case, env, vd):
    from gemseo.disciplines.constraint_aggregation import ConstraintAggregation

    method, sizes, idx = case["method"], case["sizes"], case["indices"]
    mfull = sum(sizes)
    k = mfull if idx is None else len(idx)
    scale = agg_scale(case, k)
    kw = {}
    if idx is not None:
        kw["indices"] = list(idx)
    if scale is not None:
        kw["scale"] = scale.copy() if isinstance(scale, np.ndarray) else scale
    if case.get("rho") is not None and method in ("IKS", "lower_bound_KS", "upper_bound_KS"):
        kw["rho"] = case["rho"]
    rho = kw.get("rho", 1e2)
    names = [f"g{i}" for i in range(len(sizes))]
    # differentiated inputs: None = linearize(compute_all_jacobians=True); a list of input positions = these inputs are
    # declared with add_differentiated_inputs and the discipline is linearized with compute_all_jacobians=False, as a
    # formulation / chain does when only some of the aggregated constraints depend on the design variables.  The
    # aggregated value depends on ALL the constraints whatever the differentiated inputs: the requested blocks are the
    # corresponding columns of the closed-form derivative of the aggregation of the whole constraint vector.
    diff = case.get("diff")
    diff_cls = "all(compute_all_jacobians)" if diff is None else "all-declared" if len(diff) == len(sizes) else "strict-subset"
    sig = {"op": "ConstraintAggregation",
           "operands": f"{method};inputs={len(sizes)};indices={'none' if idx is None else 'group'};scale={case['scale']};differentiated={diff_cls}"}
    what = f"ConstraintAggregation({names} of sizes {sizes}, {method}, {kw})" \
        + ("" if diff is None else f", differentiated inputs {[names[i] for i in diff]}, compute_all_jacobians=False")
    disc = guarded_build(lambda: ConstraintAggregation(names, method, **kw), vd)
    if disc is None:
        return None, None, [], sig, what
    out_name = f"{method}_{names[0]}"
    gpts = [array(p[:mfull]) for p in GVALS]
    offs = np.concatenate([[0], np.cumsum(sizes)])
    wrt = list(range(len(sizes))) if diff is None else list(diff)
    cols = [c for i in wrt for c in range(offs[i], offs[i + 1])]
    if diff is not None:
        try:
            disc.add_differentiated_inputs([names[i] for i in diff])
            disc.add_differentiated_outputs([out_name])
        except Exception as e:
            vd.bad.append(("raises:build", f"{type(e).__name__}: {str(e)[:160]}", None))
            return None, None, [], sig, what

    class Fn:  # the discipline seen as a function of the concatenated constraint vector
        def _data(self, gv):
            data, off = {}, 0
            for nm, sz in zip(names, sizes):
                data[nm] = gv[off:off + sz].copy()
                off += sz
            return data

        def evaluate(self, gv):
            data = self._data(gv)
            keep = {nm: a.copy() for nm, a in data.items()}
            out = disc.execute(data)
            for nm in names:
                if not np.array_equal(data[nm], keep[nm]) or not np.array_equal(disc.io.data[nm], keep[nm]):
                    raise OperandModified(f"input {nm} modified by execute: {keep[nm]} -> {data[nm]} / {disc.io.data[nm]}")
            return out[out_name]

        def jac(self, gv):
            data = self._data(gv)
            if diff is None:
                disc.linearize(data, compute_all_jacobians=True)
            else:
                disc.linearize(data)
            # the blocks of the differentiated inputs only (whatever else the discipline returns is not looked at)
            return np.hstack([dense(disc.jac[out_name][names[i]]) for i in wrt])

    def oracles(gv):
        out = []
        for r, label in agg_dual(method, D(gv, np.eye(mfull)), idx, scale, rho, mfull):
            out.append((D(r.v, r.d[:, cols], r.ev, r.ed[:, cols], r.mag), label))
        return out

    compare_multi(Fn(), oracles, gpts, None, vd)
    if diff is not None and len(sizes) > 1:
        vd.notes = {f"discipline[inputs={len(sizes)};differentiated={diff_cls}]": 1}
    return None if vd.bad else _Done, oracles, gpts, sig, what


# --- histories on function objects: public setters of the defining data ------------------------------
ANCHORED_MODULES = ["mdo_function", "mdo_linear_function", "mdo_quadratic_function", "function_restriction",
                    "linear_composite_function", "concatenate", "convex_linear_approx", "taylor_polynomials"]
# setters of the data that define the value / Jacobian, per class ("func" and "jac" are edited together: a user who
# replaces the wrapped function replaces its Jacobian; replacing only one of them breaks the property by construction)
SETTERS = {
    "MDOFunction": ["func", "jac"],
    "MDOLinearFunction": ["coefficients", "value_at_zero"],
    "MDOQuadraticFunction": ["quad_coeffs", "linear_coeffs"],
}
IGNORED_SETTERS = {("MDOFunction", "input_names"), ("MDOFunction", "output_names"), ("MDOFunction", "expects_normalized_inputs")}
ALT_USER = {  # replacement (components, Jacobian rows) of a user function
    "s0": (lambda x: [x[0] ** 2 - 3.0 * x[1] + 8.0], lambda x: [[2 * x[0], -3.0]]),
    "v22": (lambda x: [x[1] ** 2 + x[0] + 5.0, 2.0 * x[0] * x[1] + 9.0], lambda x: [[1.0, 2 * x[1]], [2 * x[1], 2 * x[0]]]),
}


def discover_setters():
    """Public property setters defined by the MDOFunction classes of the anchored modules."""
    import importlib
    import inspect

    from gemseo.core.mdo_functions.mdo_function import MDOFunction

    found = set()
    for mod in ANCHORED_MODULES:
        module = importlib.import_module(f"gemseo.core.mdo_functions.{mod}")
        for _, cls in inspect.getmembers(module, inspect.isclass):
            if cls.__module__ != module.__name__ or not issubclass(cls, MDOFunction):
                continue
            for attr, value in vars(cls).items():
                if isinstance(value, property) and value.fset is not None and not attr.startswith("_"):
                    found.add((cls.__name__, attr))
    return found


def new_matrix(m, n, k, with_zero=False):
    a = array([[(-1.0) ** (i + j + k) * (0.5 + i + 0.25 * j + 1.5 * k) for j in range(n)] for i in range(m)])
    if with_zero:
        a[0, (k + 1) % n] = 0.0
    return a


def new_vector(m, k):
    return array([(-1.0) ** (i + k) * (3.5 + i + 2.0 * k) for i in range(m)])


def apply_edit(f, data, target, setter, k):
    """Apply one public setter to the gemseo object and return the defining data it must now have."""
    data = dict(data)
    m = LEAF_DIM[target]
    if setter == "quad_coeffs":
        data["q"] = new_matrix(2, 2, k) + array([[0.0, 1.0], [0.0, 0.0]])  # not symmetric
        f.quad_coeffs = data["q"].copy()
    elif setter == "linear_coeffs":
        data["lc"] = new_vector(2, k)
        f.linear_coeffs = data["lc"].copy()
    elif setter == "coefficients":
        data["a"] = new_matrix(m, 2, k, with_zero=data["sparse"])
        if data["sparse"]:
            from scipy.sparse import csr_array

            f.coefficients = csr_array(data["a"])
        else:
            f.coefficients = data["a"].copy()
    elif setter == "value_at_zero":
        if k == 2:  # a number: broadcast to the output dimension
            data["b"] = np.full(m, 1.75)
            f.value_at_zero = 1.75
        else:
            data["b"] = new_vector(m, k)
            f.value_at_zero = data["b"].copy()
    elif setter == "func+jac":
        comp, jacf = ALT_USER[target]
        returns, layout = ALL_USER[target][2:]
        data = {"kind": "user", "comp": comp, "jac": jacf}
        f.func = (lambda x: float(comp(x)[0])) if returns == "float" else (lambda x: array(comp(x), dtype=float))
        f.jac = (lambda x: array(jacf(x), dtype=float)[0]) if layout == "1d" else (lambda x: array(jacf(x), dtype=float))
    else:
        raise ValueError(setter)
    return data


def with_data(data, oracle):
    """Evaluate an oracle with the defining data ``data`` in force for the edited leaf."""

    def wrapped(x):
        saved = dict(CUR)
        CUR.clear()
        CUR.update(data)
        try:
            return oracle(x)
        finally:
            CUR.clear()
            CUR.update(saved)

    return wrapped


def history_kinds(target):
    """Composites of the edited function: label -> sub-case (a tree or a helper case)."""
    t = ["leaf", target]
    m = LEAF_DIM[target]
    partner = {"s0": "s", "v22": "w22"}.get(target) or {1: "s0", 2: "v22", 3: "v32"}[m]
    g = ["leaf", partner]
    c = CFG["consts"]
    arr = ["arr", c[f"arr{m}"] if m > 1 else [c["arr2"][1]]]
    kinds = {
        "-f": {"tree": ["neg", t]},
        "f*number": {"tree": ["*", t, ["num", c["num"]]]},
        "f/array": {"tree": ["/", t, arr]},
        "f.offset": {"tree": ["offset", t, ["num", c["off"]]]},
        "f*g": {"tree": ["*", t, g]},
        "g*f": {"tree": ["*", g, t]},
        "f-g": {"tree": ["-", t, g]},
        "g+f": {"tree": ["+", g, t]},
        "f/g": {"tree": ["/", t, g]},
        "g/f": {"tree": ["/", g, t]},
        "f*f": {"tree": ["*", t, t]},
        "FunctionRestriction": {"helper": "restriction", "base": t, "frozen": [1]},
        "LinearCompositeFunction": {"helper": "lincomp", "base": t, "matrix": "A23"},
        "Concatenate": {"helper": "concat", "bases": [g, t]},
        "compute_linear_approximation": {"helper": "taylor1", "base": t, "x0": 4},
    }
    if target in ("s0", "quad"):
        kinds["compute_quadratic_approximation"] = {"helper": "taylor2", "base": t, "x0": 4, "hessian": "sym"}
    if target in LINEAR:
        kinds["MDOLinearFunction.restrict"] = {"helper": "linrestrict", "base": t, "frozen": [0]}
        kinds["MDOLinearFunction.normalize"] = {"helper": "normalize", "base": t, "space": "bounded", "split": False}
    return kinds


def build_sub(sub, env, vd):
    if "tree" in sub:
        tree = sub["tree"]
        fn = guarded_build(lambda: t_build(tree, env), vd)
        return fn, (lambda x: t_dual(tree, x, {})), CFG["grid"]
    fn, oracle, pts, _, _ = HELPERS[sub["helper"]](sub, env, vd)
    return fn, oracle, pts


def h_history(case, env, vd):
    """construct -> [evaluate/differentiate] -> [build a composite] -> public setter(s) -> [build the composite] -> compare.

    The edited function and every composite built after the edit must follow the NEW data.  A composite built before the
    edit either follows the new data (it refers to its operand) or keeps the data it was built with (it copied them: Taylor
    polynomials, MDOLinearFunction.__neg__/offset/restrict/normalize) - oracle boundary: both readings are accepted, but the
    value and the Jacobian must follow the same one at every point.
    """
    target, edits, kind, when, warm = case["target"], case["edits"], case["kind"], case["when"], case["warm"]
    cls = "MDOQuadraticFunction" if target in QUAD else "MDOLinearFunction" if target in ALL_LIN else "MDOFunction"
    sig = {"op": f"set {cls}.{'>'.join(e[0] for e in edits)}", "operands": f"{leaf_class(target)};{kind};built={when};warm={warm}"}
    what = f"{target}: " + ("" if not warm else "evaluate, jac; ") + (f"build {kind}; " if when == "before" else "") \
        + "; ".join(f"set {e[0]} (variant {e[1]})" for e in edits) + (f"; build {kind}" if when == "after" else "")
    f = env.get(target)
    old = data_of(target)
    sub = history_kinds(target)[kind]
    pts = CFG["grid"]
    built = None
    try:
        if warm >= 1:
            f.evaluate(pts[0].copy())
            f.jac(pts[0].copy())
        if when == "before":
            built = build_sub(sub, env, vd)
            if built[0] is None or vd.bad:
                return None, None, [], sig, what
            if warm >= 2:
                built[0].evaluate(built[2][0].copy())
                built[0].jac(built[2][0].copy())
    except Exception as e:
        vd.bad.append(("raises:evaluate", f"before the edit: {type(e).__name__}: {str(e)[:160]}", None))
        return None, None, [], sig, what
    new = old
    try:
        for setter, k in edits:
            new = apply_edit(f, new, target, setter, k)
    except Exception as e:
        vd.bad.append(("raises:build", f"setter: {type(e).__name__}: {str(e)[:160]}", None))
        return None, None, [], sig, what
    if target in env.data:
        env.data[target] = new
    if when == "after":
        built = build_sub(sub, env, vd)
        if built[0] is None or vd.bad:
            return None, None, [], sig, what
    fn, oracle, cpts = built
    # 1. the edited function itself follows the new data
    compare(f, with_data({target: new}, lambda x: leaf_dual(target, x)), pts, env, vd)
    if vd.bad:
        sig["operands"] = f"{leaf_class(target)};the function itself;warm={warm}"
        return None, None, [], sig, what
    # 2. the composite
    o_new, o_old = with_data({target: new}, oracle), with_data({}, oracle)
    if when == "after":
        compare(fn, o_new, cpts, env, vd)
    else:
        compare_multi(fn, lambda x: [(o_new(x), "new data"), (o_old(x), "data at construction")], cpts, env, vd)
    return None if vd.bad else _Done, oracle, cpts, sig, what


def history_cases():
    cases = []
    for target in ("quad", "lin1", "lin2", "lin3", "lins", "s0", "v22"):
        if target in QUAD:
            setters = SETTERS["MDOQuadraticFunction"]
        elif target in LINEAR:
            setters = SETTERS["MDOLinearFunction"]
        else:
            setters = None
        if setters is None:
            sequences = [[["func+jac", 0]]]
        else:
            sequences = [[[a, 0]] for a in setters]
            if "value_at_zero" in setters:
                sequences.append([["value_at_zero", 2]])
            sequences += [[[a, 0], [b, 1]] for a in setters for b in setters if a != b]
            sequences += [[[a, 0], [a, 1]] for a in setters]
        for edits in sequences:
            for kind in history_kinds(target):
                for when, warms in (("before", (0, 1, 2)), ("after", (0, 1))):
                    for warm in warms:
                        cases.append({"helper": "history", "target": target, "edits": edits, "kind": kind, "when": when, "warm": warm})
    return cases


GVALS = [[-0.4, 0.7, 0.2, -1.1], [0.9, -0.3, -0.8, 0.5], [-1.2, -0.2, -0.6, -0.1], [0.3, 0.31, 1.4, -2.0]]

HELPERS = {
    "restriction": h_restriction,
    "lincomp": h_lincomp,
    "concat": h_concat,
    "normalize": h_normalize,
    "linrestrict": h_linrestrict,
    "taylor1": h_taylor1,
    "taylor2": h_taylor2,
    "conlin": h_conlin,
    "aggregate": h_aggregate,
    "discipline": h_discipline,
    "history": h_history,
}


def run_helper(case, tally):
    h = case["helper"]
    key = "helper:" + repr(sorted((k, repr(v)) for k, v in case.items()))
    bases = case.get("bases") or ([case["base"]] if "base" in case else [])
    if any(masked(b) or t_key(b) in BAD for b in bases):
        tally.case(key, nontrivial=False, outcome="masked(sub-tree failed or unsupported)")
        return
    vd = Verdict()
    env = Env(f_type=case.get("f_type", ""))
    fn, oracle, pts, sig, what = HELPERS[h](case, env, vd)
    if fn is not None and fn is not _Done and not vd.bad:
        compare(fn, oracle, pts, env, vd)
    report(tally, case, sig, vd, key, True, what)
    for name, k in vd.notes.items():
        tally.count(name, k)


def run_case(case, tally):
    if "tree" in case:
        run_tree(case, tally)
    else:
        run_helper(case, tally)


# ---------------------------------------------------------------------------------------------------
# enumeration of the helper cases
# ---------------------------------------------------------------------------------------------------
def subsets(n, proper=True):
    out = [[]]
    for r in range(1, n if proper else n + 1):
        out.extend(list(c) for c in itertools.combinations(range(n), r))
    return out


def ordered_selections(n):
    """Every permutation of every subset of range(n) with fewer than n elements, shortest and increasing first."""
    out = []
    for r in range(n):
        perms = [list(p) for p in itertools.permutations(range(n), r)]
        out.extend(sorted(perms, key=lambda p: (p != sorted(p), p)))
    return out


def helper_cases(bases2, c, thorough=False):
    """``bases2``: leaves and depth-1 trees over the 2-input alphabet."""
    leaves3 = [["leaf", n] for n in LEAVES3]
    cases = []
    # FunctionRestriction: every ORDERED selection of frozen inputs (every permutation of every subset, incl. the empty
    # one) that leaves at least one free input, on leaves / depth-1 trees with 2, 3 and 4 inputs
    leaves4 = [["leaf", n] for n in LEAVES4]
    trees4 = trees_depth1(LEAVES4, c)
    for b in bases2 + leaves3 + leaves4 + trees4:
        n = LEAF_NIN[t_leaves(b)[0]]
        for fr in ordered_selections(n):
            cases.append({"helper": "restriction", "base": b, "frozen": fr})
    # LinearCompositeFunction: square (p = n) and rectangular matrices
    for b in bases2:
        for mname in ("A22", "A23", "A21"):
            cases.append({"helper": "lincomp", "base": b, "matrix": mname})
    for b in leaves3:
        for mname in ("A33", "A32"):
            cases.append({"helper": "lincomp", "base": b, "matrix": mname})
    # Concatenate: every ordered pair of leaves, (leaf, depth-1 tree) pairs, one triple per leaf
    l2 = [b for b in bases2 if b[0] == "leaf"]
    t1 = [b for b in bases2 if b[0] != "leaf"]
    for a in l2:
        for b in l2:
            cases.append({"helper": "concat", "bases": [a, b]})
        cases.append({"helper": "concat", "bases": [a, l2[0], a]})
        cases.append({"helper": "concat", "bases": [a]})
    for a in t1:
        cases.append({"helper": "concat", "bases": [a, l2[2]]})
        cases.append({"helper": "concat", "bases": [l2[0], a]})
    # MDOLinearFunction.normalize / restrict (offset and __neg__ are tree operators and dispatch to the overrides)
    for name in LINEAR:
        for sp, split in product_pairs(["bounded", "one-unbounded", "half-bounded", "degenerate lb=ub"], [False, True]):
            cases.append({"helper": "normalize", "base": ["leaf", name], "space": sp, "split": split})
        for fr in ordered_selections(2):
            cases.append({"helper": "linrestrict", "base": ["leaf", name], "frozen": fr})
    for name in LINEAR3:
        for split in (False, True):
            cases.append({"helper": "normalize", "base": ["leaf", name], "space": "bounded3", "split": split})
        for fr in ordered_selections(3):
            cases.append({"helper": "linrestrict", "base": ["leaf", name], "frozen": fr})
    for name in LINEAR4:
        for fr in ordered_selections(4):
            cases.append({"helper": "linrestrict", "base": ["leaf", name], "frozen": fr})
    # Taylor polynomials at every point of the grid
    for b in bases2 + leaves3:
        n = LEAF_NIN[t_leaves(b)[0]]
        npts = 9 if n == 2 else 4
        x0s = range(npts) if b[0] == "leaf" else (0, 4)
        for i in x0s:
            cases.append({"helper": "taylor1", "base": b, "x0": i})
    # quadratic model: scalar functions returning a 1-D gradient only (docstring: "must be scalar-valued";
    # oracle boundary: a (1, n) Jacobian is not accepted by the constructor and is not in the alphabet)
    for name in ("s0", "quad", "t3"):
        n = LEAF_NIN[name]
        for i in range(9 if n == 2 else 4):
            for h in ("zero", "sym") + (("exact",) if name == "quad" else ()):
                cases.append({"helper": "taylor2", "base": ["leaf", name], "x0": i, "hessian": h})
    # convex linearization: no mask (None) and EVERY boolean mask: all-False (the linearization is the function itself),
    # every mixed one, all-True; the alphabet of bases holds separable functions (w22, the linear leaves, sums) and
    # non-separable ones (s0, s, v22, v32, quad, t3, t33, t23, products), so that for the mixed masks the columns of the
    # non-approximated inputs at the merged point differ from those at the evaluation point (counted: conlin[..;coupled;..])
    for b in bases2 + leaves3:
        n = LEAF_NIN[t_leaves(b)[0]]
        masks = [None] + [[i in s for i in range(n)] for s in subsets(n, proper=False)]
        for mk in masks:
            for i in ((0, 1, 2, 3) if b[0] == "leaf" else (0,)):
                cases.append({"helper": "conlin", "base": b, "mask": mk, "x0": i})
    # aggregations: 6 methods x operand (m = n, m != n over 2 and 3 inputs) x every index group x scale kind x rho
    for method in AGGS:
        for gname in ("v22", "v32", "t33", "t23"):
            m = LEAF_DIM[gname]
            groups = [None] + subsets(m, proper=False)[1:]
            for idx in groups:
                for sc in SCALES:
                    for rho in ((None, 3.0) if method in ("IKS", "lower_bound_KS", "upper_bound_KS") else (None,)):
                        cases.append({"helper": "aggregate", "method": method, "base": ["leaf", gname], "indices": idx, "scale": sc, "rho": rho})
    # ConstraintAggregation discipline, all the Jacobians (compute_all_jacobians=True)
    for method in AGGS:
        for sizes in ([2], [3], [1, 2]):
            m = sum(sizes)
            for idx in [None] + subsets(m, proper=False)[1:]:
                for sc in SCALES:
                    for rho in ((None, 3.0) if method in ("IKS", "lower_bound_KS", "upper_bound_KS") else (None,)):
                        cases.append({"helper": "discipline", "method": method, "sizes": sizes, "indices": idx, "scale": sc, "rho": rho})
    # ... and linearized w.r.t. declared differentiated inputs only: every multi-input layout of the constraint vector x
    # every non-empty subset of the inputs (strict subsets and the full set) x method x index group x scale kind; rho = 3
    # (soft-max weights of the same order on all the constraints: the weight of a constraint depends on all the others)
    # in the quick tier, the default rho = 100 too in the thorough tier
    layouts = [[1, 1], [1, 2], [2, 1], [1, 1, 1]] + ([[2, 2], [1, 2, 1]] if thorough else [])
    for method in AGGS:
        ks = method in ("IKS", "lower_bound_KS", "upper_bound_KS")
        for sizes in layouts:
            m = sum(sizes)
            for diff in subsets(len(sizes), proper=False)[1:]:
                for idx in [None] + subsets(m, proper=False)[1:]:
                    for sc in SCALES:
                        for rho in (((3.0, None) if thorough else (3.0,)) if ks else (None,)):
                            cases.append({"helper": "discipline", "method": method, "sizes": sizes, "indices": idx, "scale": sc,
                                          "rho": rho, "diff": diff})
    return cases


def product_pairs(a, b):
    return [(r["a"], r["b"]) for r in product.full({"a": a, "b": b})]


# ---------------------------------------------------------------------------------------------------
# start-up self-test of the harness (never part of the verdict on gemseo)
# ---------------------------------------------------------------------------------------------------
def self_test():
    for table, pts in ((USER_LEAVES, CFG["grid"]), (USER_LEAVES3, CFG["pts3"]), (USER_LEAVES4, CFG["pts4"])):
        for name, (comp, jacf, _, _) in table.items():
            for x in pts:
                n = x.size
                duals = [S(float(x[i]), np.eye(n)[i]) for i in range(n)]
                out = comp(duals)
                vals = array(comp(x), dtype=float)
                if np.any(vals == 0.0):
                    raise AssertionError(f"harness: leaf {name} vanishes at {x}")
                ad = array([o.g for o in out])
                hand = array(jacf(x), dtype=float)
                if not np.allclose(ad, hand, rtol=1e-14, atol=1e-14):
                    raise AssertionError(f"harness: hand-written Jacobian of leaf {name} differs from AD at {x}: {hand} vs {ad}")


# ---------------------------------------------------------------------------------------------------
def phase(ctx, name, cases, chunk=200):
    """Run one phase on the workers (cases are consumed lazily); the keys of the trees that failed are added to BAD."""
    t = Tally()
    n = [0]

    def feed():
        for c in cases:
            if ctx.only and ctx.only not in repr(c):
                continue
            n[0] += 1
            yield c

    pmap(run_case, feed(), t, jobs=ctx.jobs, chunk=chunk, timeout=60)
    bad = {k[4:] for k in t.counters if k.startswith("bad:")}
    for k in list(t.counters):
        if k.startswith("bad:"):
            del t.counters[k]
    t.count(f"cases[{name}]", n[0])
    if bad:
        t.count(f"failing_or_masked_trees[{name}]", len(bad))
    mrt = t.notes.pop("max_rel_tol", None)
    ctx.tally.merge(t)
    if mrt is not None:
        ctx.tally.notes["max_relative_tolerance_used"] = max(ctx.tally.notes.get("max_relative_tolerance_used", 0.0), mrt)
    BAD.update(bad)
    return n[0]


def run(ctx):
    configure(ctx.seed)
    self_test()
    BAD.clear()
    c = CFG["consts"]
    leaves = [["leaf", n] for n in FUNC_LEAVES]
    t1 = trees_depth1(FUNC_LEAVES, c)
    n1 = phase(ctx, "depth1", [{"tree": t} for t in t1])
    nh = phase(ctx, "helpers", helper_cases(leaves + t1, c, bool(ctx.thorough)), chunk=50)
    # histories on function objects: every public setter of the defining data found on the anchored classes
    found = discover_setters()
    handled = {(k, a) for k, v in SETTERS.items() for a in v}
    ctx.tally.notes["public_setters_found"] = sorted(f"{k}.{a}" for k, a in found)
    ctx.tally.notes["public_setters_not_in_the_alphabet"] = sorted(f"{k}.{a}" for k, a in found - handled - IGNORED_SETTERS)
    nhist = phase(ctx, "histories", history_cases(), chunk=25)
    lower = leaves + t1
    # quick: 3 points per depth-2 tree; thorough: the 3x3 grid
    n2 = phase(ctx, "depth2", ({"tree": t, "grid": bool(ctx.thorough)} for t in trees_next(lower, t1, c)), chunk=400)
    bounds = {"depth": 2, "function_leaves": FUNC_LEAVES, "constants": ["number", "array of the output size"],
              "operators": [*BINOPS, "neg", "offset(number>0)", "offset(number<0)", "offset(array)"],
              "trees_depth1": n1, "trees_depth2": n2, "helper_cases": nh, "history_cases": nhist,
              "convex_linearization_masks": "None and every boolean mask (all-False, mixed, all-True) on every 2- and 3-input base",
              "discipline_layouts_x_differentiated_inputs": "compute_all_jacobians=True on [2],[3],[1,2]; every non-empty subset of "
              "the inputs declared differentiated on [1,1],[1,2],[2,1],[1,1,1]" + (",[2,2],[1,2,1]" if ctx.thorough else ""),
              "histories": "construct -> [evaluate, jac] -> [build composite -> [evaluate, jac]] -> 1 or 2 public setters -> "
              "[build composite] -> value and Jacobian of the function and of the composite on the grid",
              "points_per_case": {"depth<=1 and helpers": "3x3 grid (3 values per input dimension)",
                                  "depth2": "3x3 grid" if ctx.thorough else "3 points (every axis value once)"}}
    if ctx.thorough:
        # depth 3 over the core alphabet (one leaf per shape class): every tree of depth 3 whose root has at most one
        # depth-2 child, i.e. all depth-3 trees except (depth-2 o depth-2) pairs
        core = [["leaf", n] for n in CORE_LEAVES]
        c1 = trees_depth1(CORE_LEAVES, c)
        c2 = list(trees_next(core + c1, c1, c))
        n3 = phase(ctx, "depth3", ({"tree": t} for t in trees_comb(c2, core + c1, c)), chunk=400)
        bounds.update(depth=3, trees_depth3=n3, depth3_alphabet=CORE_LEAVES, points_per_depth3_tree=3,
                      depth3_shape="all depth-3 trees over the core alphabet whose root has at most one depth-2 child "
                      "(the depth-2 x depth-2 pairs, ~1e8, are not enumerated)")
    ctx.tally.notes["failing_or_masked_tree_keys"] = len(BAD)
    return {
        "level": LEVEL,
        "rule": "every expression tree to the depth bound over the leaf alphabet x operators, every helper constructor on every "
        "leaf / depth-1 tree, each compared with a dual-number evaluation of the same program at the grid points; a case is "
        "non-trivial when it has a vector-valued, linear, quadratic or array operand, or depth >= 2, or is a helper case, and at "
        "least one regular point was compared; distinct = distinct programs",
        "exhaustive": True,
        "bounds": bounds,
        "assumptions": [
            "value alphabet: 3 values per input dimension (one zero), 4 alphabets rotated by VERIF_SEED; not a proof over the reals",
            "numeric (float64) evaluation only; the symbolic (object-dtype) reading of the quantifier is outside this technique",
            "two function operands have the same output dimension (the operator makers give the composite the dimension of "
            "the first operand); arrays have the output size of the first operand",
            "the quadratic Taylor model is built on scalar functions returning a 1-D gradient, with symmetric Hessian approximations",
            "restrictions: every ordered selection of frozen inputs with pairwise distinct frozen values, on 2-, 3- and 4-input functions",
            "histories: a composite built before a setter call may follow the new data or keep the data it copied at construction "
            "(value and Jacobian under the same reading); func and jac of a user function are replaced together; setters that do "
            "not define the value (input_names, output_names, expects_normalized_inputs) are not exercised",
            "convex linearization: expansion and evaluation points without zero component (reciprocal variables); a value / "
            "Jacobian mismatch confined to the entries into which a reciprocal term enters (negative derivative at the "
            "expansion point on an approximated input) is reported under the registered known-finding signature "
            "op=ConvexLinearApprox; a mismatch on any other entry is reported as op=ConvexLinearApprox[<part>]",
            "ConstraintAggregation linearized w.r.t. declared differentiated inputs: only the blocks of the declared inputs "
            "are compared (whatever else discipline.jac holds is not looked at); subsets are declared in increasing input "
            "order; rho = 3 in the quick tier (rho = 3 and the default 100 in the thorough tier)",
            "points where a denominator vanishes, where two maximal constraints tie, or where the derived tolerance exceeds 1e-7 "
            "relative are skipped and counted (points_skipped_singular_or_ill_conditioned)",
            "sum-of-squares aggregations: both readings of 'scale' (scale*g^2 and (scale*g)^2) are accepted; lower_bound_KS may use "
            "the group size or the full size in log(alpha)/rho; with an index group a vector scale has the group's length",
            "a composite that raises on a scipy.sparse Jacobian operand is recorded as outcome unsupported:sparse-jacobian, not as a "
            "violation (wrong values/derivatives with sparse operands are violations)",
            "tolerance = 8 x running first-order rounding-error bound of the oracle's own evaluation + 1e-200 x scale (underflow)",
        ],
    }


def replay(case, ctx):
    configure(int(case.get("seed", ctx.seed)))
    BAD.clear()
    t = Tally()
    c = {k: v for k, v in case.items() if k not in ("point", "seed")}
    if "tree" in c:
        c["grid"] = True
    run_case(c, t)
    out = {"case": c, "violations": [{"signature": v["signature"], "message": v["message"]} for v in t.violations.values()],
           "outcomes": dict(t.outcomes)}
    return out
