"""C08 - execution sequences respect data dependencies and composition is exact (engine E2, exhaustive).

Every labelled digraph on n <= 3 nodes with self-loops (2 + 16 + 512) and on 4 nodes without self-loops
(4 096; thorough: with self-loops, 65 536) is realised by harness disciplines and handed to the real
``CouplingStructure`` / ``DependencyGraph`` / ``MDOChain`` / ``MDOParallelChain`` / ``MDAChain`` / ``MDOInitializationChain``:

* node i reads ``x{i}`` and writes ``o{i}`` (io="full"; io="bare" drops them, so an isolated node has empty
  grammars); an edge (i, j) is a variable in outputs(i) & inputs(j): ``y{i}_{j}`` (vars="edge") or one variable
  ``y{i}`` shared by all the successors of i (vars="producer"); a self-loop is ``s{i}`` in inputs(i) & outputs(i);
* names: all different but sorting in the reverse of the listing order, all equal, first == last.

Enumerating all *labelled* graphs in index order covers every listing order of every graph; in addition the
execution part lists the same discipline objects in every permutation (relabelled images) and demands the
same data.

Oracles (all independent of networkx / gemseo):

* Warshall closure -> SCCs.  Sequence: every discipline exactly once, groups == SCCs, for every edge between
  different groups stage(producer) < stage(consumer); members of a group in listing order (the contract of the
  ``DependencyGraph`` class docstring).  all / strong couplings, the strongly / weakly coupled disciplines, the
  edge list of the dependency graph and the per-discipline input/output couplings are the sets implied by the
  graph.
* Execution (n <= 3; thorough: loop-free n = 4 too): disciplines are affine with distinct small gains
  (||M||_inf <= 0.45, so Jacobi / Gauss-Seidel contract); the reference is ONE dense solve of
  (I - M) z = c + B x over all variables.  ``MDOChain(flattened sequence)`` for acyclic graphs without
  self-loops and ``MDAChain`` for every graph must return z (derived tolerance below) and run each body
  exactly once when there is no cycle.
* Nodes as processes (execution part): every non-empty subset of the nodes is replaced by (a) a nested MDA - the
  node split in two internally coupled harness halves ``p{i}`` <-> ``q{i}`` inside ``MDAJacobi`` / ``MDAGaussSeidel``,
  or, for a node with a self-loop, the single self-coupled harness discipline wrapped alone - or (b) a nested
  ``MDOChain`` of two harness halves, in every listing order.  For the structural oracle a nested process is one
  node with its external grammars (a nested MDAJacobi exposes ``p{i}`` and ``q{i}`` as self-couplings, a nested
  MDAGaussSeidel only ``q{i}`` because its input grammar omits what an earlier member produces; it must NOT be wrapped
  again when alone, and must be grouped like any discipline when it lies on a cycle with other nodes); the data
  oracle is the same single dense solve over all harness halves.
* MDAChain settings axis (execution part, ``subcs``): {default, user-given ``sub_coupling_structures``}.  The user-given list is
  what the documentation of the setting asks for: one ``CouplingStructure`` per group that needs an inner MDA (membership from the
  independent SCC oracle: a group of several nodes or a lone self-coupled discipline), in the order in which the execution
  sequence of a ``CouplingStructure`` of the same listing visits them.  Enumerated over every graph on <= 3 nodes with at least one
  such group (quick: every listing order when there are several groups and a weakly coupled node, see ``cases`` for the rest;
  thorough: every listing order of every graph, + Gauss-Seidel / parallel stages / equal names / weak nodes that are themselves
  nested MDAs and get no structure) and over the *template* family on 4 to 6 nodes: every labelled DAG on 3 template
  nodes x every typing of the template nodes as W (weakly coupled discipline) / S (self-coupled discipline) / P (pair a <-> b)
  with >= 2 groups needing an MDA and >= 1 pair, so that weak groups come before / between / after the MDAs in the listing as well
  as in the schedule.  The oracle is unchanged: the same data as the single dense solve.
* Process kind axis over *independent* disciplines (part ``par``): n <= 3 nodes, node i reads ``x{i}`` (or all read ``x0``) and
  writes ``o{i}`` plus any subset of the shared names {``d0``, ``d1``} (4**n assignments: an output name may have 1, 2 or 3 producers
  giving different values) x every listing order x {MDOChain, MDOParallelChain (threads / deep copies / one worker; thorough,
  <= 2 nodes: processes), MDAChain with sequential and with parallel stages}.  Reference: every body evaluated once on the inputs (the whole system at once),
  merged with the priority of the process (see the oracle boundary below); each body runs exactly once.
* ``order_disciplines_from_default_inputs`` / ``MDOInitializationChain``: success exactly when an independent
  fixed-point computation says every discipline can be initialised, the order is then executable, otherwise
  ValueError; the chain returns exactly what the harness obtains by running the bodies in that order.

Oracle boundaries (rule 1):
* ``weak_couplings`` is documented as "the outputs of the weakly coupled disciplines" (it contains the
  non-coupling outputs ``o{i}`` and misses the outputs that a cyclic group sends downstream); the oracle
  checks that documented reading and does not require strong | weak == all.
* strong couplings = variables on an edge inside one SCC (incl. self-loops); an edge between two different
  cyclic groups is not strong (the one-line docstring of ``strong_couplings`` could be read either way).
* the order of the groups inside a stage and the stage a group is given (beyond "strictly after its
  producers") are left open; no stage may be empty.
* a self-loop variable is read only by its own discipline (gemseo warns that a self-coupling which is also
  a strong coupling of another discipline is unsupported); each variable has exactly one producer.
* ``order_disciplines_from_default_inputs(raise_error=False)``: the returned names must contain every input
  that nobody can provide and only inputs of disciplines that cannot be initialised (whether inputs that have
  a default value belong to the list is left open).
* an output name with several producers (part ``par``; legal, gemseo logs a warning) is only given to independent disciplines and
  nobody reads it; the value returned is the one of the LAST producer in the order of the process that merges them: the listing
  for ``MDOChain`` (sequential overwriting) and ``MDOParallelChain`` (its source: "update data according to input order of
  priority", its Jacobian: "an output computed by several disciplines is the one of the last of them"), the flattened
  execution sequence that the ``MDAChain`` itself exposes for an MDA chain (the order of the groups inside a stage is open, see
  above) - i.e. a parallel chain must agree with the sequential chain of the same disciplines.  Multiprocessing
  (``use_threading=False``: a pool of processes per execution) is enumerated in the thorough tier on <= 2 nodes only, and the
  number of body runs cannot be observed there (the bodies run in child processes).
* non-convergence of an inner MDA on these contractive systems is reported as its own invariant
  (``inner-mda-converged``); the data comparison is then skipped (C06 owns convergence).
"""
from __future__ import annotations

import itertools
import math

import numpy as np

from mc.core import Tally, pmap

LEVEL = "exploration"
TOL = 1e-12  # requested MDA tolerance
MAX_ITER = 80

# value alphabets (VERIF_SEED rotates among them; the enumerated structure never changes)
ALPHABETS = [
    {"name": "mixed-sizes", "shift": 0, "size": "parity", "x": 0.5},
    {"name": "scalars", "shift": 3, "size": "one", "x": -1.25},
    {"name": "size-2", "shift": 5, "size": "two", "x": 2.0},
]
ALPHA = ALPHABETS[0]


# ------------------------------------------------------------------------------------------------
# graph family
# ------------------------------------------------------------------------------------------------
def graphs(n: int, loops: bool):
    """Every labelled digraph on n nodes (self-loops optional), fewest arcs first."""
    pairs = [(i, j) for i in range(n) for j in range(n) if i != j or loops]
    masks = sorted(range(2 ** len(pairs)), key=lambda m: (bin(m).count("1"), m))
    for m in masks:
        arcs = [p for b, p in enumerate(pairs) if m >> b & 1]
        yield [list(p) for p in arcs if p[0] != p[1]], [p[0] for p in arcs if p[0] == p[1]]


def name_patterns(n: int, all_partitions: bool = False) -> dict[str, list[str]]:
    """Discipline names: block id b -> "D{n-1-b}" so that the name order is the reverse of the listing."""
    out = {"distinct": [f"D{n - 1 - i}" for i in range(n)]}
    if n >= 2:
        out["same"] = ["D"] * n
    if n >= 3:
        out["pair"] = [f"D{n - 1 - (0 if i == n - 1 else i)}" for i in range(n)]
    if all_partitions and n >= 3:
        def parts(k, blocks):
            if k == n:
                yield list(blocks)
                return
            for b in range(max(blocks, default=-1) + 2):
                yield from parts(k + 1, [*blocks, b])

        for p in parts(0, []):
            names = [f"D{n - 1 - b}" for b in p]
            if names not in out.values():
                out["part" + "".join(map(str, p))] = names
    return out


def closure(n, edges):
    r = [[i == j for j in range(n)] for i in range(n)]
    for i, j in edges:
        r[i][j] = True
    for k in range(n):
        for i in range(n):
            if r[i][k]:
                for j in range(n):
                    if r[k][j]:
                        r[i][j] = True
    return r


def sccs(n, edges):
    r = closure(n, edges)
    return [frozenset(j for j in range(n) if r[i][j] and r[j][i]) for i in range(n)]


def graph_class(n, edges, loops):
    scc = sccs(n, edges)
    big = {s for s in scc if len(s) > 1}
    if not big:
        return "acyclic"
    if len(big) == 1 and len(next(iter(big))) == n:
        return "single-scc"
    return "several-sccs"


def shape(case) -> dict:
    """The structural class used in violation signatures."""
    n, edges, loops = case["n"], [tuple(e) for e in case["edges"]], case["loops"]
    names = case["names"]
    return {
        "class": graph_class(n, edges, loops),
        "selfloop": bool(loops),
        "names": "distinct" if len(set(names)) == len(names) else "duplicated",
    }  # io layout / edge realisation are in the case record; cases are ordered default-first


# ------------------------------------------------------------------------------------------------
# harness system: affine bodies + monolithic solve
# ------------------------------------------------------------------------------------------------
def _code(v: str) -> int:
    k = v[0]
    if k == "y":
        p = v[1:].split("_")
        return 4 * int(p[0]) + (int(p[1]) if len(p) > 1 else 5)
    return {"s": 24, "o": 28, "x": 32, "p": 36, "q": 40, "d": 44}[k] + int(v[1:])


def _size(v: str) -> int:
    rule = ALPHA["size"]
    if rule == "one":
        return 1
    if rule == "two":
        return 2
    return 1 + (_code(v) + (v[0] in "so")) % 2


def _block(v: str, u: str) -> np.ndarray:
    """Coefficient block d v / d u: |gain| in [0.04, 0.10] for couplings (inf-norm of the block == |gain|)."""
    cv, cu = _code(v), _code(u)
    rows, cols = _size(v), _size(u)
    pat = np.array([[(-1.0) ** (r + c) * (1.0 if (r + 2 * c) % 3 else 0.5) for c in range(cols)] for r in range(rows)])
    pat /= np.abs(pat).sum(axis=1).max()
    if u[0] == "x":
        return (1.0 + 0.5 * (cv % 3)) * pat
    gain = 0.04 + 0.01 * ((3 * cv + 5 * cu + ALPHA["shift"]) % 7)
    return (-gain if (cv + cu) % 2 else gain) * pat


def _const(v: str) -> np.ndarray:
    return 1.0 + 0.25 * _code(v) + 0.5 * np.arange(_size(v))


def _xval(i: int) -> np.ndarray:
    return ALPHA["x"] + 0.75 * i + 0.25 * np.arange(_size(f"x{i}"))


class Body:
    """Pure-Python node of the harness system (no gemseo)."""

    def __init__(self, i, n, edges, loops, io, vmode):
        var = (lambda a, b: f"y{a}_{b}") if vmode == "edge" else (lambda a, b: f"y{a}")
        self.i = i
        self.ins = [var(j, i) for j in range(n) if (j, i) in edges]
        outs = [var(i, j) for j in range(n) if (i, j) in edges]
        self.outs = list(dict.fromkeys(outs))
        if io == "full":
            self.ins.append(f"x{i}")
            self.outs.append(f"o{i}")
        if i in loops:
            self.ins.append(f"s{i}")
            self.outs.append(f"s{i}")
        self._blocks = self._consts = None

    @property
    def blocks(self):  # coefficients are only needed when something is executed
        if self._blocks is None:
            self._blocks = {v: {u: _block(v, u) for u in self.ins} for v in self.outs}
        return self._blocks

    @property
    def consts(self):
        if self._consts is None:
            self._consts = {v: _const(v) for v in self.outs}
        return self._consts

    def f(self, data):
        out = {}
        for v in self.outs:
            val = self.consts[v].copy()
            for u in self.ins:
                val = val + self.blocks[v][u] @ np.asarray(data[u], dtype=float)
            out[v] = val
        return out


def bodies(case):
    n, edges, loops = case["n"], {tuple(e) for e in case["edges"]}, set(case["loops"])
    return [Body(i, n, edges, loops, case.get("io", "full"), case.get("vars", "edge")) for i in range(n)]


class Leaf(Body):
    """A harness body with explicit inputs / outputs (one half of a node that is realised as a process)."""

    def __init__(self, i, ins, outs, tag):
        self.i, self.ins, self.outs, self.tag = i, list(ins), list(outs), tag
        self._blocks = self._consts = None


class DupLeaf(Leaf):
    """An independent node of the ``par`` family: the constant of every output depends on the node, so that two producers of
    the same output name never agree (also when they read the same input)."""

    @property
    def consts(self):
        if self._consts is None:
            self._consts = {v: _const(v) + 2.5 * (self.i + 1) for v in self.outs}
        return self._consts


def expand_template(tedges, types):
    """(n, edges, loops) of the graph obtained from a template: node t of type "W" is one weakly coupled node, "S" one node with
    a self-loop, "P" two nodes a <-> b; a template edge u -> v goes from the last node of u to the first node of v."""
    members, k = [], 0
    for t in types:
        members.append([k, k + 1] if t == "P" else [k])
        k += len(members[-1])
    edges, loops = [], []
    for m, t in zip(members, types):
        if t == "P":
            edges += [[m[0], m[1]], [m[1], m[0]]]
        elif t == "S":
            loops.append(m[0])
    edges += [[members[u][-1], members[v][0]] for u, v in tedges]
    return k, sorted(edges), loops


def template_graphs():
    """Every labelled DAG on 3 template nodes x every typing with >= 2 groups needing an MDA and >= 1 pair, fewest nodes first."""
    dags = [e for e, _ in graphs(3, False) if all(len(s) == 1 for s in sccs(3, [tuple(a) for a in e]))]
    typings = [t for t in itertools.product("WSP", repeat=3) if sum(x != "W" for x in t) >= 2 and "P" in t]
    for types in sorted(typings, key=lambda t: (t.count("P"), t)):
        for tedges in dags:
            yield "".join(types), expand_template(tedges, types)


class Node:
    """Node i of the graph as gemseo sees it: a plain harness discipline or a process made of two harness halves.

    ``ins`` / ``outs``: the grammars of the object handed to the chain under test; ``selfvars``: the variables that are both
    (self-loop ``s{i}``; for a nested MDA over two halves also its internal couplings ``p{i}``, ``q{i}``, which a
    ``BaseMDA`` exposes as inputs and outputs); ``leaves``: the harness bodies actually executed.
    """

    def __init__(self, body: Body, kind: str, loop: bool, nested: str = "MDAJacobi"):
        i = body.i
        self.i, self.kind = i, kind
        p, q = f"p{i}", f"q{i}"
        if kind == "plain" or (kind == "mda" and loop):
            # a plain discipline, or the single self-coupled discipline wrapped in an MDA of its own
            self.leaves = [Leaf(i, body.ins, body.outs, "")]
            self.ins, self.outs = list(body.ins), list(body.outs)
        elif kind == "mda":  # two internally coupled halves p <-> q, solved by a nested MDA
            self.leaves = [Leaf(i, [*body.ins, q], [p], "a"), Leaf(i, [*body.ins, p], [*body.outs, q], "b")]
            # external grammars: MDAJacobi takes the union of its disciplines' inputs (p and q are inputs and outputs);
            # MDAGaussSeidel, like a chain, leaves out an input produced by an earlier member (only q is both)
            self.ins = [*body.ins, q, p] if nested == "MDAJacobi" else [*body.ins, q]
            self.outs = [p, *body.outs, q]
        elif kind == "chain":  # first half feeds the second one, nested MDOChain
            self.leaves = [Leaf(i, body.ins, [p], "a"), Leaf(i, [*body.ins, p], body.outs, "b")]
            self.ins, self.outs = list(body.ins), [p, *body.outs]
        else:
            raise ValueError(kind)
        self.selfvars = set(self.ins) & set(self.outs)
        self.is_mda = kind == "mda"


def system(case):
    """The nodes of a case; ``case["kinds"]`` (default all "plain") says which nodes are nested processes."""
    kinds = case.get("kinds") or ["plain"] * case["n"]
    return [Node(b, kinds[b.i], b.i in case["loops"], case.get("nested", "MDAJacobi")) for b in bodies(case)]


def monolithic(bs):
    """z = M z + c + B x solved at once.  Returns ({var: value}, kappa_2 of (I-M), ||c+Bx||_2, ||M||_inf)."""
    names = [v for b in bs for v in b.outs]
    off, k = {}, 0
    for v in names:
        off[v] = k
        k += _size(v)
    m = np.zeros((k, k))
    rhs = np.zeros(k)
    for b in bs:
        for v in b.outs:
            sl = slice(off[v], off[v] + _size(v))
            rhs[sl] += b.consts[v]
            for u in b.ins:
                if u[0] == "x":
                    rhs[sl] += b.blocks[v][u] @ _xval(int(u[1:]))
                else:
                    m[sl, off[u]:off[u] + _size(u)] += b.blocks[v][u]
    if k == 0:
        return {}, 1.0, 0.0, 0.0
    a = np.eye(k) - m
    z = np.linalg.solve(a, rhs)
    kappa = float(np.linalg.norm(np.linalg.inv(a), 2))
    return {v: z[off[v]:off[v] + _size(v)] for v in names}, kappa, float(np.linalg.norm(rhs)), float(np.abs(m).sum(axis=1).max())


_CLS = {}


def _gemseo():
    if _CLS:
        return _CLS
    from gemseo.core.chains.chain import MDOChain
    from gemseo.core.chains.initialization_chain import MDOInitializationChain, order_disciplines_from_default_inputs
    from gemseo.core.chains.parallel_chain import MDOParallelChain
    from gemseo.core.coupling_structure import CouplingStructure
    from gemseo.core.discipline import Discipline
    from gemseo.mda.gauss_seidel import MDAGaussSeidel
    from gemseo.mda.jacobi import MDAJacobi
    from gemseo.mda.mda_chain import MDAChain

    class Harness(Discipline):
        def __init__(self, body: Body, name: str, defaults):
            super().__init__(name=name)
            self.configure(body, name, defaults)

        def configure(self, body: Body, name: str, defaults):
            """(Re)define name, grammars, defaults; forget cached evaluations.  Creating a Discipline costs three OS
            semaphores (execution statistics, ~ms each on a loaded machine), so cases re-use a small per-process pool of
            harness objects; every process object (chains, MDAs, coupling structures) is created afresh."""
            self.name = name
            self.body = body
            self.io.input_grammar.clear()
            self.io.output_grammar.clear()
            self.io.input_grammar.update_from_names(body.ins)
            self.io.output_grammar.update_from_names(body.outs)
            self.io.input_grammar.defaults.update({u: np.zeros(_size(u)) for u in body.ins if u in defaults})
            self.n_run = 0
            if self.cache is not None:
                self.cache.clear()  # a pooled object may have been executed by an earlier case
            return self

        def _run(self, input_data):
            self.n_run += 1
            return self.body.f(input_data)

    _CLS.update(Harness=Harness, MDOChain=MDOChain, MDAChain=MDAChain, CouplingStructure=CouplingStructure,
                MDAJacobi=MDAJacobi, MDAGaussSeidel=MDAGaussSeidel, MDOParallelChain=MDOParallelChain,
                MDOInitializationChain=MDOInitializationChain, order=order_disciplines_from_default_inputs)
    return _CLS


_POOL: list = []
POOLED = True  # replay() switches it off


def build(case, defaults="couplings", pooled=False):
    """The harness disciplines in node order; ``defaults``: "couplings" (zero start for every y / s), or a set.

    ``pooled``: re-configure the objects of a per-process pool instead of creating new ones (replay uses fresh ones).
    """
    g = _gemseo()
    bs = bodies(case)
    if defaults == "couplings":
        defaults = {u for b in bs for u in b.ins if u[0] != "x"}
    if not pooled:
        return bs, [g["Harness"](b, case["names"][b.i], defaults) for b in bs]
    while len(_POOL) < len(bs):
        _POOL.append(g["Harness"](bs[0], "pool", set()))
    return bs, [_POOL[b.i].configure(b, case["names"][b.i], defaults) for b in bs]


def build_system(case, defaults="couplings", pooled=False):
    """(nodes, leaf bodies, leaf harness disciplines, the object of each node: harness discipline / nested MDA / nested MDOChain)."""
    g = _gemseo()
    nodes = system(case)
    leaves = [lf for nd in nodes for lf in nd.leaves]
    if defaults == "couplings":
        defaults = {u for lf in leaves for u in lf.ins if u[0] != "x"}
    while pooled and len(_POOL) < len(leaves):
        _POOL.append(g["Harness"](leaves[0], "pool", set()))
    discs, objs, k = [], [], 0
    for nd in nodes:
        name = case["names"][nd.i]
        mine = []
        for lf in nd.leaves:
            nm = name + lf.tag if len(nd.leaves) > 1 or nd.kind == "plain" else name + "h"
            mine.append(_POOL[k].configure(lf, nm, defaults) if pooled else g["Harness"](lf, nm, defaults))
            k += 1
        discs += mine
        if nd.kind == "plain":
            objs.append(mine[0])
        elif nd.kind == "mda":
            cls = case.get("nested", "MDAJacobi")
            extra = {"n_processes": 1} if cls == "MDAJacobi" else {}
            objs.append(g[cls](mine, name=name, tolerance=TOL, max_mda_iter=MAX_ITER, **extra))
        else:
            objs.append(g["MDOChain"](mine, name=name))
    return nodes, leaves, discs, objs


# ------------------------------------------------------------------------------------------------
# structural oracle
# ------------------------------------------------------------------------------------------------
def seq_indices(seq, index_of):
    return [[[index_of.get(id(d), -1) for d in grp] for grp in stage] for stage in seq]


def check_structure(cs, discs_by_node, listing, case, nodes=None):
    """``discs_by_node[i]`` is node i; ``listing`` is the list of node indices in the order given to gemseo.

    ``nodes``: the external view of each node when some are nested processes (default: plain harness disciplines).
    """
    n, edges = case["n"], [tuple(e) for e in case["edges"]]
    if nodes is None:
        nodes = system({**case, "kinds": None})
    bad = []
    index_of = {id(d): i for i, d in enumerate(discs_by_node)}
    pos = {node: k for k, node in enumerate(listing)}
    scc = sccs(n, edges)
    seq = seq_indices(cs.sequence, index_of)
    flat = [i for stage in seq for grp in stage for i in grp]
    if sorted(flat) != list(range(n)):
        bad.append(("each-discipline-exactly-once", f"sequence={seq}"))
        return bad, seq
    if any(not stage or any(not grp for grp in stage) for stage in seq):
        bad.append(("no-empty-stage", f"sequence={seq}"))
    stage_of = {}
    for s, stage in enumerate(seq):
        for grp in stage:
            if any(scc[m] != frozenset(grp) for m in grp):
                bad.append(("groups-are-exactly-the-sccs", f"group {grp} in sequence={seq}; SCCs={sorted(map(sorted, set(scc)))}"))
            if [pos[m] for m in grp] != sorted(pos[m] for m in grp):
                bad.append(("group-members-in-listing-order", f"group {grp} listing={listing} sequence={seq}"))
            for m in grp:
                stage_of[m] = s
    for i, j in edges:
        if scc[i] != scc[j] and not stage_of[i] < stage_of[j]:
            bad.append(("producer-stage-strictly-earlier", f"edge {i}->{j}: stage {stage_of[i]} !< {stage_of[j]} in sequence={seq}"))
            break

    var = (lambda a, b: f"y{a}_{b}") if case.get("vars", "edge") == "edge" else (lambda a, b: f"y{a}")
    bs = nodes
    selfvars = {v for nd in nodes for v in nd.selfvars}  # s{i}; p{i}, q{i} of a nested MDA over two halves
    cyclic = {i for i in range(n) if len(scc[i]) > 1 or nodes[i].selfvars}
    exp_all = {var(i, j) for i, j in edges} | selfvars
    exp_strong = {var(i, j) for i, j in edges if scc[i] == scc[j]} | selfvars
    exp_weak = {v for i in range(n) if i not in cyclic for v in bs[i].outs}

    def cmp(inv, got, exp):
        got = list(got)
        if set(got) != set(exp) or len(got) != len(set(got)):
            bad.append((inv, f"got {sorted(got)} expected {sorted(exp)}"))

    cmp("all-couplings", cs.all_couplings, exp_all)
    cmp("strong-couplings", cs.strong_couplings, exp_strong)
    cmp("weak-couplings(documented reading)", cs.weak_couplings, exp_weak)
    cmp("strongly-coupled-disciplines", [index_of.get(id(d), -1) for d in cs.strongly_coupled_disciplines], cyclic)
    cmp("weakly-coupled-disciplines", [index_of.get(id(d), -1) for d in cs.weakly_coupled_disciplines], set(range(n)) - cyclic)
    got_edges = sorted((index_of.get(id(a), -1), index_of.get(id(b), -1), tuple(v)) for a, b, v in cs.graph.get_disciplines_couplings())
    exp_edges = sorted((i, j, (var(i, j),)) for i, j in edges)
    if got_edges != exp_edges:
        bad.append(("dependency-graph-edges", f"got {got_edges} expected {exp_edges}"))
    for i, d in enumerate(discs_by_node):
        for strong, ref in ((True, exp_strong), (False, exp_all)):
            gi, go = cs.get_input_couplings(d, strong=strong), cs.get_output_couplings(d, strong=strong)
            ei, eo = sorted(set(bs[i].ins) & ref), sorted(set(bs[i].outs) & ref)
            if list(gi) != ei or list(go) != eo:
                bad.append(("per-discipline-couplings", f"node {i} strong={strong}: in {gi} out {go} expected in {ei} out {eo}"))
                break
    return bad, seq


def seq_outcome(seq):
    return "|".join("+".join(str(len(g)) for g in sorted(stage, key=len)) for stage in seq)


def identity_schedule_invalid(case):
    """Non-triviality rule: listing order, one discipline per stage, would NOT be a valid answer."""
    return any(i > j for i, j in case["edges"])


SAMPLE_EDGES = {3: [[0, 1], [1, 0], [2, 0]], 4: [[0, 1], [1, 0], [2, 3], [3, 0], [3, 2]],  # the cases written out as evidence samples
                5: [[0, 1], [1, 2], [2, 1], [2, 3], [3, 4], [4, 3]]}  # template WPP: W -> {a <-> b} -> {c <-> d}


def core_key(case):
    return (case["part"], case["n"], tuple(map(tuple, case["edges"])), tuple(case["loops"]), tuple(case["names"]),
            case.get("io", "full"), case.get("vars", "edge"))


# ------------------------------------------------------------------------------------------------
# parts
# ------------------------------------------------------------------------------------------------
def part_struct(case, tally):
    g = _gemseo()
    _, discs = build(case, pooled=POOLED)
    sig = shape(case)
    try:
        cs = g["CouplingStructure"](discs)
        bad, seq = check_structure(cs, discs, list(range(case["n"])), case)
    except Exception as e:  # the constructor is total on this family
        bad, seq = [("coupling-structure-raises", f"{type(e).__name__}: {e}")], []
    for inv, msg in bad:
        tally.violation({"invariant": inv, "part": "struct", **sig}, case, f"{inv}: {msg}\n  case={case}")
    tally.case(core_key(case), nontrivial=identity_schedule_invalid(case), outcome=f"n{case['n']}:{seq_outcome(seq)}",
               sample={"case": case, "sequence": seq} if case["edges"] == SAMPLE_EDGES[4] and case["io"] == "full" and len(set(case["names"])) == 4 else None)
    return {"sequence": seq, "violations": [{"invariant": i, "message": m} for i, m in bad]}


def _compare(out, ref, atol_of):
    worst = None
    for v, val in ref.items():
        if v not in out:
            return f"variable {v} missing from the returned data (keys {sorted(out)})"
        got = np.asarray(out[v], dtype=float)
        if got.shape != val.shape:
            return f"{v}: shape {got.shape} expected {val.shape}"
        err = float(np.max(np.abs(got - val))) if val.size else 0.0
        if not err <= atol_of:
            if worst is None or err > worst[0]:
                worst = (err, v, got, val)
    if worst:
        return f"{worst[1]} = {worst[2]} expected {worst[3]} (|error| {worst[0]:.3e} > bound {atol_of:.3e})"
    return None


def user_sub_structures(g, listed, objs, nodes, n, edges):
    """What the documentation of ``sub_coupling_structures`` asks the user for: one ``CouplingStructure`` per group that needs an
    inner MDA, in the order of the execution sequence.  Membership comes from the independent SCC oracle (a group of several
    nodes, or a lone self-coupled node that is not itself an MDA), its members are given in listing order, and the order of the
    groups is the one in which the execution sequence of a ``CouplingStructure`` of the same listing visits them (the only
    way a user can know how the groups of one stage are ordered; its validity is checked by the structural oracle)."""
    scc = sccs(n, edges)
    index_of = {id(d): i for i, d in enumerate(objs)}
    seen, subs = set(), []
    for stage in g["CouplingStructure"](listed).sequence:
        for grp in stage:
            for d in grp:
                i = index_of.get(id(d), -1)
                if i >= 0 and scc[i] not in seen and (len(scc[i]) > 1 or (nodes[i].selfvars and not nodes[i].is_mda)):
                    seen.add(scc[i])
                    subs.append(g["CouplingStructure"]([o for o in listed if index_of[id(o)] in scc[i]]))
    return subs


def part_exec(case, tally):
    """MDOChain / MDAChain against the monolithic solve, for every listing permutation asked for."""
    g = _gemseo()
    n = case["n"]
    edges, loops = [tuple(e) for e in case["edges"]], case["loops"]
    sig = shape(case)
    nodes0 = system(case)
    n_proc = sum(nd.kind != "plain" for nd in nodes0)
    sig["nested"] = "+".join(sorted({nd.kind for nd in nodes0} - {"plain"})) or "none"
    if case.get("subcs"):
        sig["settings"] = "sub_coupling_structures"
    ref, kappa, r0, minf = monolithic([lf for nd in nodes0 for lf in nd.leaves])
    assert minf <= 0.45, minf  # the family is contractive by construction (Jacobi and Gauss-Seidel converge)
    znorm = math.sqrt(sum(float(v @ v) for v in ref.values()))
    # rounding of a dense solve / forward substitution: a few ulps times conditioning
    eps_bound = 64 * np.finfo(float).eps * kappa * (1.0 + znorm)
    # each inner MDA stops with ||R_k|| <= TOL * ||R_0||, ||R_0|| <= ||c + B x|| + ||M|| ||z||;  error <= kappa * ||R_k||;
    # at most n groups in sequence (+ one nested MDA per process node), each amplifying the upstream error by at most kappa
    mda_bound = (n + n_proc) * kappa * kappa * TOL * (r0 + znorm) + eps_bound
    acyclic_plain = graph_class(n, edges, loops) == "acyclic" and not loops
    xin = {f"x{i}": _xval(i) for i in range(n)} if case.get("io", "full") == "full" else {}
    orders = case.get("orders", "identity")
    if orders == "all":
        perms = list(itertools.permutations(range(n)))
    elif orders == "reversed":
        perms = [tuple(reversed(range(n)))]
    elif orders == "identity":
        perms = [tuple(range(n))]
    else:  # explicit list of listings (a recorded failing case)
        perms = [tuple(p) for p in orders]
    obs = {"violations": [], "runs": []}

    def viol(inv, proc, listing, msg):
        tally.violation({"invariant": inv, "part": "exec", "process": proc, **sig}, {**case, "orders": [list(listing)]},
                        f"{inv} [{proc}] listing={list(listing)}: {msg}\n  case={case}")
        obs["violations"].append({"invariant": inv, "process": proc, "listing": list(listing), "message": msg})

    for listing in perms:
        procs = ["MDAChain"] + (["MDOChain"] if acyclic_plain and not case.get("subcs") else [])
        for proc in procs:
            dflt = "couplings"
            if case.get("initdef"):  # zero start only for the couplings pointing backwards in node order and the self-loops;
                # the others have to be produced by the MDOInitializationChain that MDAChain(initialize_defaults=True) runs first
                dflt = {u for nd in nodes0 for lf in nd.leaves for u in lf.ins if u[0] in "spq" or (u[0] == "y" and int(u[1:].split("_")[0]) > nd.i)}
            seq = []
            try:  # building a nested process is part of the case
                nodes, leaves, discs, objs = build_system(case, defaults=dflt, pooled=POOLED)
            except Exception as e:
                viol("execution-raises", proc, listing, f"building the nested processes: {type(e).__name__}: {str(e)[:300]}")
                continue
            nested = [o for nd, o in zip(nodes, objs) if nd.is_mda]
            listed = [objs[k] for k in listing]
            try:
                if proc == "MDOChain":
                    cs = g["CouplingStructure"](listed)
                    chain = g["MDOChain"]([d for stage in cs.sequence for grp in stage for d in grp])
                    inner = []
                else:
                    inner_settings = {"n_processes": 1} if case.get("inner", "MDAJacobi") == "MDAJacobi" and not case.get("threads") else {}
                    extra = {}
                    if case.get("subcs"):  # settings axis: the coupling structures of the inner MDAs are given by the user
                        extra["sub_coupling_structures"] = user_sub_structures(g, listed, objs, nodes, n, edges)
                    chain = g["MDAChain"](listed, tolerance=TOL, max_mda_iter=MAX_ITER, inner_mda_name=case.get("inner", "MDAJacobi"),
                                          inner_mda_settings=inner_settings, mdachain_parallelize_tasks=bool(case.get("parallel")),
                                          initialize_defaults=bool(case.get("initdef")), **extra)
                    cs = chain.coupling_structure
                    inner = chain.inner_mdas
                sbad, seq = check_structure(cs, objs, list(listing), case, nodes)
                for inv, msg in sbad:
                    viol(inv, proc, listing, msg)
                if proc == "MDAChain":
                    scc = sccs(n, edges)
                    # a group of several nodes, or a lone self-coupled node that is not itself an MDA
                    exp_groups = sorted({tuple(sorted(s)) for i, s in enumerate(scc) if len(s) > 1 or (nodes[i].selfvars and not nodes[i].is_mda)})
                    index_of = {id(d): i for i, d in enumerate(objs)}
                    got_groups = sorted(tuple(sorted(index_of.get(id(d), -1) for d in m.disciplines)) for m in inner)
                    if got_groups != exp_groups:
                        viol("inner-mdas-are-the-cyclic-groups", proc, listing, f"inner MDAs over {got_groups}, cyclic groups {exp_groups}")
                out = chain.execute(dict(xin))
                out = {k: np.array(v) for k, v in out.items()}
            except Exception as e:
                viol("execution-raises", proc, listing, f"{type(e).__name__}: {str(e)[:300]}")
                tally.case((core_key(case), listing, proc), nontrivial=True, outcome=f"{proc}:raises")
                continue
            converged = True
            for m in [*inner, *nested]:
                if not m.normed_residual <= TOL:
                    converged = False
                    viol("inner-mda-converged", proc, listing, f"{type(m).__name__} over {[d.name for d in m.disciplines]} stopped at normed residual {m.normed_residual:.3e} after {len(m.residual_history)} iterations (tolerance {TOL})")
            if converged:
                msg = _compare(out, ref, mda_bound if inner or nested else eps_bound)
                if msg:
                    viol("data-equals-monolithic-solve", proc, listing, msg + f"\n  sequence={seq}")
                for k, v in xin.items():
                    if k not in out or not np.array_equal(out[k], v):
                        viol("inputs-echoed-unchanged", proc, listing, f"{k}: {out.get(k)} vs {v}")
                        break
            runs = [d.n_run for d in discs]
            if acyclic_plain and not nested and runs != [1] * len(discs):
                viol("each-body-runs-exactly-once", proc, listing, f"body runs per harness discipline {dict(zip([d.name for d in discs], runs))}")
            elif min(runs, default=1) < 1:
                viol("each-body-runs-at-least-once", proc, listing, f"body runs per harness discipline {dict(zip([d.name for d in discs], runs))}")
            obs["runs"].append({"process": proc, "listing": list(listing), "sequence": seq, "body_runs": runs,
                                "data": {k: np.asarray(v).tolist() for k, v in sorted(out.items())}})
            tally.case((core_key(case), listing, proc, case.get("parallel"), case.get("threads"), case.get("inner"), case.get("initdef"),
                        tuple(case.get("kinds") or ()), case.get("nested"), *(["subcs"] if case.get("subcs") else [])),
                       nontrivial=any(listing.index(i) > listing.index(j) for i, j in edges),
                       outcome=f"{proc}:n{n}:{seq_outcome(seq)}:{'mda' if inner else 'chain'}" + (f":nested-{sig['nested']}" if n_proc else "")
                       + (f":subcs{len(inner)}" if case.get("subcs") else ""),
                       sample={"case": case, "listing": list(listing), "sequence": seq, "body_runs": runs} if (case["edges"] == SAMPLE_EDGES[3] and not loops and listing[0] == 2) or (case.get("subcs") and case["edges"] == SAMPLE_EDGES[5]) else None)
    obs["reference"] = {k: v.tolist() for k, v in ref.items()}
    obs["bounds"] = {"mda": mda_bound, "rounding": eps_bound, "kappa": kappa}
    return obs


DEFAULT_PATTERNS = ["none", "x-defaults", "back", "loops", "back+loops", "all"]


def part_init(case, tally):
    """order_disciplines_from_default_inputs / MDOInitializationChain for one pattern of default values."""
    g = _gemseo()
    n = case["n"]
    sig = shape(case)
    pat = case["defaults"]
    bs = bodies(case)
    dflt = set()
    for b in bs:
        for u in b.ins:
            k = u[0]
            back = k == "y" and "_" in u and int(u[1:].split("_")[0]) > b.i
            if pat == "all" or (k == "x" and pat == "x-defaults") or (k == "s" and "loops" in pat) or (back and "back" in pat):
                dflt.add(u)
    available = [] if pat in ("x-defaults",) else [f"x{i}" for i in range(n) if case.get("io", "full") == "full"]
    if pat == "all":
        available = []
    # independent fixed point: which disciplines can ever be initialised
    have = set(available)
    ready: list[int] = []
    changed = True
    while changed:
        changed = False
        for b in bs:
            if b.i not in ready and all(u in have or u in dflt for u in b.ins):
                ready.append(b.i)
                have |= set(b.outs)
                changed = True
    feasible = len(ready) == n
    obs = {"violations": [], "feasible": feasible, "defaults": sorted(dflt), "available": available}

    def viol(inv, msg):
        tally.violation({"invariant": inv, "part": "init", "defaults": pat, **sig}, case, f"{inv}: {msg}\n  case={case}")
        obs["violations"].append({"invariant": inv, "message": msg})

    _, discs = build(case, defaults=dflt, pooled=POOLED)
    index_of = {id(d): i for i, d in enumerate(discs)}
    order = None
    try:
        res = g["order"](discs, True, available)
        order = [index_of.get(id(d), -1) for d in res]
        if not feasible:
            viol("init-order-must-fail", f"returned {order} although nodes {sorted(set(range(n)) - set(ready))} can never get their inputs")
    except ValueError as e:
        if feasible:
            viol("init-order-must-succeed", f"ValueError({e}) although order {ready} is executable")
    if order is not None and feasible:
        if sorted(order) != list(range(n)):
            viol("init-order-each-discipline-once", f"order {order}")
        else:
            got = set(available)
            for i in order:
                miss = [u for u in bs[i].ins if u not in got and u not in dflt]
                if miss:
                    viol("init-order-executable", f"order {order}: node {i} scheduled before its inputs {miss} exist")
                    break
                got |= set(bs[i].outs)
    # raise_error=False
    try:
        res2 = g["order"](discs, False, available)
        if feasible:
            if [index_of.get(id(d), -2) for d in res2] != order:
                viol("init-order-deterministic", f"raise_error=False returned {res2} vs {order}")
        else:
            stuck = [b for b in bs if b.i not in ready]
            must = {u for b in stuck for u in b.ins if u not in have and u not in dflt}
            may = {u for b in stuck for u in b.ins}
            if not all(isinstance(u, str) for u in res2) or not must <= set(res2) <= may:
                viol("init-missing-inputs", f"returned {res2}; inputs nobody can provide {sorted(must)}; inputs of the stuck disciplines {sorted(may)}")
    except Exception as e:
        viol("init-order-raises", f"raise_error=False raised {type(e).__name__}: {e}")
    outcome = "infeasible"
    if feasible and order is not None and sorted(order) == list(range(n)):
        outcome = "order:" + ("listing" if order == list(range(n)) else "reordered")
        # the chain executes the bodies in that order on defaults + inputs
        xin = {f"x{i}": _xval(i) for i in range(n)} if available else {}
        data = {u: np.zeros(_size(u)) for u in dflt}
        data.update(xin)
        for i in order:
            data.update(bs[i].f(data))
        try:
            _, discs2 = build(case, defaults=dflt, pooled=POOLED)
            chain = g["MDOInitializationChain"](discs2, available_data_names=available)
            out = chain.execute(dict(xin))
            for b in bs:
                for v in b.outs:
                    if v not in out or not np.array_equal(np.asarray(out[v]), data[v]):
                        viol("init-chain-data", f"{v} = {out.get(v)} expected {data[v]} (bodies run in order {order})")
                        raise StopIteration
            if [d.n_run for d in discs2] != [1] * n:
                viol("each-body-runs-exactly-once", f"init chain body runs {[d.n_run for d in discs2]}")
        except StopIteration:
            pass
        except Exception as e:
            viol("execution-raises", f"MDOInitializationChain: {type(e).__name__}: {str(e)[:300]}")
    obs["order"] = order
    tally.case((core_key(case), pat), nontrivial=feasible and order != list(range(n)), outcome=f"init:{outcome}",
               sample={"case": case, "order": order} if case["edges"] == SAMPLE_EDGES[3] and not case["loops"] and feasible and order != [0, 1, 2] else None)
    return obs


PAR_KINDS = {  # process kind -> (class, settings)
    "MDOChain": ("MDOChain", {}),
    "MDOParallelChain": ("MDOParallelChain", {}),  # threads, shared input data
    "MDOParallelChain:deepcopy": ("MDOParallelChain", {"use_deep_copy": True}),
    "MDOParallelChain:1worker": ("MDOParallelChain", {"n_processes": 1}),
    "MDOParallelChain:processes": ("MDOParallelChain", {"use_threading": False}),  # thorough, <= 2 nodes (a pool of processes per execution)
    "MDAChain": ("MDAChain", {}),
    "MDAChain:parallel": ("MDAChain", {"mdachain_parallelize_tasks": True}),
}
DUP_SAMPLE = [["d0"], ["d0", "d1"], ["d1"]]


def core_key_par(case):
    return ("par", case["n"], tuple(map(tuple, case["dups"])), case.get("inputs", "own"), case["kind"], tuple(case["names"]))


def part_par(case, tally):
    """Independent disciplines, output names with 1..n producers, one process kind, every listing order asked for."""
    g = _gemseo()
    n, dups, kind = case["n"], case["dups"], case["kind"]
    shared = case.get("inputs", "own") == "shared"
    leaves = [DupLeaf(i, ["x0" if shared else f"x{i}"], [f"o{i}", *dups[i]], "") for i in range(n)]
    xin = {"x0": _xval(0)} if shared else {f"x{i}": _xval(i) for i in range(n)}
    vals = [lf.f(xin) for lf in leaves]  # the whole system evaluated at once: nobody reads an output of another node
    producers = {}
    for lf in leaves:
        for v in lf.outs:
            producers.setdefault(v, []).append(lf.i)
    mult = max(map(len, producers.values()))
    # the class that merges the outputs identifies the defect site; its settings / the inputs layout are in the case record
    sig = {"part": "par", "process": kind if kind.startswith("MDAChain") else kind.split(":")[0]}
    orders = case.get("orders", "all")
    perms = list(itertools.permutations(range(n))) if orders == "all" else [tuple(p) for p in orders]
    cls, settings = PAR_KINDS[kind]
    obs = {"violations": [], "runs": []}

    def viol(inv, listing, msg):
        tally.violation({"invariant": inv, **sig}, {**case, "orders": [list(listing)]},
                        f"{inv} [{kind}] listing={list(listing)}: {msg}\n  case={case}")
        obs["violations"].append({"invariant": inv, "process": kind, "listing": list(listing), "message": msg})

    for listing in perms:
        while POOLED and len(_POOL) < n:
            _POOL.append(g["Harness"](leaves[0], "pool", set()))
        discs = [(_POOL[i].configure(lf, case["names"][i], set()) if POOLED else g["Harness"](lf, case["names"][i], set()))
                 for i, lf in enumerate(leaves)]
        listed = [discs[k] for k in listing]
        index_of = {id(d): i for i, d in enumerate(discs)}
        priority = list(listing)
        try:
            if cls == "MDAChain":
                proc = g["MDAChain"](listed, tolerance=TOL, max_mda_iter=MAX_ITER, **settings)
                # the order in which the MDA chain itself schedules the (independent) disciplines
                priority = [index_of.get(id(d), -1) for stage in proc.coupling_structure.sequence for grp in stage for d in grp]
                if sorted(priority) != list(range(n)):
                    viol("each-discipline-exactly-once", listing, f"sequence={seq_indices(proc.coupling_structure.sequence, index_of)}")
                    continue
                if proc.inner_mdas:
                    viol("inner-mdas-are-the-cyclic-groups", listing, f"{len(proc.inner_mdas)} inner MDAs over independent disciplines")
            else:
                proc = g[cls](listed, **settings)
            out = proc.execute({k: v.copy() for k, v in xin.items()})
            out = {k: np.array(v) for k, v in out.items()}
        except Exception as e:
            viol("execution-raises", listing, f"{type(e).__name__}: {str(e)[:300]}")
            tally.case((core_key_par(case), listing), nontrivial=True, outcome=f"{kind}:raises")
            continue
        # the last producer in the order of the process wins (oracle boundary in the module docstring); the body performs the
        # same floating-point operations whoever calls it, so only a few ulps are allowed
        ref = {v: vals[[i for i in priority if i in who][-1]][v] for v, who in producers.items()}
        bound = 8 * np.finfo(float).eps * (1.0 + max(float(np.max(np.abs(v))) for v in ref.values()))
        msg = _compare(out, ref, bound)
        if msg:
            alt = {v: {i: vals[i][v].tolist() for i in who} for v, who in producers.items() if len(who) > 1}
            viol("data-equals-whole-system-evaluation", listing, msg + f"\n  priority order of the process {priority}; values per producer {alt}")
        for k, v in xin.items():
            if k not in out or not np.array_equal(out[k], v):
                viol("inputs-echoed-unchanged", listing, f"{k}: {out.get(k)} vs {v}")
                break
        runs = [d.n_run for d in discs]
        if runs != [1] * n and not kind.endswith(":processes"):  # bodies run in child processes: their counters are not visible here
            viol("each-body-runs-exactly-once", listing, f"body runs per harness discipline {dict(zip([d.name for d in discs], runs))}")
        obs["runs"].append({"process": kind, "listing": list(listing), "priority": priority, "body_runs": runs,
                            "data": {k: np.asarray(v).tolist() for k, v in sorted(out.items())}})
        tally.case((core_key_par(case), listing), nontrivial=mult > 1,
                   outcome=f"{kind}:n{n}:producers<={mult}:{'listing' if priority == list(listing) else 'reordered'}-priority",
                   sample={"case": case, "listing": list(listing), "priority": priority, "data": obs["runs"][-1]["data"]}
                   if dups == DUP_SAMPLE and listing == (2, 0, 1) and not shared else None)
    obs["values_per_node"] = [{k: v.tolist() for k, v in d.items()} for d in vals]
    return obs


PARTS = {"struct": part_struct, "exec": part_exec, "init": part_init, "par": part_par}


def _case(case, tally):
    PARTS[case["part"]](case, tally)


# ------------------------------------------------------------------------------------------------
# enumeration
# ------------------------------------------------------------------------------------------------
def cases(thorough: bool):
    # A. structure: all graphs, all name patterns, both io layouts, both realisations of an edge
    for n in (0, 1, 2, 3, 4):
        loops = n <= 3 or thorough
        pats = name_patterns(n, all_partitions=thorough and n <= 3) if n else {"distinct": []}
        for edges, lp in graphs(n, loops):
            for names in pats.values():
                for io in ("full", "bare"):
                    for vmode in ("edge", "producer"):
                        if vmode == "producer" and not any(sum(1 for e in edges if e[0] == i) > 1 for i in range(n)):
                            continue  # same realisation as "edge" up to variable names
                        yield {"part": "struct", "n": n, "edges": edges, "loops": lp, "names": names, "io": io, "vars": vmode}
    # B. execution, n <= 3: all listing permutations on the base realisation ...
    for n in (1, 2, 3):
        pats = name_patterns(n, all_partitions=thorough)
        for edges, lp in graphs(n, True):
            base = {"part": "exec", "n": n, "edges": edges, "loops": lp, "names": pats["distinct"], "io": "full", "vars": "edge"}
            yield {**base, "orders": "all"}
            # ... and one deviation at a time (thorough: every listing permutation for each)
            orders = "all" if thorough else "identity"
            devs = [{"names": nm} for k, nm in pats.items() if k != "distinct"]
            devs += [{"io": "bare"}, {"parallel": True}, {"threads": True}, {"inner": "MDAGaussSeidel"}, {"initdef": True}]
            if any(sum(1 for e in edges if e[0] == i) > 1 for i in range(n)):
                devs.append({"vars": "producer"})
            if not thorough:
                devs.append({"names": pats.get("same", pats["distinct"]), "orders": "reversed", "parallel": True})
            for d in devs:
                yield {**base, "orders": orders, **d}
    # B'. some nodes are *processes*: every non-empty subset of the nodes replaced by (a) a nested MDA (two internally coupled
    # halves, or the single self-coupled discipline wrapped alone) or (b) a nested MDOChain of two halves; every listing order.
    # quick: all graphs on <= 2 nodes, loop-free graphs on 3 nodes, nested MDAJacobi; thorough: all graphs on <= 3 nodes, + Gauss-Seidel
    variants = [("mda", "MDAJacobi"), ("chain", None)] + ([("mda", "MDAGaussSeidel")] if thorough else [])
    for n in (1, 2, 3):
        pats = name_patterns(n)
        for edges, lp in graphs(n, True):
            if n == 3 and lp and not thorough:
                continue
            for size in range(1, n + 1):
                for subset in itertools.combinations(range(n), size):
                    for kind, nested in variants:
                        c = {"part": "exec", "n": n, "edges": edges, "loops": lp, "names": pats["distinct"], "io": "full", "vars": "edge",
                             "orders": "all", "kinds": [kind if i in subset else "plain" for i in range(n)]}
                        if nested:
                            c["nested"] = nested
                        yield c
    if thorough:  # loop-free graphs on 4 nodes, listing order and its reverse
        for edges, lp in graphs(4, False):
            for orders in ("identity", "reversed"):
                yield {"part": "exec", "n": 4, "edges": edges, "loops": lp, "names": name_patterns(4)["distinct"], "io": "full", "vars": "edge", "orders": orders}
    # B2. MDAChain settings axis: user-given sub_coupling_structures (one per group needing an MDA, in execution order).
    # Every graph on <= 3 nodes with at least one such group.  Several groups and a weakly coupled node (before / between /
    # after the MDAs in the listing and in the schedule): every listing order.  quick: several groups without a weak node in
    # listing order only, a single group (nothing to permute in the list of structures) on <= 2 nodes only.
    for n in (1, 2, 3):
        pats = name_patterns(n)
        ident, rev = list(range(n)), list(reversed(range(n)))
        for edges, lp in graphs(n, True):
            scc = sccs(n, [tuple(e) for e in edges])
            n_mda = len({s for i, s in enumerate(scc) if len(s) > 1 or i in lp})
            weak = any(len(scc[i]) == 1 and i not in lp for i in range(n))
            if not n_mda:
                continue
            base = {"part": "exec", "axis": "subcs", "subcs": True, "n": n, "edges": edges, "loops": lp, "names": pats["distinct"],
                    "io": "full", "vars": "edge"}
            if thorough or (n_mda > 1 and weak):
                yield {**base, "orders": "all"}
            elif n_mda > 1:
                yield {**base, "orders": [ident]}
            elif n <= 2:
                yield {**base, "orders": [ident, rev][:n]}
            if thorough and n_mda > 1:
                for d in ({"inner": "MDAGaussSeidel"}, {"parallel": True}, {"names": pats.get("same", pats["distinct"])}):
                    yield {**base, "orders": "all", **d}
            if thorough and weak:  # the weak nodes are nested MDAs: self-coupled as seen from outside, but given no structure
                yield {**base, "orders": "all", "kinds": ["mda" if len(scc[i]) == 1 and i not in lp else "plain" for i in range(n)]}
    # ... and on the template family (4 to 6 nodes: W / S / P typings of every labelled DAG on 3 template nodes; the labelled
    # DAGs already put the weak template node before / between / after the others in the listing as well as in the schedule).
    # quick: the typings with a weak node, listing order; thorough: every listing order on 4 nodes and, for the typings
    # with a weak node, on 5 nodes; otherwise listing order, its reverse and the rotation that lists the last node first
    for types, (n, edges, lp) in template_graphs():
        base = {"part": "exec", "axis": "subcs", "subcs": True, "n": n, "edges": edges, "loops": lp, "names": name_patterns(n)["distinct"],
                "io": "full", "vars": "edge", "template": types}
        ident, rev = list(range(n)), list(reversed(range(n)))
        if not thorough:
            if "W" in types:
                yield {**base, "orders": [ident]}
        elif n == 4 or (n == 5 and "W" in types):
            for first in range(n):  # one record per first listed node (120 executions in one record could exceed the per-case timeout)
                yield {**base, "orders": [list(p) for p in itertools.permutations(range(n)) if p[0] == first]}
            yield {**base, "orders": [ident, rev], "parallel": True}
        else:
            yield {**base, "orders": [ident, rev, rev[:1] + ident[:-1]]}
    # B3. process kind axis over independent disciplines whose output names have 1..n producers: every assignment of a subset of
    # {d0, d1} to every node x every listing order x process kind x {own input, one shared input}
    # (quick, 3 nodes: own inputs and the kinds MDOChain / MDOParallelChain / MDAChain with parallel stages)
    for n in (1, 2, 3):
        for dups in itertools.product([[], ["d0"], ["d1"], ["d0", "d1"]], repeat=n):
            for inputs in ("own", "shared"):
                if inputs == "shared" and (n == 1 or (n == 3 and not thorough)):
                    continue
                for kind in PAR_KINDS:
                    if n == 3 and not thorough and kind not in ("MDOChain", "MDOParallelChain", "MDAChain:parallel"):
                        continue
                    if kind.endswith(":processes") and not (thorough and n <= 2):
                        continue
                    yield {"part": "par", "n": n, "dups": [list(d) for d in dups], "inputs": inputs, "kind": kind,
                           "names": name_patterns(n)["distinct"], "orders": "all"}
    # C. initialisation order, n <= 3
    for n in (1, 2, 3):
        pats = name_patterns(n)
        for edges, lp in graphs(n, True):
            for pat in DEFAULT_PATTERNS:
                for nm in (("distinct", "same") if thorough and n > 1 else ("distinct",)):
                    yield {"part": "init", "n": n, "edges": edges, "loops": lp, "names": pats[nm], "io": "full", "vars": "edge", "defaults": pat}


def run(ctx):
    global ALPHA
    ALPHA = ctx.pick(ALPHABETS)
    _gemseo()
    only = getattr(ctx, "only", None)
    todo = [c for c in cases(ctx.thorough) if not only or only in (c["part"], c.get("axis"))]
    counts = {}
    for c in todo:
        k = f"{c['part']}{'/' + c['axis'] if c.get('axis') else ''}:n{c['n']}"
        counts[k] = counts.get(k, 0) + 1
    ctx.tally.notes["case_records"] = counts
    ctx.tally.notes["graphs"] = {f"n{n}{'+loops' if lp else ''}": sum(1 for _ in graphs(n, lp)) for n, lp in
                                 ((1, True), (2, True), (3, True), (4, ctx.thorough))}
    # cheap structural cases in big chunks, executions in small ones
    pmap(_case, [c for c in todo if c["part"] == "struct"], ctx.tally, jobs=ctx.jobs, chunk=200, timeout=60)
    pmap(_case, [c for c in todo if c["part"] != "struct"], ctx.tally, jobs=ctx.jobs, chunk=8, timeout=120)
    return {
        "level": LEVEL,
        "rule": "E2 full enumeration: every labelled digraph on n<=3 nodes with self-loops and on 4 nodes "
        + ("with" if ctx.thorough else "without")
        + " self-loops x name pattern x io layout x edge realisation (structure); n<=3 graphs x every listing permutation, plus one "
        "deviation (names / bare io / parallel stages / threaded Jacobi / Gauss-Seidel / initialize_defaults / shared producer variable) for execution; "
        "every non-empty subset of the nodes replaced by a nested MDA or by a nested MDOChain of two harness halves x every listing permutation ("
        + ("all graphs on <= 3 nodes, nested Jacobi and Gauss-Seidel" if ctx.thorough else "all graphs on <= 2 nodes and the loop-free graphs on 3 nodes, nested Jacobi") + "); "
        "MDAChain settings axis {default, user-given sub_coupling_structures in execution order} over the graphs on <= 3 nodes with a group needing an MDA ("
        + ("every graph x every listing order, + Gauss-Seidel / parallel stages / equal names when there are several groups" if ctx.thorough else
           "several groups and a weakly coupled node: every listing order; several groups, no weak node: listing order; one group: <= 2 nodes")
        + ") and over the W/S/P typings (>= 2 groups needing an MDA, >= 1 pair) of every labelled DAG on 3 template nodes ("
        + ("4 nodes and 5 nodes with a weak node: every listing order; else listing order, reverse, rotation" if ctx.thorough else "typings with a weak node, 4 and 5 nodes, listing order")
        + "); process kind axis over <= 3 independent disciplines writing any subset of two shared output names (4**n assignments) x every listing order x "
        + ("{MDOChain, MDOParallelChain threads / deep copy / one worker (<= 2 nodes: processes), MDAChain sequential / parallel stages} x {own, shared input}" if ctx.thorough else
           "{MDOChain, MDOParallelChain, MDAChain with parallel stages} (<= 2 nodes: all six kinds x {own, shared input})")
        + "; n<=3 graphs x 6 default-value patterns for the initialisation order.  A case is non-trivial when the listing order with one "
        "discipline per stage would not be a valid schedule (some edge points backwards in the listing); in the process kind axis when "
        "some output name has several producers (first-wins and last-wins differ)",
        "exhaustive": True,
        "bounds": {"max_nodes_with_selfloops": 4 if ctx.thorough else 3, "max_nodes": 4, "execution_max_nodes": 4 if ctx.thorough else 3,
                   "sub_coupling_structures_max_nodes": 6 if ctx.thorough else 5, "template_nodes": 3, "independent_disciplines_max": 3, "shared_output_names": 2,
                   "mda_tolerance": TOL, "alphabet": ALPHA["name"]},
        "assumptions": [
            "one variable per edge (or per producer), one producer per variable, self-loop variables private to their discipline",
            "affine disciplines with coupling gains in [0.04, 0.10] (||M||_inf <= 0.45); three value alphabets rotated by VERIF_SEED",
            "weak_couplings checked against its documented reading (all outputs of acyclic disciplines)",
            "order of groups inside a stage and the exact stage of a group are not constrained beyond strict precedence",
            "an output name with several producers is only given to independent disciplines and read by nobody; the last producer in the order "
            "of the merging process wins (listing for MDOChain / MDOParallelChain, the exposed execution sequence for MDAChain)",
            "user-given sub_coupling_structures: membership from the SCC oracle, order of the groups from the execution sequence of a CouplingStructure of the same listing",
        ],
    }


def replay(case, ctx):
    global ALPHA
    global POOLED
    ALPHA = ctx.pick(ALPHABETS)
    POOLED = False
    t = Tally()
    obs = PARTS[case["part"]](case, t)
    obs["case"] = case
    obs.setdefault("violations", [])
    for v in t.violations.values():
        if not any(v["signature"]["invariant"] == o.get("invariant") for o in obs["violations"]):
            obs["violations"].append({"invariant": v["signature"]["invariant"], "message": v["message"]})
    return obs
