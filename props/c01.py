"""C01 - problem evaluations are faithful, memoized and recorded in physical space (engine E1).

One explicit-state BFS (``mc.explore.bfs``) per configuration
    design-space layout  x  function kind  x  preprocessing switch vector
over call histories of a freshly built, pre-processed ``OptimizationProblem`` (objective f, one inequality
constraint g, one observable o):

    ["ev",  h, i]        h.evaluate(p_i)         h in {f, g}, i in {1, 2, 3}
    ["jac", h, i]        h.jac(p_i)              p_i given in the coordinates the pre-processed function expects
    ["ef",  i, b, mode]  problem.evaluate_functions(p_i, design_vector_is_normalized=b, ...)   mode in {val, jac, both}
    ["ub" | "lb", v]     design_space.set_upper_bound / set_lower_bound ALONE on one variable of the layout, between
                         evaluations; v in {loose, tight (where the points leave room), inf, base}: loosen, tighten,
                         finite <-> infinite (the unbounded layout gets a finite bound, the lb == ub layout separates
                         its bounds).  The reference model follows the edit: physical images of the caller's
                         normalized points, scaling D, normalizable and lb == ub components, membership in the bounds
                         are recomputed from the NEW bounds (class Frame).  The caller keeps handing over the same
                         numbers (normalized or physical); a point that an edit puts outside the bounds is legitimately
                         refused by evaluate_functions (ValueError of check_membership: not a transition).
    ["reset", v]         problem.reset(...) then a second preprocess_functions(...): v = same switch vector, "norm" =
                         is_function_input_normalized toggled, "keepdb" = reset(database=False) (thorough)
    ["orig", i]          the original functions, problem.get_functions(no_db_no_norm=True, jacobian_names=()), evaluated
                         at the physical point p_i (values and Jacobians): must be the user's own F and J_F, at any
                         stage (before / after a reset and a second pre-processing), and must not touch the database.

Every point is handed over through ONE caller-owned buffer that the harness overwrites with garbage after each
call (an aliased database key would follow it).  A state is the content of the real database + the bounds of the
design space, its lazily computed normalization flag and cached ranges + the active switch vector; histories reaching
the same state are merged.  Pruning of unobservable operations: an edit or a reset is never the LAST operation of a
history (only a later evaluation can observe it); "orig" (independent of the database) is enabled as first or second
operation and right after an edit / a reset; at most 1 (thorough pass A: 2) edit and 1 reset per history.

Tiers (every pass is complete within its bound; the menus are in the evidence):
  quick     depth 3; switch vectors with <= 1 non-default switch on a menu of 11 evaluations (16 on the layouts whose
            third point is special: lb == ub, integers) + orig + 2 edits (ub loosened, lb -> -inf) + 2 resets;
            vectors with exactly 2 non-default switches on a core menu of 9 evaluations (f/g x value/Jacobian x 2
            points + one evaluate_functions through the conversion path) + orig + 1 edit (ub loosened, after a first
            evaluation has filled the normalization caches; vectors with normalized functions only) + reset(same).
  thorough  depth 3: <= 1 non-default switch on the wide menu (20 evaluations, 2 orig, 7 edits incl. tighten and back
            to base, 3 resets, 2 edits per history), the other 119 vectors on the quick menu; depth 4: <= 2 non-default
            switches on the core menu.
With the database off no database state persists between calls: those searches only branch on edits and resets.

Cost.  The siblings of a state are executed on ONE World that is put back to a snapshot of (database content, model,
the whole design space object state, pre-processed function objects, counters) instead of being rebuilt for every
transition (x3 faster).  Safety net: every history of one operation, every history of two operations ending with an
edit or a reset, and every history that shows a violation is re-executed on a World built from scratch by replaying
the history, and must give the same canonical state and the same violations ("harness-restore-mismatch" otherwise);
``replay`` always rebuilds from scratch.

Oracle = the reference model of DESIGN.md section 5 (plain dictionaries):
  * x = round?(phys(p)) with phys the affine map of the bounded float components written out here,
  * returned value  = F(x)            (F = the harness polynomial, also what the user's callable computes),
  * returned Jacobian = J_F(x) . D    D = diag(ub - lb) on normalized components, 1 elsewhere, 0 where lb == ub,
  * after EVERY step the database equals the model: same keys in the same order, key = physical point, value
    identical (array_equal) to the value returned by the call that computed it, "@name" = J_F(x) (zero columns on
    lb == ub components when the functions are normalized), no other name, nothing at all when use_database=False,
  * counters in the user's callables: a request whose (function, kind, point) is already recorded does not call
    the user's function again, and returns the same result as the first time.

Value alphabet.  Initial bounds and points are dyadic rationals and every initial span is a power of two, so the affine
maps normalize/unnormalize are exact in binary64 and the same physical point reached through normalized and physical
coordinates has the same bytes (the statement does not promise that a rounding-level difference of the
normalization round trip is merged; this is kept out of the alphabet).  After an edit the span need not be a power of
two: the model then computes the physical image with the documented formulas in the documented order
(x = z * (ub - lb) + lb;  z = (x - lb) * (1 / (ub - lb))), so a physical point handed to normalized functions is
expected under unnormalize(normalize(p)).  VERIF_SEED rotates four alphabets (shift/scale of every bound, edit value
and point, which side of the unbounded component is open).

Tolerances (derived, not tuned; EPS = 2^-52, n = 3 inputs, every F_i is a polynomial of degree <= 2 with <= 9
monomials):
  * MAG_i(x) = sum of |monomial| >= |F_i(x)|;  an evaluation in any association order, including the normalized
    form of a linear function (A.diag(span)) z + (A.lb + b), performs <= 16 roundings per monomial chain:
    |fl(F_i) - F_i| <= 32 EPS MAG_i(|x| + 2|lb|).
  * JMAG_ij likewise for dF_i/dx_j;  scaling by span_j (and back by 1/span_j for the stored matrix) adds <= 2
    roundings: 32 EPS JMAG_ij s_j.
  * approximated derivatives, h = 1e-7 in the coordinates the function works in, g(z) = F(lb + s z):
    forward / one-sided quotient: |err| <= h/2 |d2F_i/dx_j2| s_j^2 (exact Lagrange remainder, F quadratic; the
    centred quotient and the complex step have no truncation error on a quadratic but centred differences fall
    back to a one-sided quotient at a bound, so all three are held to this bound) + rounding of the two values
    2 * 32 EPS MAG_i / h + rounding of the perturbed coordinate 8 EPS (|z_j| + 1) / h * JMAG_ij s_j.
  * a database hit in normalized mode returns normalize_grad(unnormalize_grad(J_n)): two roundings per entry,
    |repeat - first| <= 8 EPS |first|.

Oracle boundaries (cases the statement leaves open are either removed from the alphabet or every reading is accepted):
  (i)   round_ints off: points whose integer components are not integral are not in the alphabet.  round_ints on:
        they are (p_3 of the layouts with integers) and the recorded key may be the point as passed or its rounding;
        the memoization claim is then made per recorded key.
  (ii)  -0.0 is not in the alphabet.
  (iii) evaluate_functions(p, design_vector_is_normalized=b) with b different from the coordinates the
        pre-processed functions work in: the statement says "the coordinates the caller uses"; both the Jacobian
        w.r.t. the coordinates of p and the Jacobian w.r.t. the coordinates of the functions are accepted.
  (iv)  approximated derivatives where the differentiated composition rounds integer components (round_ints on, or
        normalized functions on a space with integers): the derivative of F(round(x)) w.r.t. an integer component
        is 0 almost everywhere; 0 and dF/dx_j are both accepted on those columns.  Approximations call the user's
        function at probe points: no counter claim is made for a Jacobian request that is not served from the
        database.
  (v)   complex step: the harness calls design_space.to_complex() before pre-processing, as every optimization
        library does (BaseOptimizationLibrary._pre_run); keys and values may then be complex arrays and are
        compared by value (zero imaginary part demanded for keys).
  (vi)  a Jacobian is compared as a dense 2-D array (1-D gradients of scalar functions and sparse matrices are
        densified); the statement does not fix the container.
  (vii) MDOLinearFunction has no user callable: the counter claims are made for the callable kinds only (its
        database content and its returned values are checked like the others).
  (viii) a Jacobian recorded while a component had lb == ub (zero column, as the statement demands) and served from the
        database after an edit has separated the bounds of that component (or conversely): "served with the same
        result" and "derivative w.r.t. the caller's coordinates" conflict; such hits are not judged.

Known finding with its own invariant (so that it cannot hide anything else): an MDOLinearFunction pre-processed with
normalized inputs is replaced by MDOLinearFunction.normalize(design_space), which freezes the bounds of the time of
the pre-processing; after an edit of the bounds it is evaluated with the old bounds and recorded under the physical
point of the new ones.  A mismatch of a linear function is reported as
"linear-function-normalized-with-the-bounds-of-preprocessing" only when the observed value / Jacobian / stored
Jacobian is exactly what the frozen bounds predict; anything else keeps the ordinary invariant.
"""
from __future__ import annotations

import collections
import copy
import json

import numpy as np
from numpy import inf

from mc import explore, product
from mc.core import Tally, pmap
from mc.explore import Rejected

LEVEL = "model_checking"
EPS = float(np.finfo(float).eps)
STEP = 1e-7  # OptimizationProblem's default differentiation_step
GARBAGE = 777.25
ROLES = ("f", "g", "o")
FROZEN_LINEAR = "linear-function-normalized-with-the-bounds-of-preprocessing"

# ---------------------------------------------------------------------------------------------------
# value alphabets (rotated by VERIF_SEED): floats x -> off + scale * x, integers n -> n + ioff
# ---------------------------------------------------------------------------------------------------
ALPHABETS = [
    {"off": 0.0, "scale": 1.0, "ioff": 0, "open": "both"},
    {"off": -4.5, "scale": 2.0, "ioff": -3, "open": "upper"},  # the unbounded component is [lb, inf)
    {"off": 0.25, "scale": 0.5, "ioff": 2, "open": "lower"},  # (-inf, ub]
    {"off": 3.0, "scale": 4.0, "ioff": -1, "open": "both"},
]
ALPHA = ALPHABETS[0]

# name, size, type, lb, ub  (alphabet 0); U = the open side(s) are replaced by +-inf
BASE_LAYOUTS = {
    "bounded": {"vars": [("a", 1, "float", [1.0], [3.0]), ("b", 1, "float", [-2.0], [2.0]), ("c", 1, "float", [0.0], [8.0])],
                "points": [[1.5, -1.0, 2.0], [3.0, 0.5, 0.0], [1.0, 2.0, 6.0]]},
    "unbounded": {"vars": [("a", 1, "float", [1.0], [3.0]), ("u", 1, "float", [-2.0], [2.0]), ("c", 1, "float", [0.0], [8.0])],
                  "open": "u", "points": [[1.5, 0.75, 2.0], [3.0, -1.5, 0.0], [1.0, 0.0, 6.0]]},
    # p_3 is physically p_1; in normalized coordinates its inert coordinate is 0.5 instead of 0
    "equal": {"vars": [("a", 1, "float", [1.0], [3.0]), ("e", 1, "float", [2.0], [2.0]), ("c", 1, "float", [0.0], [8.0])],
              "points": [[1.5, 2.0, 2.0], [3.0, 2.0, 0.0], [1.5, 2.0, 2.0]], "inert3": 0.5},
    # p_3 (round_ints on only): non-integral integer component, rounds to p_1
    "mixed": {"vars": [("a", 1, "float", [1.0], [3.0]), ("n", 1, "integer", [0], [4]), ("c", 1, "float", [0.0], [8.0])],
              "points": [[1.5, 2, 2.0], [3.0, 0, 0.5], [1.0, 4, 6.0]], "p3_round": [1.5, 2.25, 2.0]},
    "ints": {"vars": [("n", 1, "integer", [0], [4]), ("m", 1, "integer", [-2], [2]), ("k", 1, "integer", [1], [3])],
             "points": [[1, -1, 2], [4, 0, 3], [0, 2, 1]], "p3_round": [1.25, -1.0, 1.75]},
    "vec": {"vars": [("v", 2, "float", [0.0, -1.0], [2.0, 3.0]), ("s", 1, "float", [1.0], [5.0])],
            "points": [[0.5, 1.0, 2.0], [2.0, -1.0, 5.0], [0.0, 3.0, 1.0]]},
    # ParameterSpace with deterministic variables only; non-zero lower bounds
    "pspace": {"vars": [("a", 1, "float", [1.0], [3.0]), ("b", 1, "float", [-2.0], [2.0]), ("c", 1, "float", [0.5], [8.5])],
               "points": [[1.5, -1.0, 2.5], [3.0, 0.5, 0.5], [1.0, 2.0, 6.5]], "cls": "ParameterSpace"},
}
LAYOUTS = list(BASE_LAYOUTS)
KINDS = ["quad", "vec2", "lin", "linsp", "csr"]
COMPANION = {"quad": "lin", "vec2": "csr", "lin": "quad", "linsp": "vec2", "csr": "linsp"}  # kind of g for f's kind

SWITCH_AXES = {  # first value = default of preprocess_functions / OptimizationProblem
    "norm": [True, False],
    "db": [True, False],
    "store_jac": [True, False],
    "round": [True, False],
    "diff": ["user", "fd", "cd", "cs"],
    "sparse": [False, True],
}
DIFF = {"user": "user", "fd": "finite_differences", "cd": "centered_differences", "cs": "complex_step"}
DEFAULTS = {k: v[0] for k, v in SWITCH_AXES.items()}


# design-space edits (alphabet 0 values, transformed like the bounds): one edited variable per layout; every value keeps
# the three physical points inside the bounds ("tight" exists where the points leave room)
BASE_EDITS = {
    "bounded": {"var": "c", "ub": {"loose": [16.0], "tight": [6.0], "inf": [inf]}, "lb": {"loose": [-8.0], "inf": [-inf]}},
    "unbounded": {"var": "u", "ub": {"loose": [4.0], "inf": [inf]}, "lb": {"loose": [-4.0], "inf": [-inf]}},  # infinite -> finite
    "equal": {"var": "e", "ub": {"loose": [4.0], "inf": [inf]}, "lb": {"loose": [0.0], "inf": [-inf]}},  # lb == ub -> lb < ub
    "mixed": {"var": "c", "ub": {"loose": [16.0], "tight": [6.0], "inf": [inf]}, "lb": {"loose": [-8.0], "inf": [-inf]}},
    "ints": {"var": "n", "ub": {"loose": [8], "inf": [inf]}, "lb": {"loose": [-4], "inf": [-inf]}},
    "vec": {"var": "v", "ub": {"loose": [4.0, 7.0], "inf": [inf, 3.0]}, "lb": {"loose": [-2.0, -5.0], "inf": [0.0, -inf]}},
    "pspace": {"var": "c", "ub": {"loose": [16.5], "tight": [6.5], "inf": [inf]}, "lb": {"loose": [-7.5], "inf": [-inf]}},
}


def _layout(name):
    """The layout in the current alphabet: flat arrays lb, ub, integer mask, points, bound edits."""
    base, al = BASE_LAYOUTS[name], ALPHA
    off, scale, ioff = al["off"], al["scale"], al["ioff"]
    variables, lb, ub, ints, index = [], [], [], [], {}
    for vname, size, tp, l, u in base["vars"]:
        if tp == "integer":
            l2, u2 = [v + ioff for v in l], [v + ioff for v in u]
        else:
            l2, u2 = [off + scale * v for v in l], [off + scale * v for v in u]
            if base.get("open") == vname:
                if al["open"] in ("both", "lower"):
                    l2 = [-inf] * size
                if al["open"] in ("both", "upper"):
                    u2 = [inf] * size
        index[vname] = (len(lb), len(lb) + size, tp)
        variables.append((vname, size, tp, l2, u2))
        lb += l2
        ub += u2
        ints += [tp == "integer"] * size
    ints = np.array(ints)

    def tr(p):
        return np.array([(v + ioff) if i else (off + scale * v) for v, i in zip(p, ints)], dtype=float)

    out = {"name": name, "vars": variables, "lb": np.array(lb, dtype=float), "ub": np.array(ub, dtype=float), "ints": ints,
           "points": [tr(p) for p in base["points"]], "cls": base.get("cls", "DesignSpace"), "inert3": base.get("inert3")}
    out["p3_round"] = tr(base["p3_round"]) if "p3_round" in base else None
    out["normed"] = np.isfinite(out["lb"]) & np.isfinite(out["ub"]) & ~ints
    out["span"] = np.where(out["normed"], out["ub"] - out["lb"], 1.0)  # the scale s_j (0 where lb == ub)
    out["lbn"] = np.where(out["normed"], out["lb"], 0.0)

    # the same points in the normalized coordinates of the INITIAL bounds (exact: power-of-two spans); these numbers
    # are what a caller working in normalized coordinates keeps handing over after the bounds have been edited
    def to_norm(x, i):
        p = x.copy()
        for j in np.nonzero(out["normed"])[0]:
            s = out["span"][j]
            if s == 0.0:
                p[j] = out["inert3"] if (i == 3 and out["inert3"] is not None) else 0.0
            else:
                p[j] = (x[j] - out["lb"][j]) / s
        return p

    out["npoints"] = [to_norm(p, i + 1) for i, p in enumerate(out["points"])]
    out["np3_round"] = to_norm(out["p3_round"], 3) if out["p3_round"] is not None else None

    ed = BASE_EDITS[name]
    a, b, tp = index[ed["var"]]
    edits = {"var": ed["var"], "slice": (a, b)}
    for side in ("ub", "lb"):
        vals = {"base": (out[side][a:b]).copy()}
        for nm, v in ed[side].items():
            vals[nm] = np.array([x if np.isinf(x) else ((x + ioff) if tp == "integer" else (off + scale * x)) for x in v], dtype=float)
        edits[side] = vals
    out["edits"] = edits
    return out


# ---------------------------------------------------------------------------------------------------
# harness functions: F_k(x) = x^T Q_k x + q_k . x + c_k  (k outputs), exact derivatives, magnitude bounds
# ---------------------------------------------------------------------------------------------------
_Q = np.array([[[1.0, 3.0, 5.0], [0.0, 0.0, 1.0], [0.0, 0.0, 0.25]],
               [[0.0, 1.0, 0.0], [0.0, 0.5, 2.0], [0.0, 0.0, 0.0]]])
_L = np.array([[0.0, 0.5, -1.0], [1.0, -2.0, 0.25]])
_C = np.array([0.5, -1.0])
_A_DENSE = np.array([[1.0, 2.0, -3.0], [0.5, -1.0, 0.25]])
_A_SPARSE = np.array([[1.0, 0.0, -3.0], [0.0, -1.0, 0.0]])
_ROLE = {"f": (1.0, [0, 1, 2]), "g": (0.5, [1, 2, 0]), "o": (2.0, [2, 0, 1])}  # multiplier, permutation of the inputs


class Fn:
    """One harness function: specification shared by the user's callable and by the oracle."""

    def __init__(self, kind, role):
        mult, perm = _ROLE[role]
        self.kind, self.role = kind, role
        m = 1 if kind in ("quad", "lin") else 2
        if kind in ("lin", "linsp"):
            a = (_A_SPARSE if kind == "linsp" else _A_DENSE)[:m] * mult
            self.Q = np.zeros((m, 3, 3))
            self.q = a[:, perm]
        else:
            self.Q = (_Q[:m] * mult)[:, perm][:, :, perm]
            self.q = (_L[:m] * mult)[:, perm]
        self.c = _C[:m] * mult
        self.Qs = self.Q + self.Q.transpose(0, 2, 1)
        self.m = m
        self.scalar = kind in ("quad", "lin")
        self.linear = kind in ("lin", "linsp")

    def value(self, x):
        return np.einsum("kij,i,j->k", self.Q, x, x) + self.q @ x + self.c

    def jac(self, x):
        return np.einsum("kij,j->ki", self.Qs, x) + self.q

    def mag(self, xa):
        return np.einsum("kij,i,j->k", abs(self.Q), xa, xa) + abs(self.q) @ xa + abs(self.c)

    def jmag(self, xa):
        return np.einsum("kij,j->ki", abs(self.Qs), xa) + abs(self.q)

    def hdiag(self):
        return 2.0 * abs(np.einsum("kjj->kj", self.Q))


def _dense(m):
    if hasattr(m, "todense"):
        m = m.todense()
    return np.asarray(m)


def _dense2(m):
    return np.atleast_2d(_dense(m))


def _show(a):
    a = _dense(a)
    return np.array2string(a, precision=17, separator=",").replace("\n", "")


class _PlainValue:
    """Stand-in for ``multiprocessing.Value("i", 0)`` (same interface: ``.value``, ``.get_lock()``)."""

    def __init__(self, typecode=None, value=0):
        import threading

        self.value = value
        self._lock = threading.RLock()

    def get_lock(self):
        return self._lock


def _light_counters():
    """Rebind the module-level name ``Value`` of gemseo.algos.problem_function (a seam used from outside).

    Every ProblemFunction creates a ``multiprocessing.Value`` for ``n_calls``; its POSIX semaphore costs ~5 ms on
    this machine, i.e. 85 % of the construction of a problem, and a problem is built for every transition.
    ``n_calls`` is only ever observed (never read by the evaluation paths), single-process here.
    """
    import gemseo.algos.problem_function as pf

    if pf.Value is not _PlainValue:
        pf.Value = _PlainValue


def _preprocess_kwargs(sw):
    return {"is_function_input_normalized": sw["norm"], "use_database": sw["db"], "round_ints": sw["round"],
            "store_jacobian": sw["store_jac"], "support_sparse_jacobian": sw["sparse"]}


class World:
    """The real pre-processed problem + the reference model + the harness bookkeeping."""

    def __init__(self, layout, kind, sw, fns=None):
        from gemseo.algos.optimization_problem import OptimizationProblem
        from gemseo.core.mdo_functions.mdo_function import MDOFunction
        from gemseo.core.mdo_functions.mdo_linear_function import MDOLinearFunction
        from scipy.sparse import csr_array

        _light_counters()
        self.lay, self.sw = layout, dict(sw)
        if layout["cls"] == "ParameterSpace":
            from gemseo.algos.parameter_space import ParameterSpace

            ds = ParameterSpace()
        else:
            from gemseo.algos.design_space import DesignSpace

            ds = DesignSpace()
        off = 0
        for vname, size, tp, l, u in layout["vars"]:
            val = layout["points"][0][off:off + size]
            if tp == "integer":
                ds.add_variable(vname, size, "integer", np.array(l, dtype=float), np.array(u, dtype=float), val.astype(np.int64))
            else:
                ds.add_variable(vname, size, "float", np.array(l, dtype=float), np.array(u, dtype=float), val.copy())
            off += size
        self.ds = ds
        self.calls = []  # (role, "func" | "jac") for every call of a user's callable
        self.fns = fns or {"f": Fn(kind, "f"), "g": Fn(COMPANION[kind], "g"), "o": Fn("quad", "o")}

        def make(fn):
            role = fn.role
            if fn.linear:
                a = fn.q.copy()
                return MDOLinearFunction(csr_array(a) if fn.kind == "linsp" else a, role, value_at_zero=fn.c.copy())

            def func(x):
                self.calls.append((role, "func"))
                v = fn.value(x)
                return v[0] if fn.scalar else v

            def jac(x):
                self.calls.append((role, "jac"))
                j = fn.jac(x)
                if fn.kind == "csr":
                    return csr_array(j)
                return j[0] if fn.scalar else j

            return MDOFunction(func, role, jac=jac)

        if sw["diff"] == "cs":
            ds.to_complex()  # oracle boundary (v)
        problem = OptimizationProblem(ds, differentiation_method=DIFF[sw["diff"]])
        problem.objective = make(self.fns["f"])
        problem.add_constraint(make(self.fns["g"]), constraint_type="ineq")
        problem.add_observable(make(self.fns["o"]))
        problem.preprocess_functions(**_preprocess_kwargs(sw))
        self.problem = problem
        self.refresh_functions()
        self.buf = np.full(len(layout["lb"]), GARBAGE)
        self.model = collections.OrderedDict()  # key bytes -> {"x": array, "names": {name: {"first":..., ...}}}
        self.lb, self.ub = layout["lb"].copy(), layout["ub"].copy()  # the model's view of the current bounds
        self.pre_lb, self.pre_ub = self.lb.copy(), self.ub.copy()  # the bounds when the functions were pre-processed
        self.n_edits = 0
        self.n_resets = 0
        self.frame = None  # set by the Spec
        self.problems = []
        self.broken = False
        self.restores = 0
        self.ds_touched = False
        self._snap = None

    def refresh_functions(self):
        p = self.problem
        self.funcs = {"f": p.objective, "g": p.constraints[0], "o": p.observables[0]}

    # -- snapshot / restore: database, model, design space (bounds + normalization caches), pre-processing ------------
    def snapshot(self):
        p = self.problem
        data = p.database._Database__data
        self._snap = {
            "db": [(k, dict(v)) for k, v in data.items()],
            "model": [(kb, {"x": e["x"], "names": dict(e["names"])}) for kb, e in self.model.items()],
            "ncalls": len(self.calls),
            "ds": copy.deepcopy(self.ds.__dict__),
            "ds_live": dict(self.ds.__dict__),  # the attribute bindings of the live space (shallow)
            "flag": self.ds.__dict__["_DesignSpace__norm_data_is_computed"],
            "broken": self.broken,
            "sw": dict(self.sw), "lb": self.lb.copy(), "ub": self.ub.copy(), "frame": self.frame,
            "pre_lb": self.pre_lb.copy(), "pre_ub": self.pre_ub.copy(),
            "n_edits": self.n_edits, "n_resets": self.n_resets,
            "objective": p._objective, "constraints": list(p.constraints._functions), "observables": list(p.observables._functions),
            "new_iter": list(p.new_iter_observables._functions), "preprocessed": p._functions_are_preprocessed,
            "counter": p.evaluation_counter.current, "eval_obs_jac": p.new_iter_observables.evaluate_jacobian,
        }
        self.ds_touched = False

    def restore(self):
        s = self._snap
        p = self.problem
        data = p.database._Database__data
        data.clear()
        for k, v in s["db"]:
            data[k] = dict(v)
        self.model = collections.OrderedDict((kb, {"x": e["x"], "names": dict(e["names"])}) for kb, e in s["model"])
        del self.calls[s["ncalls"]:]
        d = self.ds.__dict__
        if self.ds_touched:
            # edits and resets modify objects of the space in place (variables, current value): deep restore
            d.clear()
            d.update(copy.deepcopy(s["ds"]))
            s["ds_live"] = dict(d)
            self.ds_touched = False
        elif not s["flag"]:
            # an evaluation fills the normalization caches when they are invalid; it rebinds attributes and leaves the
            # objects they were bound to untouched: put the bindings back
            d.clear()
            d.update(s["ds_live"])
        if self.n_resets != s["n_resets"]:
            p._objective = s["objective"]
            p.constraints._functions[:] = s["constraints"]
            p.observables._functions[:] = s["observables"]
            p.new_iter_observables._functions[:] = s["new_iter"]
            p._functions_are_preprocessed = s["preprocessed"]
            p.new_iter_observables.evaluate_jacobian = s["eval_obs_jac"]
            self.refresh_functions()
        p.evaluation_counter.current = s["counter"]
        self.sw, self.lb, self.ub, self.frame = dict(s["sw"]), s["lb"].copy(), s["ub"].copy(), s["frame"]
        self.pre_lb, self.pre_ub = s["pre_lb"].copy(), s["pre_ub"].copy()
        self.n_edits, self.n_resets = s["n_edits"], s["n_resets"]
        self.broken = s["broken"]
        self.problems = []
        self.buf[:] = GARBAGE
        self.restores += 1


class Frame:
    """The reference model's constants for one (current bounds, normalized?, rounding?) - everything is recomputed
    from the CURRENT bounds: normalizable components, scaling D, physical images of the caller's points."""

    def __init__(self, spec, lb, ub, norm, rnd):
        lay = spec.lay
        self.spec, self.lay = spec, lay
        self.lb, self.ub, self.norm, self.rnd = lb, ub, norm, rnd
        ints = lay["ints"]
        self.normed = np.isfinite(lb) & np.isfinite(ub) & ~ints
        with np.errstate(invalid="ignore"):
            self.span = np.where(self.normed, ub - lb, 1.0)  # the scale s_j (0 where lb == ub)
        self.inv = 1.0 / np.where(self.span == 0.0, 1.0, self.span)
        self.lbn = np.where(self.normed, lb, 0.0)
        self.one = np.ones_like(self.span)
        self.s_fun = self.span if norm else self.one
        self.equal = self.normed & (ub == lb)
        self.equal_key = self.equal.tobytes() if norm else b""
        # integer columns where an approximated derivative may legitimately be 0 (boundary iv)
        self.free = ints & bool(spec.approx and spec.has_int and (rnd or norm))
        self.key = (lb.tobytes(), ub.tobytes(), norm, rnd)
        self._points, self._expect = {}, {}

    def affine(self, p):
        x = p.copy()
        nz = self.normed
        x[nz] = p[nz] * self.span[nz] + self.lb[nz]
        return x

    def to_normalized(self, x):  # DesignSpace.normalize_vect written out: (x - lb) * (1 / span)
        p = x.copy()
        nz = self.normed
        p[nz] = (x[nz] - self.lb[nz]) * self.inv[nz]
        return p

    def round_ints(self, x):
        x = x.copy()
        m = self.lay["ints"]
        x[m] = np.round(x[m])
        return x

    def caller_point(self, i, coords_norm):
        lay = self.lay
        if i == 3 and lay["p3_round"] is not None and self.rnd:
            return (lay["np3_round"] if coords_norm else lay["p3_round"]).copy()
        return (lay["npoints"] if coords_norm else lay["points"])[i - 1].copy()

    def point(self, i, coords_norm):
        """p as handed over, expected physical point x, admissible keys, p in the functions' coordinates, inside bounds?"""
        k = (i, coords_norm)
        if k not in self._points:
            p = self.caller_point(i, coords_norm)
            if coords_norm:
                x_unrounded = member = self.affine(p)
                p_fun = p if self.norm else x_unrounded
            elif self.norm:  # a physical point handed to normalized functions: normalize_vect, then unnormalize_vect
                member = p
                p_fun = self.to_normalized(p)
                x_unrounded = self.affine(p_fun)
            else:
                x_unrounded = member = p_fun = p.copy()
            x = self.round_ints(x_unrounded)
            cands = [x] if np.array_equal(x, x_unrounded) else [x, x_unrounded]
            m = self.round_ints(member) if coords_norm else member  # what evaluate_functions checks against the bounds
            inside = bool(np.all(m >= self.lb - 1e-9 * (1 + abs(m))) and np.all(m <= self.ub + 1e-9 * (1 + abs(m))))
            self._points[k] = (p, x, cands, p_fun, inside)
        return self._points[k]

    def _jac_tol(self, fn, x, p_fun, scale):
        """Entry-wise tolerance of a Jacobian w.r.t. coordinates of scale ``scale`` (see the module docstring)."""
        xa = abs(x) + 2 * abs(self.lbn)
        jm = fn.jmag(xa)
        tol = 32 * EPS * jm * np.maximum(scale, 0.0)
        if self.spec.approx:
            s = self.s_fun  # the approximation is made in the coordinates of the functions ...
            t = 0.5 * STEP * fn.hdiag() * s**2 * 1.01 + (64 * EPS * fn.mag(xa) / STEP)[:, None] + 8 * EPS * (abs(p_fun) + 1) / STEP * jm * s
            ratio = np.where(s > 0, scale / np.where(s > 0, s, 1.0), 1.0)  # ... and rescaled to ``scale``
            tol = tol + t * ratio
        return tol

    def expect(self, role, what, i, coords_norm, is_ef):
        k = (role, what, i, coords_norm, is_ef)
        if k not in self._expect:
            fn = self.spec.fns[role]
            p, x, cands, p_fun, _ = self.point(i, coords_norm)
            if what == "val":
                e = {"exp": fn.value(x), "tol": 32 * EPS * fn.mag(abs(x) + 2 * abs(self.lbn))}
            else:
                jx = fn.jac(x)
                readings = [self.s_fun]
                if is_ef and coords_norm != self.norm:  # boundary (iii)
                    readings.append(self.span if coords_norm else self.one)
                phys = jx.copy()
                if self.norm:
                    phys[:, self.equal] = 0.0
                e = {"readings": [(jx * s, self._jac_tol(fn, x, p_fun, s), s) for s in readings],
                     "phys": phys, "phys_tol": self._jac_tol(fn, x, p_fun, self.one)}
            self._expect[k] = e
        return self._expect[k]

    def jac_matches(self, got, expected, tol):
        """Entry-wise comparison; on the free (integer, approximated, rounded) columns 0 is accepted too."""
        got = _dense2(got)
        if got.shape != expected.shape:
            return False
        if got.dtype.kind == "c":
            if np.any(got.imag != 0):
                return False
            got = got.real
        ok = abs(got - expected) <= tol
        if self.free.any():
            ok = ok | (self.free[None, :] & (abs(got) <= tol))
        return bool(ok.all())


class Spec:
    def __init__(self, layout_name, kind, sw, ops, alphabet=0, max_edits=1, max_resets=1, depth=None, edit_after_evaluation=False):
        global ALPHA
        ALPHA = ALPHABETS[alphabet]
        self.alphabet = alphabet
        self.layout_name, self.kind, self.sw = layout_name, kind, dict(sw)
        self.lay = _layout(layout_name)
        self.ops = ops
        self.max_edits, self.max_resets, self.depth = max_edits, max_resets, depth
        self.edit_after_evaluation = edit_after_evaluation  # (core menu) an edit needs an earlier evaluation: filled caches
        self.has_int = bool(self.lay["ints"].any())
        self.approx = sw["diff"] != "user"
        self.nondefault = {k: v for k, v in self.sw.items() if v != DEFAULTS[k]}
        self.fns = {"f": Fn(kind, "f"), "g": Fn(COMPANION[kind], "g"), "o": Fn("quad", "o")}
        self._frames = {}
        self.fast = True  # explore siblings on one World restored from a snapshot (confirmed on a fresh World)
        self.cross_check_len = 2  # histories of < this many operations are always re-executed from scratch

    def frame(self, lb, ub, sw):
        k = (lb.tobytes(), ub.tobytes(), sw["norm"], sw["round"])
        if k not in self._frames:
            self._frames[k] = Frame(self, lb.copy(), ub.copy(), sw["norm"], sw["round"])
        return self._frames[k]

    def new_world(self):
        w = World(self.lay, self.kind, self.sw, self.fns)
        w.frame = self.frame(w.lb, w.ub, w.sw)
        return w

    # -- explorer interface --------------------------------------------------------------------------
    def starts(self):
        return [["start", self.layout_name, self.kind, self.sw, self.alphabet]]

    def build(self, hist):
        w = self.new_world()
        for op in hist[1:]:
            self._apply(w, op, check=False)
        w.snapshot()
        return w

    def clone(self, w):
        """The same World, put back into the state it had when it was built (see ``check`` for the safety net)."""
        w.restore()
        return w

    def enabled(self, w, hist):
        if w.broken:
            return []
        out = []
        last_level = self.depth is not None and len(hist) >= self.depth  # the operation would be the last of the history
        prev = hist[-1][0] if len(hist) > 1 else None
        for op in self.ops:
            k = op[0]
            if k in ("ub", "lb", "reset") and last_level:
                continue  # a pure state change is only observable by a later evaluation
            if k == "orig" and len(hist) > 2 and prev not in ("ub", "lb", "reset"):
                continue  # the originals do not depend on the database: 1st/2nd operation, or right after an edit / a reset
            if k in ("ub", "lb"):
                if w.n_edits >= self.max_edits or op[1] not in self.lay["edits"][k]:
                    continue
                if self.edit_after_evaluation and not any(o[0] in ("ev", "jac", "ef") for o in hist[1:]):
                    continue
                a, b = self.lay["edits"]["slice"]
                cur = (w.ub if k == "ub" else w.lb)[a:b]
                if np.array_equal(cur, self.lay["edits"][k][op[1]]):
                    continue
            elif k == "reset" and w.n_resets >= self.max_resets:
                continue
            out.append(list(op))
        return out

    def apply(self, w, op):
        return self._apply(w, op, check=True)

    def nontrivial(self, hist):
        ops = hist[1:]
        pts = [op[2] if op[0] in ("ev", "jac") else op[1] for op in ops if op[0] in ("ev", "jac", "ef")]
        if len(pts) != len(set(pts)) or any(op[0] == "ef" and op[3] == "both" for op in ops):
            return True
        seen_change = False
        for op in ops:  # an evaluation after a design-space edit or a reset
            if op[0] in ("ub", "lb", "reset"):
                seen_change = True
            elif seen_change:
                return True
        return False

    def canon(self, w):
        items = []
        for k, vals in w.problem.database.items():
            a = k.wrapped_array
            row = []
            for n, v in vals.items():
                v = _dense(v)
                row.append((n, v.dtype.str, v.shape, v.tobytes()))
            row.sort()
            items.append(((a.dtype.str, a.tobytes()), tuple(row)))
        d = w.ds.__dict__
        return (tuple(items), w.problem.evaluation_counter.current, d.get("_DesignSpace__norm_data_is_computed"), w.broken,
                tuple(sorted(w.sw.items())),
                tuple((n, np.asarray(v.lower_bound, dtype=float).tobytes(), np.asarray(v.upper_bound, dtype=float).tobytes()) for n, v in w.ds._variables.items()),
                None if d.get("_norm_factor") is None else np.asarray(d["_norm_factor"]).tobytes(),  # the cached ranges
                w.n_edits, w.n_resets, w.problem._functions_are_preprocessed)

    # -- one operation ---------------------------------------------------------------------------------
    def _apply(self, w, op, check):
        if w.broken:
            return "skipped"
        kind = op[0]
        if kind in ("ub", "lb"):
            return self._apply_edit(w, op, check)
        if kind == "reset":
            return self._apply_reset(w, op, check)
        if kind == "orig":
            return self._apply_orig(w, op, check)
        sw, fr = w.sw, w.frame
        if kind in ("ev", "jac"):
            role, i = op[1], op[2]
            reqs = [(role, "val" if kind == "ev" else "jac")]
            coords_norm = sw["norm"]
        else:
            _, i, b, mode = op
            reqs = [(r, "val") for r in ROLES if mode in ("val", "both")] + [(r, "jac") for r in ROLES if mode in ("jac", "both")]
            coords_norm = bool(b)
        p, x, cands, p_fun, inside = fr.point(i, coords_norm)

        db = w.problem.database
        before = self._db_names(db) if len(cands) > 1 else None
        n0 = len(w.calls)
        w.buf[:] = p
        got = {}
        try:
            if kind == "ev":
                got[reqs[0]] = w.funcs[role].evaluate(w.buf)
            elif kind == "jac":
                got[reqs[0]] = w.funcs[role].jac(w.buf)
            else:
                outs, jacs = w.problem.evaluate_functions(
                    w.buf, design_vector_is_normalized=bool(b),
                    output_functions=() if mode in ("val", "both") else None,
                    jacobian_functions=() if mode in ("jac", "both") else None,
                )
                for r, what in reqs:
                    got[(r, what)] = (outs if what == "val" else jacs)[r]
        except Exception as e:  # a legal call must not raise
            if kind == "ef" and not inside and isinstance(e, ValueError):
                raise Rejected("point outside the current bounds") from None  # check_membership: a legitimate refusal
            w.broken = True
            if check:
                import traceback

                tb = traceback.extract_tb(e.__traceback__)[-1]
                culprit = reqs[0][0]
                w.problems.append(("call-raises", self.fns[culprit].kind if kind != "ef" else None,
                                   f"{op} raised {type(e).__name__}: {str(e)[:200]} (at {tb.filename.split('/')[-1]}:{tb.lineno})"))
            return f"raised:{type(e).__name__}"
        finally:
            w.buf[:] = GARBAGE
        calls = collections.Counter(w.calls[n0:]) if len(w.calls) > n0 else {}

        # which admissible key did the implementation use (boundary i)?
        if len(cands) > 1:
            after = self._db_names(db)
            changed = [c for c in cands if after.get(c.tobytes()) != before.get(c.tobytes())]
            if changed:
                key = changed[0]
            else:
                # the database did not change: every storable requested name was already recorded under the key used
                storable = [(r if what == "val" else "@" + r) for r, what in reqs if what == "val" or sw["store_jac"]]
                in_model = [c for c in cands if c.tobytes() in w.model]
                full = [c for c in in_model if all(n in w.model[c.tobytes()]["names"] for n in storable)]
                key = (full or in_model or cands)[0]
        else:
            key = cands[0]
        kb = key.tobytes()

        hits = 0
        entry = w.model.get(kb)
        recorded_before = set(entry["names"]) if entry else ()
        # known finding: an MDOLinearFunction pre-processed with normalized inputs is replaced by
        # MDOLinearFunction.normalize(design_space), which freezes the bounds of the time of the pre-processing
        frozen = None
        if sw["norm"] and not (sw["round"] and self.has_int) and not (np.array_equal(w.pre_lb, w.lb) and np.array_equal(w.pre_ub, w.ub)):
            frozen = self.frame(w.pre_lb, w.pre_ub, sw)
        for r, what in reqs:
            fn = self.fns[r]
            name = r if what == "val" else "@" + r
            rec = entry["names"].get(name) if entry else None
            hits += rec is not None
            value = got[(r, what)]
            e = fr.expect(r, what, i, coords_norm, kind == "ef")
            st = self._frozen_linear(fn, fr, frozen, x, p_fun) if (frozen is not None and fn.linear) else None
            if what == "val":
                if check:
                    g = np.atleast_1d(_dense(value))
                    exp = e["exp"]
                    ok = g.shape == exp.shape and bool(np.all(abs(g - exp) <= e["tol"])) and not (g.dtype.kind == "c" and np.any(g.imag != 0))
                    if not ok and st is not None and g.shape == st["val"].shape and np.all(abs(g - st["val"]) <= st["val_tol"]):
                        w.problems.append((FROZEN_LINEAR, fn.kind, f"{op}: {r}.evaluate returned {_show(value)} = the function at {_show(st['x'])}, the image of the normalized point under the bounds of the pre-processing {_show(w.pre_lb)}..{_show(w.pre_ub)}; under the current bounds {_show(fr.lb)}..{_show(fr.ub)} the physical point is x={_show(x)} (value {_show(exp)}), and the value is recorded under x"))
                    elif not ok:
                        w.problems.append(("returned-value", fn.kind, f"{op}: {r}.evaluate returned {_show(value)}; the user's function at the physical point x={_show(x)} is {_show(exp)}"))
                    if rec is not None and not (np.shape(value) == np.shape(rec["first"]) and np.array_equal(_dense(value), _dense(rec["first"]))):
                        w.problems.append(("repeat-differs", fn.kind, f"{op}: {name} at x={_show(x)} was recorded as {_show(rec['first'])} and is now returned as {_show(value)}"))
                new = {"first": value}
            else:
                # boundary (viii): a Jacobian recorded while a component had lb == ub (zero column) and served after an
                # edit has separated its bounds (or conversely) - the two clauses of the statement conflict; not judged
                stale_zero = rec is not None and rec["equal_key"] != fr.equal_key
                if check and not stale_zero:
                    if not any(fr.jac_matches(value, ex, tol) for ex, tol, _ in e["readings"]):
                        ex, _, s = e["readings"][0]
                        gj = _dense2(value)
                        is_frozen = st is not None and gj.shape == st["jac"].shape and bool(np.all(abs(gj - st["jac"]) <= st["jac_tol"]))
                        w.problems.append((FROZEN_LINEAR if is_frozen else "returned-jacobian", fn.kind, f"{op}: Jacobian of {r} returned {_show(value)}; expected J_F(x).D = {_show(ex)} (x={_show(x)}, D=diag{_show(s)}, bounds {_show(fr.lb)}..{_show(fr.ub)})"))
                    if rec is not None and rec["frame"] == fr.key:
                        first, now = _dense2(rec["first"]), _dense2(value)
                        if first.shape != now.shape or not np.all(abs(now - first) <= 8 * EPS * abs(first)):
                            w.problems.append(("repeat-differs", fn.kind, f"{op}: {name} at x={_show(x)} was first returned as {_show(first)} and is now returned as {_show(now)}"))
                new = {"first": value, "phys": e["phys"], "tol": e["phys_tol"], "free": fr.free, "frame": fr.key, "equal_key": fr.equal_key}
                if st is not None:
                    new["frozen_phys"], new["frozen_tol"] = st["stored"], st["jac_tol"]

            # counters in the user's callables (callable kinds only, boundary vii)
            if check and sw["db"] and not fn.linear and calls:
                n_func, n_jac = calls.get((r, "func"), 0), calls.get((r, "jac"), 0)
                if what == "val":
                    probe_calls_allowed = self.approx and (r, "jac") in reqs and ("@" + r) not in recorded_before
                    if rec is not None and n_func > 0 and not probe_calls_allowed:
                        dts = self._same_point_keys(db, key)
                        w.problems.append(("recomputed-recorded-point" if len(dts) < 2 else "recomputed-point-recorded-under-another-dtype", fn.kind, f"{op}: {name} is recorded at x={_show(x)} but the user's function was called {n_func} more time(s)" + (f"; the database now holds this point under keys of dtypes {dts}" if len(dts) > 1 else "")))
                    elif rec is None and n_func > 1 and not self.approx:
                        w.problems.append(("computed-more-than-once", fn.kind, f"{op}: the user's function {r} was called {n_func} times for one new point x={_show(x)}"))
                elif sw["store_jac"]:
                    value_is_computed_too = (r, "val") in reqs and r not in recorded_before
                    if rec is not None and (n_jac > 0 or (n_func > 0 and not value_is_computed_too)):
                        dts = self._same_point_keys(db, key)
                        w.problems.append(("recomputed-recorded-point" if len(dts) < 2 else "recomputed-point-recorded-under-another-dtype", fn.kind, f"{op}: {name} is recorded at x={_show(x)} but the user's callables were called again (func {n_func}, jac {n_jac})" + (f"; the database now holds this point under keys of dtypes {dts}" if len(dts) > 1 else "")))
                    elif rec is None and n_jac > 1:
                        w.problems.append(("computed-more-than-once", fn.kind, f"{op}: the user's Jacobian of {r} was called {n_jac} times for one new point x={_show(x)}"))

            # the model: what the database must hold now
            if sw["db"] and (what == "val" or sw["store_jac"]) and rec is None:
                if entry is None:
                    entry = w.model[kb] = {"x": key, "names": {}}
                entry["names"][name] = new
        tag = "hit" if hits == len(reqs) else ("miss" if not hits else "partial")
        return f"{tag}:{'db' if sw['db'] else 'off'}"

    @staticmethod
    def _frozen_linear(fn, fr, frozen, x, p_fun):
        """What a linear function normalized with the bounds ``frozen`` returns / records for the normalized point p_fun."""
        x_st = frozen.affine(p_fun)
        jac = fn.jac(x) * frozen.s_fun
        xa = abs(x) + abs(x_st) + 2 * abs(frozen.lbn) + 2 * abs(fr.lbn)
        # (for approximated derivatives: the bound of the module docstring applied to the frozen function)
        return {"x": x_st, "val": fn.value(x_st), "val_tol": 32 * EPS * fn.mag(xa), "jac": jac,
                "jac_tol": (32 * EPS * fn.jmag(xa) * np.maximum(frozen.s_fun, 1.0) + frozen._jac_tol(fn, x_st, p_fun, frozen.s_fun)) * np.maximum(fr.inv, 1.0),
                "stored": np.where(fr.normed, jac * fr.inv, jac)}

    def _apply_edit(self, w, op, check):
        """design_space.set_upper_bound / set_lower_bound ALONE on the edited variable; the model follows the new bounds."""
        side, name = op[0], op[1]
        ed = self.lay["edits"]
        value = ed[side][name]
        a, b = ed["slice"]
        w.ds_touched = True
        try:
            (w.ds.set_upper_bound if side == "ub" else w.ds.set_lower_bound)(ed["var"], value.copy())
        except Exception as e:
            w.broken = True
            if check:
                w.problems.append(("call-raises", None, f"{op}: set_{'upper' if side == 'ub' else 'lower'}_bound({ed['var']}, {_show(value)}) raised {type(e).__name__}: {str(e)[:200]}"))
            return f"raised:{type(e).__name__}"
        (w.ub if side == "ub" else w.lb)[a:b] = value
        w.frame = self.frame(w.lb, w.ub, w.sw)
        w.n_edits += 1
        return name

    def _apply_reset(self, w, op, check):
        """problem.reset(...) followed by a second preprocess_functions(...) with the same / another switch vector."""
        variant = op[1]
        sw2 = dict(w.sw)
        if variant == "norm":
            sw2["norm"] = not sw2["norm"]
        keep_db = variant == "keepdb"
        w.ds_touched = True
        w.n_resets += 1
        try:
            w.problem.reset(database=not keep_db)
            w.problem.preprocess_functions(**_preprocess_kwargs(sw2))
        except Exception as e:
            w.broken = True
            if check:
                w.problems.append(("call-raises", None, f"{op}: reset + preprocess_functions raised {type(e).__name__}: {str(e)[:200]}"))
            return f"raised:{type(e).__name__}"
        w.refresh_functions()
        w.sw = sw2
        w.pre_lb, w.pre_ub = w.lb.copy(), w.ub.copy()
        w.frame = self.frame(w.lb, w.ub, sw2)
        if not keep_db:
            w.model.clear()
        return variant

    def _apply_orig(self, w, op, check):
        """The original functions (get_functions(no_db_no_norm=True)) at a physical point: the user's own functions."""
        i = op[1]
        fr = w.frame
        p = fr.caller_point(i, False)
        inside = bool(np.all(p >= fr.lb - 1e-9 * (1 + abs(p))) and np.all(p <= fr.ub + 1e-9 * (1 + abs(p))))
        w.buf[:] = p
        try:
            outs, jacs = w.problem.get_functions(no_db_no_norm=True, jacobian_names=())
            values, jacobians = w.problem.evaluate_functions(w.buf, design_vector_is_normalized=False, output_functions=outs, jacobian_functions=jacs)
        except Exception as e:
            if not inside and isinstance(e, ValueError):
                raise Rejected("point outside the current bounds") from None
            w.broken = True
            if check:
                w.problems.append(("call-raises", None, f"{op}: evaluation of the original functions raised {type(e).__name__}: {str(e)[:200]}"))
            return f"raised:{type(e).__name__}"
        finally:
            w.buf[:] = GARBAGE
        if check:
            xa = abs(p)
            for r in ROLES:
                fn = self.fns[r]
                exp, jx = fn.value(p), fn.jac(p)
                g = np.atleast_1d(_dense(values.get(r))) if r in values else None
                if g is None or g.shape != exp.shape or not np.all(abs(g - exp) <= 32 * EPS * fn.mag(xa)):
                    w.problems.append(("original-value", fn.kind, f"{op}: the original function {r} (get_functions(no_db_no_norm=True)) returned {_show(values.get(r)) if r in values else None} at the physical point {_show(p)}; the user's function gives {_show(exp)}"))
                j = _dense2(jacobians[r]) if r in jacobians else None
                if j is None or j.shape != jx.shape or not np.all(abs(j - jx) <= 32 * EPS * fn.jmag(xa)):
                    w.problems.append(("original-jacobian", fn.kind, f"{op}: the original function {r} returned the Jacobian {_show(jacobians.get(r)) if r in jacobians else None} at {_show(p)}; the user's Jacobian is {_show(jx)}"))
        return "ok"

    @staticmethod
    def _same_point_keys(db, x):
        """The dtypes of the database keys that hold the numbers of ``x``."""
        out = []
        for k in db:
            a = np.asarray(k.wrapped_array)
            if a.shape == x.shape and np.array_equal(a, x):
                out.append(a.dtype.name)
        return out

    @staticmethod
    def _db_names(db):
        out = {}
        for k, vals in db.items():
            a = np.asarray(k.wrapped_array)
            out[np.asarray(a.real, dtype=float).tobytes()] = tuple(sorted(vals))
        return out

    # -- state invariants: database == model ---------------------------------------------------------
    def _sig(self, inv, fkind=None):
        s = {"invariant": inv, "layout": self.layout_name}
        if fkind is not None:
            s["kind"] = fkind
        s.update({k: (v if not isinstance(v, bool) else int(v)) for k, v in self.nondefault.items()})
        return s

    def check(self, w, hist):
        out = self._check(w, hist)
        if not self.fast or w.restores == 0:
            return out
        # safety net of the snapshot/restore shortcut: every violation, every history of < cross_check_len operations
        # and every history of <= 2 operations ending with an edit or a reset is re-executed on a World built from
        # scratch by replaying the history
        if out or len(hist) <= self.cross_check_len or (len(hist) <= 3 and hist[-1][0] in ("ub", "lb", "reset")):
            fresh = self.new_world()
            for op in hist[1:-1]:
                self._apply(fresh, op, check=False)
            if len(hist) > 1:
                try:
                    self._apply(fresh, hist[-1], check=True)
                except Rejected:
                    pass
            out2 = self._check(fresh, hist)
            same = sorted(json.dumps(s, sort_keys=True) for s, _ in out) == sorted(json.dumps(s, sort_keys=True) for s, _ in out2) and self.canon(fresh) == self.canon(w)
            if not same:
                out2.append((self._sig("harness-restore-mismatch"), f"harness-restore-mismatch: a restored World and a World built from scratch disagree after history={json.dumps(hist)}: {[s for s, _ in out]} vs {[s for s, _ in out2]}"))
            return out2
        return out

    def _check(self, w, hist):
        out = []
        sig = self._sig
        for inv, fkind, msg in w.problems:
            out.append((sig(inv, fkind), f"{inv}: {msg}\n  switches={self.sw}\n  history={json.dumps(hist)}"))
        w.problems = []
        if w.broken:
            return out
        db = w.problem.database
        tail = f"\n  switches={self.sw}\n  history={json.dumps(hist)}"
        for r, fn in w.funcs.items():
            if bool(fn.expects_normalized_inputs) != bool(w.sw["norm"]):
                out.append((sig("expects-normalized-flag", self.fns[r].kind), f"expects-normalized-flag: {r}.expects_normalized_inputs={fn.expects_normalized_inputs} with is_function_input_normalized={w.sw['norm']}{tail}"))
        # the design space holds the edited bounds
        if not (np.array_equal(w.ds.get_lower_bounds(), w.lb) and np.array_equal(w.ds.get_upper_bounds(), w.ub)):
            out.append((sig("design-space-bounds"), f"design-space-bounds: the design space reports {_show(w.ds.get_lower_bounds())}..{_show(w.ds.get_upper_bounds())} after the edits; set: {_show(w.lb)}..{_show(w.ub)}{tail}"))
        if not w.sw["db"]:
            if len(db) and not any(op[0] == "reset" for op in hist[1:]):
                out.append((sig("db-used-while-off"), f"db-used-while-off: {len(db)} entries with use_database=False{tail}"))
            if not len(w.model):
                return out
        keys = list(db)
        karr = [np.asarray(k.wrapped_array) for k in keys]
        model = list(w.model.values())
        same = len(karr) == len(model) and all(
            a.shape == e["x"].shape and not (a.dtype.kind == "c" and np.any(a.imag != 0)) and np.array_equal(a.real if a.dtype.kind == "c" else a, e["x"])
            for a, e in zip(karr, model)
        )
        if not same:
            reals = [np.asarray(a.real, dtype=float).tobytes() for a in karr]
            if len(set(reals)) < len(reals) and len({(a.dtype.str, a.tobytes()) for a in karr}) == len(karr):
                dup = next(a for a, r in zip(karr, reals) if reals.count(r) > 1)
                out.append((sig("db-same-point-under-two-dtypes"), f"db-same-point-under-two-dtypes: the physical point {_show(dup)} is recorded under {reals.count(np.asarray(dup.real, dtype=float).tobytes())} keys of dtypes {[a.dtype.name for a in karr if np.array_equal(a, dup)]} (after {hist[-1]}); keys: {[_show(a) for a in karr]}{tail}"))
                return out
            out.append((sig("db-keys"), f"db-keys: database keys {[_show(a) for a in karr]}; the physical points requested so far, in order of first record, are {[_show(e['x']) for e in model]} (after {hist[-1]}; current bounds {_show(w.lb)}..{_show(w.ub)}){tail}"))
            return out
        for k, e in zip(keys, model):
            vals = db[k]
            if set(vals) != set(e["names"]):
                out.append((sig("db-names"), f"db-names: at x={_show(e['x'])} the database holds {sorted(vals)}; requested and storable so far: {sorted(e['names'])}{tail}"))
                continue
            for name, rec in e["names"].items():
                v = vals[name]
                if not name.startswith("@"):
                    if v is rec["first"]:
                        continue
                    if not (np.shape(v) == np.shape(rec["first"]) and np.array_equal(_dense(v), _dense(rec["first"]))):
                        out.append((sig("db-value", self.fns[name].kind), f"db-value: {name} at x={_show(e['x'])} is stored as {_show(v)} but the call that computed it returned {_show(rec['first'])}{tail}"))
                elif not self._stored_jac_matches(v, rec):
                    gj = _dense2(v)
                    is_frozen = "frozen_phys" in rec and gj.shape == rec["frozen_phys"].shape and bool(np.all(abs(gj - rec["frozen_phys"]) <= rec["frozen_tol"]))
                    out.append((sig(FROZEN_LINEAR if is_frozen else "db-jacobian", self.fns[name[1:]].kind), f"db-jacobian: {name} at x={_show(e['x'])} is stored as {_show(v)}; the physical-space Jacobian is {_show(rec['phys'])}{tail}"))
        return out

    @staticmethod
    def _stored_jac_matches(v, rec):
        got = _dense2(v)
        if got.shape != rec["phys"].shape:
            return False
        if got.dtype.kind == "c":
            if np.any(got.imag != 0):
                return False
            got = got.real
        ok = abs(got - rec["phys"]) <= rec["tol"]
        if rec["free"].any():
            ok = ok | (rec["free"][None, :] & (abs(got) <= rec["tol"]))
        return bool(ok.all())


# ---------------------------------------------------------------------------------------------------
# driver
# ---------------------------------------------------------------------------------------------------
SPECIAL = ("equal", "mixed", "ints")  # layouts whose third point is special (inert coordinate / non-integral integer)


def _ops(points, ef, orig=(), edits=(), resets=()):
    ops = []
    for i in points:
        ops += [["ev", "f", i], ["jac", "f", i], ["ev", "g", i], ["jac", "g", i]]
    ops += [["ef", i, b, m] for i, b, m in ef]
    ops += [["orig", i] for i in orig]
    ops += [[side, name] for side, name in edits]  # enabled only where the layout defines the value and it changes the bound
    ops += [["reset", v] for v in resets]
    return ops


def ops_quick(layout, sw=None):
    extra = {"orig": (1,), "edits": (("ub", "loose"), ("lb", "inf")), "resets": ("same", "norm")}
    if layout in SPECIAL:
        return _ops((1, 2, 3), [(1, 1, "val"), (1, 0, "both"), (3, 1, "jac"), (3, 0, "val")], **extra)
    return _ops((1, 2), [(1, 1, "val"), (1, 0, "both"), (2, 1, "jac")], **extra)


def ops_wide(layout, sw=None):
    return _ops((1, 2, 3), [(1, 1, "val"), (1, 0, "both"), (1, 1, "jac"), (2, 0, "val"), (2, 1, "both"), (3, 1, "jac"), (3, 0, "val"), (3, 0, "both")],
                orig=(1, 3), edits=(("ub", "loose"), ("ub", "tight"), ("ub", "inf"), ("ub", "base"), ("lb", "loose"), ("lb", "inf"), ("lb", "base")),
                resets=("same", "norm", "keepdb"))


def ops_core(layout, sw=None):
    # one evaluate_functions variant, given in the coordinates the functions do NOT work in (conversion path)
    b = 0 if (sw is None or sw["norm"]) else 1
    edits = (("ub", "loose"),) if (sw is None or sw["norm"]) else ()  # the bounds only scale normalized functions
    return _ops((1, 3) if layout in SPECIAL else (1, 2), [(1, b, "both")], orig=(1,), edits=edits, resets=("same",))


OPSETS = {"quick": ops_quick, "wide": ops_wide, "core": ops_core}


def _run_config(case, tally):
    spec = Spec(case["layout"], case["kind"], case["sw"], OPSETS[case["ops"]](case["layout"], case["sw"]), case["alphabet"],
                max_edits=case["max_edits"], max_resets=1, depth=case["depth"], edit_after_evaluation=case["ops"] == "core")
    t = Tally()
    info = explore.bfs(spec, case["depth"], t, jobs=1)
    tally.merge(t)
    tally.count(f"bfs_runs[{case['pass']}]")
    tally.count(f"bfs_states[{case['pass']}]", t.states)
    tally.count(f"bfs_transitions[{case['pass']}]", t.transitions)
    if info["depth_completed"] < case["depth"]:
        tally.count(f"bfs_state_space_exhausted_before_the_bound[{case['pass']}]")


def _switch_vectors(kmin, kmax):
    """Switch vectors with kmin <= number of non-default switches <= kmax, fewest deviations first."""
    sws = [(sum(v != DEFAULTS[a] for a, v in sw.items()), sw) for sw in product.full(SWITCH_AXES)]
    sws = [(d, sw) for d, sw in sws if kmin <= d <= kmax]
    sws.sort(key=lambda t: t[0])
    return [sw for _, sw in sws]


def _passes(ctx):
    n = len(SWITCH_AXES)
    if ctx.thorough:
        return [
            {"pass": "A", "depth": 3, "ops": "wide", "k": (0, 1), "max_edits": 2},
            {"pass": "A'", "depth": 3, "ops": "quick", "k": (2, n), "max_edits": 1},
            {"pass": "B", "depth": 4, "ops": "core", "k": (0, 2), "max_edits": 1},
        ]
    return [
        {"pass": "A", "depth": 3, "ops": "quick", "k": (0, 1), "max_edits": 1},
        {"pass": "A'", "depth": 3, "ops": "core", "k": (2, 2), "max_edits": 1},
    ]


def _drop_subsumed(tally):
    """A defect seen under a switch vector is reported once, under its minimal set of non-default switches."""
    base = ("invariant", "layout", "kind")
    items = list(tally.violations.items())
    parsed = []
    for k, v in items:
        s = v["signature"]
        parsed.append((tuple(s.get(b) for b in base), {a: b for a, b in s.items() if a not in base}))
    order = sorted(range(len(items)), key=lambda i: -len(parsed[i][1]))
    for idx in order:
        k, v = items[idx]
        head, sw = parsed[idx]
        for jdx, (k2, v2) in enumerate(items):
            head2, sw2 = parsed[jdx]
            if jdx != idx and k2 in tally.violations and head2 == head and len(sw2) < len(sw) and all(sw.get(a) == b for a, b in sw2.items()):
                tally.violations[k2]["count"] += v["count"]
                tally.count("violations_subsumed_by_a_smaller_switch_vector")
                del tally.violations[k]
                break


def run(ctx):
    idx = ctx.seed % len(ALPHABETS)
    cases, bounds = [], {}
    for ps in _passes(ctx):
        n = 0
        for sw in _switch_vectors(*ps["k"]):  # fewest non-default switches first: the first counter-example is the simplest
            for layout in LAYOUTS:
                for kind in KINDS:
                    label = f"{ps['pass']}/{layout}/{kind}/" + ",".join(f"{k}={v}" for k, v in sw.items() if v != DEFAULTS[k])
                    if ctx.only and ctx.only not in label:
                        continue
                    cases.append({"pass": ps["pass"], "layout": layout, "kind": kind, "sw": sw, "depth": ps["depth"], "ops": ps["ops"], "alphabet": idx, "max_edits": ps["max_edits"]})
                    n += 1
        bounds["pass_" + ps["pass"]] = {
            "depth": ps["depth"], "configurations": n,
            "switch_vectors": f"{ps['k'][0]} <= non-default switches <= {ps['k'][1]} ({len(_switch_vectors(*ps['k']))} vectors)",
            "operations": {lay: len(OPSETS[ps["ops"]](lay)) for lay in LAYOUTS},
            "operation_menu": {lay: OPSETS[ps["ops"]](lay) for lay in ("bounded", "equal")},
            "max_design_space_edits_per_history": ps["max_edits"], "max_resets_per_history": 1,
        }
    # the most expensive configurations (database on) first would unbalance the simplest-first order of the
    # witnesses; the order is kept and the chunks are single configurations
    pmap(_run_config, cases, ctx.tally, jobs=ctx.jobs, chunk=1, timeout=7200)
    _drop_subsumed(ctx.tally)
    if ctx.tally.violations:
        ctx.tally.notes["violation_signatures"] = [f"{k} x{v['count']}" for k, v in ctx.tally.violations.items()]
    return {
        "level": LEVEL,
        "rule": "one BFS per (layout x function kind x switch vector) over histories of h.evaluate(p) / h.jac(p) / evaluate_functions(p, "
        "design_vector_is_normalized=b, values and/or Jacobians); histories reaching the same database content are merged; "
        "interleaved with design-space bound edits, reset + second pre-processing and evaluations of the original functions; "
        "a history is non-trivial when a point is requested twice, value and Jacobian are requested at one point, or an "
        "evaluation follows an edit / a reset; "
        "distinct = distinct (configuration, operation history)",
        "exhaustive": True,
        "bounds": {"layouts": LAYOUTS, "kinds": KINDS, "alphabet": idx, **bounds},
        "assumptions": [
            "value alphabet: 3 points per layout, dyadic bounds/points with power-of-two spans (exact affine maps); 4 alphabets rotated by VERIF_SEED",
            "test functions are polynomials of degree <= 2 in 3 inputs (exact Taylor remainder for the approximated derivatives)",
            "oracle boundaries (i)-(vii) of the module docstring",
            "states are merged on the database content (ordered keys, names, value bytes), the evaluation counter, the bounds, the design space's normalization flag and cached ranges, the active switch vector, the numbers of edits and resets",
            "an edit or a reset is never the last operation of a history; at most 1 (thorough pass A: 2) edit and 1 reset per history",
            "sibling transitions are executed on one World restored from a snapshot (database, model, design space state, pre-processed functions); every violation, every one-operation history and every two-operation history ending with an edit or reset is re-executed on a World built from scratch and must agree",
            "gemseo.algos.problem_function.Value (multiprocessing.Value behind n_calls) is rebound to a plain in-process counter with the same interface",
        ],
    }


def replay(case, ctx):
    hist = case["history"]
    _, layout, kind, sw, alphabet = hist[0]
    spec = Spec(layout, kind, sw, [], alphabet)
    w = spec.new_world()
    msgs, outcomes = [], []
    for i, op in enumerate(hist[1:]):
        try:
            outcomes.append(spec._apply(w, op, check=True))
        except Rejected as r:
            outcomes.append(f"rejected: {r}")
        msgs += [m for _, m in spec._check(w, hist[: i + 2])]
    db = [{"x": _show(k.wrapped_array), **{n: _show(v) for n, v in vals.items()}} for k, vals in w.problem.database.items()]
    return {"history": hist, "outcomes": outcomes, "database": db, "user_calls": [list(c) for c in w.calls], "violations": msgs}
