"""C02 - design-space views stay consistent, normalization is an exact bijection (engine E1).

Explicit-state BFS over a real ``DesignSpace``: every sequence (to the depth bound) of public mutators
and cache-filling queries, from the empty space and three pre-built ones; after every transition the
view-consistency invariants I1..I7 are evaluated on a deep copy.  Hidden caches are part of the
canonical state.
"""
from __future__ import annotations

import copy

import numpy as np
from numpy import inf

from mc import explore
from mc.explore import Rejected

LEVEL = "model_checking"
M = "_DesignSpace__"

# name -> (size, type, lb, ub, value); three equally valid tables, rotated by VERIF_SEED
TABLES = [
    {
        "x": (1, "float", 0.0, 1.0, 0.5),
        "yy": (2, "float", [-1.0, 2.0], [3.0, 2.0], [0.0, 2.0]),
        "n_3": (1, "integer", 0, 4, 1),
        "w": (2, "float", -inf, inf, None),
        "q": (1, "float", 0.0, inf, 1.5),
        "mm": (2, "integer", [-2, 1], [2, 5], None),
        "t3": (3, "float", [0.0, -1.0, 2.0], [1.0, 1.0, 6.0], [0.25, 0.5, 3.0]),
    },
    {
        "x": (1, "float", -2.0, 6.0, 1.0),
        "yy": (2, "float", [0.5, -3.0], [0.5, 5.0], [0.5, 1.0]),
        "n_3": (1, "integer", -3, 3, 2),
        "w": (2, "float", -inf, 4.0, None),
        "q": (1, "float", -inf, inf, 0.25),
        "mm": (2, "integer", [0, -1], [8, 1], None),
        "t3": (3, "float", [-1.0, 0.0, 10.0], [1.0, 4.0, 12.0], [0.5, 1.0, 11.5]),
    },
    {
        "x": (1, "float", 10.0, 10.5, 10.25),
        "yy": (2, "float", [-4.0, -4.0], [-4.0, 12.0], [-4.0, 0.0]),
        "n_3": (1, "integer", 1, 9, 5),
        "w": (2, "float", 0.0, inf, None),
        "q": (1, "float", -inf, inf, None),
        "mm": (2, "integer", [-6, 2], [-2, 4], None),
        "t3": (3, "float", [2.0, -8.0, 0.0], [4.0, -6.0, 0.5], [2.5, -7.0, 0.125]),
    },
]
TABLE = TABLES[0]
START_KINDS = {"empty": [], "x": ["x"], "x,yy": ["x", "yy"], "x,yy,n_3": ["x", "yy", "n_3"], "yy,mm": ["yy", "mm"], "t3,x": ["t3", "x"]}
MAX_VARS = 3


def _mk():
    from gemseo.algos.design_space import DesignSpace

    return DesignSpace()


def _add(ds, name, newname=None):
    size, tp, lb, ub, val = TABLE[name]
    lb = np.array(lb, dtype=float) if isinstance(lb, list) else lb
    ub = np.array(ub, dtype=float) if isinstance(ub, list) else ub
    if isinstance(val, list):
        val = np.array(val, dtype=float)
    ds.add_variable(newname or name, size, tp, lb, ub, val)


class Spec:
    def __init__(self, table, starts=None, with_to_complex=False):
        global TABLE
        TABLE = table
        self._starts = starts or list(START_KINDS)

    def starts(self):
        return [["start", k] for k in self._starts]

    def build(self, hist):
        ds = _mk()
        for n in START_KINDS[hist[0][1]]:
            _add(ds, n)
        for op in hist[1:]:
            try:
                self.apply(ds, op)
            except Rejected:
                pass
        return ds

    def clone(self, ds):
        return copy.deepcopy(ds)

    def enabled(self, ds, hist):
        names = ds.variable_names
        out = []
        if len(names) < MAX_VARS:
            for nm in TABLE:
                if nm not in names and nm + "r" not in names:
                    out.append(["add", nm])
        for nm in names:
            out.append(["remove", nm])
            if not nm.endswith("r") and nm + "r" not in names:  # renaming onto an existing name is undefined
                out.append(["rename", nm, nm + "r"])
            out.append(["set_lb", nm, "loose"])
            out.append(["set_ub", nm, "loose"])
            out.append(["set_lb", nm, "inf"])
            out.append(["set_ub", nm, "tight"])
            if ds.get_size(nm) == 2:
                out.append(["filter_dim", nm, [1]])
                out.append(["filter_dim", nm, [0]])
            elif ds.get_size(nm) > 2:  # kept != removed counts, non-contiguous and contiguous selections
                out.append(["filter_dim", nm, [1]])
                out.append(["filter_dim", nm, [0, 2]])
                out.append(["filter_dim", nm, [1, 2]])
            out.append(["set_var", nm])
        if len(names) > 1:
            out.append(["filter", names[:1]])
            out.append(["filter", names[1:]])
        if len(names) < MAX_VARS and "e1" not in names:
            out.append(["extend"])
        # calls the class must refuse: the space must stay consistent after the refusal
        if "bad" not in names:
            out.append(["add_bad"])
        if names:
            out.append(["add_dup", names[0]])
            out.append(["set_cur_bad"])
            out.append(["set_lb_bad", names[-1]])
            out.append(["filter_dim_bad", names[0]])
            out.append(["filter_bad", names[:1]])
        out += [["init_missing"], ["toggle_int"]]
        if names:
            out += [["q_norm"], ["q_bounds"], ["q_cur"], ["q_member"], ["q_project"], ["set_cur_arr"], ["set_cur_dict"]]
        return out

    def apply(self, ds, op):
        k = op[0]
        try:
            return self._apply(ds, op)
        except Rejected:
            raise
        except Exception as e:  # a legal call that raises: the state is still checked
            return f"raised:{type(e).__name__}"

    def _apply(self, ds, op):
        k = op[0]
        if k == "add":
            _add(ds, op[1])
        elif k == "remove":
            ds.remove_variable(op[1])
        elif k == "rename":
            ds.rename_variable(op[1], op[2])
        elif k == "set_lb":
            nm = op[1]
            lb = ds.get_lower_bound(nm)
            if op[2] == "inf":
                new = np.full(ds.get_size(nm), -inf)
            else:
                new = np.where(np.isfinite(lb), lb - 1.0, -5.0)
                cur = ds._current_value.get(nm)
                if cur is not None:
                    new = np.minimum(new, np.floor(np.real(cur)))
            ds.set_lower_bound(nm, new)
        elif k == "set_ub":
            nm = op[1]
            ub = ds.get_upper_bound(nm)
            lb = ds.get_lower_bound(nm)
            cur = ds._current_value.get(nm)
            if op[2] == "tight":  # tighten onto the current value (or the lower bound + 1)
                if cur is not None:
                    new = np.ceil(np.real(cur)).astype(float)
                else:
                    new = np.where(np.isfinite(lb), lb + 1.0, 3.0)
                new = np.maximum(new, np.where(np.isfinite(lb), lb, -inf))
            else:
                new = np.where(np.isfinite(ub), ub + 1.0, 7.0)
                if cur is not None:
                    new = np.maximum(new, np.ceil(np.real(cur)))
            ds.set_upper_bound(nm, new)
        elif k == "filter_dim":
            ds.filter_dimensions(op[1], list(op[2]))
        elif k == "set_var":
            nm = op[1]
            lb, ub = ds.get_lower_bound(nm), ds.get_upper_bound(nm)
            v = np.clip(np.full(ds.get_size(nm), 1.0), lb, ub)
            if ds.get_type(nm) == "integer":
                v = np.ceil(v).astype(np.int64) if (np.ceil(v) <= ub).all() else np.floor(v).astype(np.int64)
            ds.set_current_variable(nm, v)
        elif k == "filter":
            ds.filter(list(op[1]))
        elif k == "extend":
            other = _mk()
            other.add_variable("e1", 2, "float", np.array([0.0, -1.0]), np.array([2.0, -1.0]), np.array([1.0, -1.0]))
            ds.extend(other)
        elif k == "add_bad":  # the value is outside the bounds
            ds.add_variable("bad", 2, "float", 0.0, 1.0, np.array([0.5, 3.0]))
        elif k == "add_dup":
            ds.add_variable(op[1], 1, "float", 0.0, 1.0, 0.5)
        elif k == "set_cur_bad":
            ds.set_current_value(np.zeros(ds.dimension + 1))
        elif k == "set_lb_bad":
            ub = ds.get_upper_bound(op[1])
            if not np.isfinite(ub).all():
                raise Rejected("no finite upper bound to exceed")
            ds.set_lower_bound(op[1], ub + 1.0)
        elif k == "filter_dim_bad":
            ds.filter_dimensions(op[1], [ds.get_size(op[1])])
        elif k == "filter_bad":
            ds.filter([*op[1], "no_such_variable"])
        elif k == "init_missing":
            ds.initialize_missing_current_values()
        elif k == "toggle_int":
            ds.enable_integer_variables_normalization = not ds.enable_integer_variables_normalization
        elif k == "q_norm":
            ds.normalize_vect(np.zeros(ds.dimension))
        elif k == "q_bounds":
            ds.get_lower_bounds()
            ds.get_upper_bounds()
        elif k == "q_cur":
            if not ds.has_current_value:
                raise Rejected("no current value")
            ds.get_current_value(normalize=True)
        elif k == "q_member":
            if not ds.has_current_value:
                raise Rejected("no current value")
            ds.check_membership(ds.get_current_value())
        elif k == "q_project":
            ds.project_into_bounds(np.zeros(ds.dimension))
        elif k in ("set_cur_arr", "set_cur_dict"):
            vals = {}
            for n in ds.variable_names:
                lb, ub = ds.get_lower_bound(n), ds.get_upper_bound(n)
                v = np.clip(np.full(ds.get_size(n), 2.0), lb, ub)
                if ds.get_type(n) == "integer":
                    v = np.where(np.ceil(v) <= ub, np.ceil(v), np.floor(v))
                vals[n] = v
            if k == "set_cur_arr":
                ds.set_current_value(np.concatenate([vals[n] for n in ds.variable_names]))
            else:
                ds.set_current_value(vals)
        else:
            raise ValueError(op)
        return None

    def canon(self, ds):
        d = ds.__dict__

        def a(v):
            if v is None:
                return None
            v = np.asarray(v)
            return (v.dtype.str, v.shape, v.tobytes())

        return (
            tuple((n, v.size, str(v.type), a(v.lower_bound), a(v.upper_bound)) for n, v in ds._variables.items()),
            tuple((n, a(v)) for n, v in ds._current_value.items()),
            tuple((n, (r.start, r.stop)) for n, r in ds.names_to_indices.items()),
            tuple((n, a(v)) for n, v in ds.normalize.items()),
            d[M + "norm_data_is_computed"],
            a(d[M + "lower_bounds_array"]),
            a(d[M + "upper_bounds_array"]),
            a(d[M + "current_value_array"]),
            a(d[M + "norm_current_value_array"]),
            a(d.get(M + "norm_inds")),
            a(d.get("_norm_factor")),
            a(d.get(M + "integer_components")),
            str(d.get(M + "common_dtype")),
            ds.enable_integer_variables_normalization,
            ds.dimension,
            d[M + "has_current_value"],
        )

    def nontrivial(self, hist):
        # a history mixing at least one cache-filling query with at least one mutator
        kinds = [op[0] for op in hist[1:]]
        return any(k.startswith("q_") for k in kinds) and any(not k.startswith("q_") for k in kinds)

    def check(self, ds0, hist):
        out = []
        last = hist[-1][0]
        for inv, msg in invariants(copy.deepcopy(ds0)):
            out.append(({"invariant": inv, "op": last}, f"{inv}: {msg}\n  history={hist}"))
        return out


def _views(ds):
    names = list(ds.variable_names)
    sizes = [ds.get_size(n) for n in names]
    return names, sizes


def invariants(ds):
    """All checks are made on a private copy; none presumes a particular order of the variables."""
    bad = []
    names, sizes = _views(ds)
    if ds.dimension != sum(sizes):
        bad.append(("I1-dimension", f"dimension={ds.dimension} sum(sizes)={sum(sizes)}"))
    if list(ds.variable_sizes) != names or list(ds.variable_types) != names:
        bad.append(("I1-name-views", "variable_sizes/variable_types keys differ from variable_names"))
    off = 0
    for n, s in zip(names, sizes):
        r = ds.names_to_indices.get(n)
        if r is None or (r.start, r.stop) != (off, off + s):
            bad.append(("I2-index-ranges", f"names_to_indices[{n}]={r} expected ({off},{off + s}) for order {names}"))
            break
        off += s
    if set(ds.names_to_indices) != set(names):
        bad.append(("I2-index-names", f"names_to_indices keys {list(ds.names_to_indices)} vs {names}"))
    if set(ds.normalize) != set(names):
        bad.append(("I2-normalize-names", f"normalize keys {list(ds.normalize)} vs {names}"))
    if not names:
        return bad
    for n, sz in zip(names, sizes):
        if len(ds.get_lower_bound(n)) != sz or len(ds.get_upper_bound(n)) != sz or len(ds.normalize[n]) != sz:
            bad.append(("I1-size-vs-bounds", f"variable {n}: size={sz} len(lb)={len(ds.get_lower_bound(n))} len(ub)={len(ds.get_upper_bound(n))} len(normalize)={len(ds.normalize[n])}"))
        cvn = ds._current_value.get(n)
        if cvn is not None and np.size(cvn) != sz:
            bad.append(("I1-size-vs-current", f"variable {n}: size={sz} current={cvn}"))
    if bad and any(b[0].startswith("I1-size") for b in bad):
        return bad
    try:
        idx = ds.get_variables_indexes(names[-1:])
        if list(idx) != list(range(sum(sizes[:-1]), sum(sizes))):
            bad.append(("I2-get_variables_indexes", f"{list(idx)} for last variable {names[-1]}"))
    except Exception as e:
        bad.append(("I2-get_variables_indexes", f"raised {type(e).__name__}: {e}"))
    if len(ds.get_indexed_variable_names()) != sum(sizes):
        bad.append(("I2-indexed-names", "get_indexed_variable_names length"))

    lb = np.concatenate([np.asarray(ds.get_lower_bound(n), dtype=float) for n in names])
    ub = np.concatenate([np.asarray(ds.get_upper_bound(n), dtype=float) for n in names])
    ints = np.concatenate([[ds.get_type(n) == "integer"] * s for n, s in zip(names, sizes)]).astype(bool)
    n_dim = lb.size
    # I3 bounds: vector view == concatenation of the per-variable view, dict view == per-variable getters
    try:
        got_lb, got_ub = ds.get_lower_bounds(), ds.get_upper_bounds()
        if not (np.array_equal(got_lb, lb) and np.array_equal(got_ub, ub)):
            bad.append(("I3-bounds-array", f"get_lower/upper_bounds()={got_lb},{got_ub} per-variable={lb},{ub} order={names}"))
        dl, du = ds.get_lower_bounds(as_dict=True), ds.get_upper_bounds(as_dict=True)
        for n in names:
            if not (np.array_equal(dl[n], ds.get_lower_bound(n)) and np.array_equal(du[n], ds.get_upper_bound(n))):
                bad.append(("I3-bounds-dict", n))
                break
        sub = ds.get_lower_bounds(names[-1:])
        if not np.array_equal(sub, ds.get_lower_bound(names[-1])):
            bad.append(("I3-bounds-subset", f"{sub}"))
    except Exception as e:
        bad.append(("I3-bounds-raise", f"{type(e).__name__}: {str(e)[:80]}"))

    # I5 conversions
    try:
        probe = np.arange(1.0, n_dim + 1.0)
        d = ds.convert_array_to_dict(probe)
        if list(d) != names or any(d[n].size != s for n, s in zip(names, sizes)):
            bad.append(("I5-array-to-dict", f"{d}"))
        if not np.array_equal(ds.convert_dict_to_array(d), probe):
            bad.append(("I5-roundtrip", f"{ds.convert_dict_to_array(d)} vs {probe}"))
    except Exception as e:
        bad.append(("I5-raise", f"{type(e).__name__}: {str(e)[:80]}"))

    # I6 normalization: independent affine formulas
    int_norm = ds.enable_integer_variables_normalization
    normable = np.isfinite(lb) & np.isfinite(ub) & (~ints | int_norm)
    span = np.where(normable, ub - lb, 1.0)
    fac = np.where(span == 0.0, 1.0, span)
    base = np.where(np.isfinite(lb), lb, np.where(np.isfinite(ub), ub - 1.0, 0.0))
    probes = []
    for t in (0.0, 0.25, 1.0):
        v = base + t * np.where(normable, ub - lb, 2.0)
        v = np.where(ints, np.round(v), v)
        v = np.where(normable & ints, np.clip(v, lb, ub), v)
        probes.append(v)
    batch = np.vstack(probes[:2])
    try:
        for v in [*probes, batch]:
            exp = np.where(normable, (v - lb) / fac, v)
            got = ds.normalize_vect(v)
            if got.shape != v.shape or not np.allclose(got, exp, rtol=1e-14, atol=1e-14):
                bad.append(("I6-normalize_vect", f"v={v} got={got} expected={exp} normalizable={normable} order={names}"))
                break
            if (np.where(normable & (span != 0), (got < -1e-12) | (got > 1 + 1e-12), False)).any():
                bad.append(("I6-unit-interval", f"v={v} got={got}"))
                break
            back = ds.unnormalize_vect(got)
            expb = np.where(ints, np.round(v), v)
            if back.shape != v.shape or not np.allclose(np.asarray(back, dtype=float), expb, rtol=1e-14, atol=1e-13):
                bad.append(("I6-unnormalize-inverse", f"v={v} normalized={got} back={back} expected={expb}"))
                break
        # unnormalize of a generic unit vector: affine formula (+ rounding of integer components)
        u = np.linspace(0.2, 0.8, n_dim)
        u = np.where(normable, u, np.where(ints, np.round(base), base + 0.5))
        expu = np.where(normable, u * span + np.where(normable, lb, 0.0), u)
        expu = np.where(ints, np.round(expu), expu)
        gotu = np.asarray(ds.unnormalize_vect(u), dtype=float)
        if not np.allclose(gotu, expu, rtol=1e-14, atol=1e-13):
            bad.append(("I6-unnormalize_vect", f"u={u} got={gotu} expected={expu}"))
        # gradients: pure diagonal scaling, no shift, no rounding
        g = np.linspace(0.7, 1.9, n_dim)
        gn = np.asarray(ds.normalize_grad(g), dtype=float)
        if not np.allclose(gn, np.where(normable, g * span, g), rtol=1e-14, atol=1e-14):
            bad.append(("I6-normalize_grad", f"g={g} got={gn} expected={np.where(normable, g * span, g)} integer={ints}"))
        gu = np.asarray(ds.unnormalize_grad(g), dtype=float)
        if not np.allclose(gu, np.where(normable, g / fac, g), rtol=1e-14, atol=1e-14):
            bad.append(("I6-unnormalize_grad", f"g={g} got={gu}"))
        jac = np.vstack([g, 2 * g])
        jn = np.asarray(ds.normalize_grad(jac), dtype=float)
        if not np.allclose(jn, np.where(normable, jac * span, jac), rtol=1e-14, atol=1e-14):
            bad.append(("I6-normalize_grad-2d", f"got={jn}"))
    except Exception as e:
        bad.append(("I6-raise", f"{type(e).__name__}: {str(e)[:100]}"))

    # I7 membership / projection agree with the bounds (integral probes on integer components)
    try:
        inside = np.where(np.isfinite(lb) & np.isfinite(ub), np.where(ints, np.floor((lb + ub) / 2), (lb + ub) / 2), base)
        pts = [(inside, True)]
        for j in range(n_dim):
            for val, ok in ((lb[j], True), (ub[j], True), (lb[j] - 1.0, False), (ub[j] + 1.0, False)):
                if np.isfinite(val):
                    p = inside.copy()
                    p[j] = val
                    pts.append((p, ok))
        for p, ok in pts:
            for form in ("array", "dict"):
                arg = p if form == "array" else {n: p[off:off + s] for n, s, off in zip(names, sizes, np.cumsum([0, *sizes[:-1]]))}
                try:
                    ds.check_membership(arg)
                    acc = True
                except ValueError:
                    acc = False
                if acc != ok:
                    bad.append((f"I7-membership-{form}", f"point={p} accepted={acc} expected={ok} lb={lb} ub={ub} order={names}"))
                    raise StopIteration
            q = ds.project_into_bounds(p)
            if not (np.all(q >= lb) and np.all(q <= ub)):
                bad.append(("I7-projection-outside", f"p={p} projected={q}"))
                raise StopIteration
            if ok and not np.array_equal(q, p):
                bad.append(("I7-projection-moves-inside-point", f"p={p} projected={q}"))
                raise StopIteration
            if not np.array_equal(ds.project_into_bounds(q), q):
                bad.append(("I7-projection-idempotent", f"{q}"))
                raise StopIteration
    except StopIteration:
        pass
    except Exception as e:
        bad.append(("I7-raise", f"{type(e).__name__}: {str(e)[:100]}"))

    # I4 current value
    try:
        cv = ds._current_value
        has_all = all(cv.get(n) is not None for n in names) and set(cv) == set(names)
        if bool(ds.has_current_value) != has_all:
            bad.append(("I4-has_current_value", f"flag={ds.has_current_value} per-variable={has_all}"))
        if not set(cv) <= set(names):
            bad.append(("I4-current-unknown-names", f"{list(cv)} vs {names}"))
        if has_all:
            cur = np.concatenate([np.atleast_1d(ds.get_current_value([n])) for n in names])
            arr = ds.get_current_value()
            if not np.array_equal(arr, cur):
                bad.append(("I4-current-array", f"array={arr} per-variable={cur} order={names}"))
            dct = ds.get_current_value(as_dict=True)
            if set(dct) != set(names) or any(not np.array_equal(dct[n], ds.get_current_value([n])) for n in names):
                bad.append(("I4-current-dict", f"{dct}"))
            curf = np.asarray(np.real(cur), dtype=float)
            expn = np.where(normable, (curf - np.where(normable, lb, 0.0)) / fac, curf)
            gotn = np.asarray(ds.get_current_value(normalize=True), dtype=float)
            if gotn.shape != expn.shape or not np.allclose(gotn, expn, rtol=1e-14, atol=1e-14):
                bad.append(("I4-current-normalized", f"got={gotn} expected={expn} current={cur} lb={lb} ub={ub}"))
            dn = ds.get_current_value(as_dict=True, normalize=True)
            gotd = np.concatenate([np.atleast_1d(dn[n]) for n in names]).astype(float)
            if not np.allclose(gotd, expn, rtol=1e-14, atol=1e-14):
                bad.append(("I4-current-normalized-dict", f"got={gotd} expected={expn}"))
    except Exception as e:
        bad.append(("I4-raise", f"{type(e).__name__}: {str(e)[:100]}"))
    return bad


def run(ctx):
    table = ctx.pick(TABLES)
    depth = 4 if ctx.thorough else 3
    spec = Spec(table)
    info = explore.bfs(spec, depth, ctx.tally, jobs=ctx.jobs)
    return {
        "level": LEVEL,
        "rule": "BFS over histories of public DesignSpace mutators and cache-filling queries from 6 start spaces; "
        "a history is non-trivial when it mixes at least one cache-filling query with at least one mutator; "
        "distinct = distinct operation histories",
        "exhaustive": True,
        "bounds": {"depth": depth, "max_variables": MAX_VARS, "starts": list(START_KINDS), **info},
        "assumptions": [
            "value alphabet: one table of 7 variable definitions (sizes 1, 2 and 3) (3 tables rotated by VERIF_SEED)",
            "states merged by canonical form including the name-mangled normalization caches",
            "membership probes are integral on integer components (array-form integrality is not demanded)",
        ],
    }


def replay(case, ctx):
    hist = case["history"]
    spec = Spec(ctx.pick(TABLES))
    ds = spec.build(hist)
    v = [{"invariant": i, "message": m} for i, m in invariants(copy.deepcopy(ds))]
    return {"history": hist, "variable_names": ds.variable_names, "violations": v}
